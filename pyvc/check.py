"""./check <PROPERTY> quick|thorough  — verify every contract that serves a property.

Exit status: 0 all obligations discharged (known findings printed), 1 VIOLATION (refuted obligation),
2 undecided (unknown / timeout / source shape changed / unsupported construct), 3 checker failure.
"""
from __future__ import annotations

import ast
import importlib
import json
import multiprocessing as mp
import os
import re
import subprocess
import sys
import tempfile
import time
import traceback
from pathlib import Path

import z3

VERIF = Path(__file__).resolve().parent.parent
# where evidence/ and replays/ are written (default: /verif); seeded-change trials redirect it to a scratch directory
OUT = Path(os.environ.get("VERIF_OUT", str(VERIF)))
sys.path.insert(0, str(VERIF))

from . import builtins_model as bm  # noqa: E402
from . import source  # noqa: E402
from .contracts import Contract, ContractDB, verify_function  # noqa: E402
from .engine import hard_check  # noqa: E402
from .values import SV, Obj, Opaque, PDict, PList, Ref, SDict, parse_sort, z3sort  # noqa: E402

CONTRACT_MODULES = None  # filled from contracts/__init__.py


def build_db() -> ContractDB:
    db = ContractDB()
    pkg = importlib.import_module("contracts")
    db.inline.update(getattr(pkg, "INLINE", []))
    for name in pkg.MODULES:
        importlib.import_module("contracts." + name).register(db)
    return db


# ---------------------------------------------------------------------------
# model -> python literals
# ---------------------------------------------------------------------------
def _unescape(s: str) -> str:
    def rep(m):
        return chr(int(m.group(1) or m.group(2), 16))

    return re.sub(r"\\u\{([0-9a-fA-F]+)\}|\\x([0-9a-fA-F]{2})", rep, s)


def z3_to_py(v, sort):
    sort = parse_sort(sort)
    if sort == "int":
        return v.as_long()
    if sort == "bool":
        return z3.is_true(v)
    if sort == "str":
        return _unescape(v.as_string())
    if sort == "real":
        try:
            return float(v.as_fraction())
        except Exception:
            return float(v.as_decimal(17).rstrip("?"))
    if isinstance(sort, tuple) and sort[0] == "opt":
        Z = z3sort(sort)
        if z3.is_true(z3.simplify(Z.is_none(v))):
            return None
        return z3_to_py(z3.simplify(Z.val(v)), sort[1])
    if isinstance(sort, tuple) and sort[0] == "tuple":
        Z = z3sort(sort)
        return tuple(z3_to_py(z3.simplify(Z.accessor(0, i)(v)), s) for i, s in enumerate(sort[1:]))
    return str(v)


def value_from_model(model, heap, v, depth=0):
    ev = lambda t: model.eval(t, model_completion=True)  # noqa: E731
    if isinstance(v, SV):
        return z3_to_py(ev(v.t), v.sort)
    if isinstance(v, Ref):
        o = heap.get(v.addr)
        if isinstance(o, SDict):
            n = min(ev(o.n).as_long(), 16)
            out = {}
            for i in range(n):
                k = ev(o.key_at[i])
                out[z3_to_py(k, o.ksort)] = z3_to_py(ev(o.val[k]), o.vsort)
            return out
        if isinstance(o, PList):
            return [value_from_model(model, heap, x, depth + 1) for x in o.items]
        if isinstance(o, PDict):
            return {k: value_from_model(model, heap, x, depth + 1) for k, x in o.items.items()}
        if isinstance(o, Obj):
            tag = "__record__" if o.tuple_fields is not None else "__obj__"
            return {tag: o.cls, **{k: value_from_model(model, heap, x, depth + 1) for k, x in o.fields.items()}}
        return repr(o)
    if isinstance(v, bm.Kwargs):
        return {"__kwargs__": {k: value_from_model(model, heap, x, depth + 1) for k, x in v.known.items()}}
    if isinstance(v, bm.SSeq):
        n = min(ev(v.n).as_long(), 16)
        return [z3_to_py(ev(v.arr[i]), v.sort) for i in range(n)]
    if isinstance(v, tuple):
        return tuple(value_from_model(model, heap, x, depth + 1) for x in v)
    if isinstance(v, (int, str, bool, float)) or v is None:
        return v
    if isinstance(v, Opaque):
        return {"__opaque__": v.kind, "id": str(ev(v.t))}
    return repr(v)


# ---------------------------------------------------------------------------
# worker: verify one contract and discharge its obligations
# ---------------------------------------------------------------------------
CVC5 = "/usr/bin/cvc5"


_prefer_cvc5 = [False]


def solve_obligation(ob, budget_s, tmpdir, tag):
    """Portfolio: z3 (python API, watchdog) and cvc5 (CLI on the SMT-LIB dump).  z3 alone decides most
    obligations in milliseconds; once an obligation of a function needed cvc5, cvc5 is started alongside z3
    for the following ones."""
    if z3.is_true(z3.simplify(ob.goal)):
        return "unsat", "trivial", 0.0, None, None
    s = z3.Solver()
    s.add(*bm.AXIOMS)
    s.add(*ob.pc)
    s.add(z3.Not(ob.goal))
    t0 = time.time()
    smt2 = None
    proc = None

    def start_cvc5():
        nonlocal smt2
        smt2 = os.path.join(tmpdir, f"{tag}.smt2")
        with open(smt2, "w") as fh:
            fh.write("(set-logic ALL)\n" + s.to_smt2())
        return subprocess.Popen([CVC5, "--strings-exp", f"--tlimit={int(budget_s * 1000)}", smt2],
                                stdout=subprocess.PIPE, stderr=subprocess.DEVNULL, text=True)

    def wait_cvc5(proc, limit):
        try:
            out, _ = proc.communicate(timeout=limit)
        except subprocess.TimeoutExpired:
            proc.kill()
            proc.wait()
            out = "timeout"
        return (out or "").strip().splitlines()[0] if (out or "").strip() else ""

    def z3_try(seconds, tracked=False):
        sx = z3.Solver()
        sx.set("timeout", int(seconds * 1000))
        if tracked:
            # same problem, every assertion behind a tracking literal: this switches off z3's equation
            # elimination pre-processing, which decides many string obligations the default pipeline loses
            # itself in (a strategy variation, no change of the problem)
            sx.set(unsat_core=True)
            for i, a in enumerate(list(bm.AXIOMS) + list(ob.pc) + [z3.Not(ob.goal)]):
                sx.assert_and_track(a, f"trk!{i}")
        else:
            sx.add(*bm.AXIOMS)
            sx.add(*ob.pc)
            sx.add(z3.Not(ob.goal))
        r = hard_check(sx, seconds)
        if r == z3.sat:
            # z3's string solver has returned bogus models under time pressure: a model must satisfy
            # every (evaluable) assertion, otherwise the answer is discarded as 'unknown'
            try:
                m = sx.model()
                for a in sx.assertions():
                    if z3.is_false(m.eval(a, model_completion=True)):
                        return z3.unknown, sx
            except z3.Z3Exception:
                return z3.unknown, sx
        return r, sx

    # attempt 0: string-free abstraction (congruence + linear arithmetic only, see euf.py): sound for 'unsat'
    from . import euf

    if euf.check_unsat(list(bm.AXIOMS) + list(ob.pc) + [z3.Not(ob.goal)]):
        return "unsat", "z3-5.1/euf", time.time() - t0, None, None
    # attempt 1: fewer assumptions (quantified ones dropped) - sound for 'unsat', and often much easier
    from .engine import _has_quantifier

    ground = [a for a in list(bm.AXIOMS) + list(ob.pc) if not _has_quantifier(a)]
    if len(ground) < len(bm.AXIOMS) + len(ob.pc) and not _has_quantifier(ob.goal):
        sg = z3.Solver()
        sg.set("timeout", 1500)
        sg.add(*ground)
        sg.add(z3.Not(ob.goal))
        if hard_check(sg, 1.5) == z3.unsat:
            return "unsat", "z3-5.1", time.time() - t0, None, None
    first = ""
    if _prefer_cvc5[0]:
        first = wait_cvc5(start_cvc5(), min(budget_s, 8.0))
        if first == "unsat":
            return "unsat", "cvc5-1.0.3", time.time() - t0, None, smt2
    r, sx = z3_try(min(2.0, budget_s), tracked=True)
    if r == z3.unsat:
        return "unsat", "z3-5.1", time.time() - t0, None, smt2
    r, sx = z3_try(min(3.0, budget_s))
    if r == z3.unsat:
        return "unsat", "z3-5.1", time.time() - t0, None, smt2
    if r == z3.sat:
        return "sat", "z3-5.1", time.time() - t0, sx.model(), smt2
    # the tracked strategy once more with a real budget: obligations that sit on an infeasible path of a string
    # scanner need 2-4 s of it on an idle machine (more when all cores are busy) where the default pipeline needs 20-50 s
    r, sx = z3_try(min(12.0, budget_s), tracked=True)
    if r == z3.unsat:
        return "unsat", "z3-5.1", time.time() - t0, None, smt2
    if not _prefer_cvc5[0]:
        first = wait_cvc5(start_cvc5(), budget_s + 5)
        if first == "unsat":
            _prefer_cvc5[0] = True
            return "unsat", "cvc5-1.0.3", time.time() - t0, None, smt2
    r3, s3 = z3_try(budget_s)
    dt = time.time() - t0
    if r3 == z3.unsat:
        return "unsat", "z3-5.1", dt, None, smt2
    if r3 == z3.sat:
        return "sat", "z3-5.1", dt, s3.model(), smt2
    if first == "sat":
        # a cvc5 model is not mapped back: report refuted without a counterexample
        return "sat", "cvc5-1.0.3", dt, None, smt2
    return "unknown", "z3-5.1+cvc5-1.0.3", dt, None, smt2


def confirm_unsat(ob, budget_s, tmpdir, tag, abstracted=False):
    """Thorough tier: an unsat verdict must be confirmed by the other solver family (cvc5).  A verdict that came
    from the string-free abstraction is confirmed on that abstraction (an EUF+LIA problem)."""
    smt2 = os.path.join(tmpdir, f"{tag}.confirm.smt2")
    if abstracted:
        from . import euf

        s2 = euf.abstraction(list(bm.AXIOMS) + list(ob.pc) + [z3.Not(ob.goal)])
    else:
        s2 = z3.Solver()
        s2.add(*bm.AXIOMS)
        s2.add(*ob.pc)
        s2.add(z3.Not(ob.goal))
    with open(smt2, "w") as fh:
        fh.write("(set-logic ALL)\n" + s2.to_smt2())
    try:
        out = subprocess.run([CVC5, "--strings-exp", f"--tlimit={int(budget_s * 1000)}", smt2],
                             capture_output=True, text=True, timeout=budget_s + 5).stdout.strip()
    except subprocess.TimeoutExpired:
        out = "timeout"
    return (out.splitlines() or ["?"])[0]


def _plain(x):
    """Results cross a process boundary: keep only plain data (model values may still hold solver objects)."""
    if isinstance(x, dict):
        return {(k if isinstance(k, (str, int, float, bool)) or k is None else repr(k)): _plain(v) for k, v in x.items()}
    if isinstance(x, (list, tuple)):
        return [_plain(v) for v in x]
    if isinstance(x, (str, int, float, bool)) or x is None:
        return x
    return repr(x)


def worker(task):
    return _plain(_worker(task))


def _worker(task):
    key, tier, budget_s, mutation, extra_requires = task
    out = {"key": key, "obligations": [], "error": None, "paths": 0, "inlined": [], "assumed": [], "notes": [],
           "digest": None, "seconds": 0.0, "mutation": mutation}
    try:
        db = build_db()
        c = db.contracts[key]
        _prefer_cvc5[0] = False
        if mutation is not None:
            _apply_mutation(mutation)
        if extra_requires:
            c.requires = list(c.requires) + list(extra_requires)
        res = verify_function(db, c)
        dig = [res.digest or ""]
        for k in sorted(res.inlined):
            try:
                dig.append(source.source_digest(*k.replace("auto:", "").split(":")))
            except Exception:
                dig.append("?")
        import hashlib

        out.update(paths=res.paths, inlined=sorted(res.inlined), assumed=sorted(res.assumed), notes=sorted(res.notes),
                   digest=hashlib.sha256("|".join(dig).encode()).hexdigest()[:16], seconds=res.seconds)
        if res.error:
            out["error"] = list(res.error)
            return out
        tmpdir = tempfile.mkdtemp(prefix="pyvc-")
        # group identical names with an index
        seen = {}
        failures = 0
        t_solve = time.time()
        for ob in res.obligations:
            idx = seen.get(ob.name, 0)
            seen[ob.name] = idx + 1
            name = ob.name if idx == 0 else f"{ob.name}#{idx}"
            if failures >= 3 or (failures and time.time() - t_solve > 6 * budget_s):
                # the verdict for this function is settled: do not burn solver time on the rest
                out["obligations"].append({"name": name, "kind": ob.kind, "status": "skipped", "solver": "-", "time": 0.0,
                                           "clause": ob.info.get("clause", "") + (f" [raised at {ob.info['where'][0]} line {ob.info['where'][1]}]" if ob.info.get("where") else ""), "raised": ob.info.get("raised")})
                continue
            status, solver, dt, model, smt2 = solve_obligation(ob, budget_s, tmpdir, re.sub(r"\W+", "_", name))
            if status == "unknown" and mutation is None and failures == 0:
                # one more attempt with three times the budget before the function is declared undecided
                # (solver times vary with machine load; a verdict must not)
                status, solver, dt2, model, smt2 = solve_obligation(ob, 3 * budget_s, tmpdir, re.sub(r"\W+", "_", name) + "_retry")
                dt += dt2
            if status != "unsat":
                failures += 1
            rec = {"name": name, "kind": ob.kind, "status": status, "solver": solver, "time": round(dt, 3),
                   "clause": ob.info.get("clause", "") + (f" [raised at {ob.info['where'][0]} line {ob.info['where'][1]}]" if ob.info.get("where") else ""),
                   "raised": ob.info.get("raised")}
            if tier == "thorough" and status == "unsat" and solver.startswith("z3") and mutation is None:
                rec["confirm"] = confirm_unsat(ob, min(budget_s, 10.0), tmpdir, re.sub(r"\W+", "_", name), abstracted=solver.endswith("/euf"))
            if status == "sat":
                if model is not None:
                    try:
                        heap = res.heap0
                        rec["model"] = {k: value_from_model(model, heap, v) for k, v in res.param_values.items()}
                    except Exception as e:  # pragma: no cover
                        rec["model_error"] = repr(e)
                if smt2:
                    rec["smt2"] = open(smt2).read()[:200000]
            if status == "unknown" and smt2:
                rec["smt2_size"] = os.path.getsize(smt2)
            out["obligations"].append(rec)
        import shutil

        shutil.rmtree(tmpdir, ignore_errors=True)
    except Exception:
        out["error"] = ["crash", traceback.format_exc()]
    return out


def _apply_mutation(mutation):
    """In-memory AST mutation of a repo function (canary guard): (module, qualname, old, new) textual."""
    if mutation[0] == "ast":
        # a whole mutated function (tools/mutate.py): ("ast", module, qualname, source text)
        _, modname, qualname, src = mutation
        source.load_module(modname).defs[qualname] = ast.parse(src).body[0]
        return
    modname, qualname, old, new = mutation
    mod = source.load_module(modname)
    if qualname in mod.defs:
        node = mod.defs[qualname]
        src = ast.unparse(node)
        if old not in src:
            raise source.SourceError(f"canary: pattern {old!r} not found in {modname}:{qualname}")
        new_node = ast.parse(src.replace(old, new, 1)).body[0]
        mod.defs[qualname] = new_node
    elif qualname in mod.assigns:
        src = ast.unparse(mod.assigns[qualname])
        if old not in src:
            raise source.SourceError(f"canary: pattern {old!r} not found in {modname}:{qualname}")
        mod.assigns[qualname] = ast.parse(src.replace(old, new, 1), mode="eval").body
    else:
        raise source.SourceError(f"canary target {modname}:{qualname} missing")


# ---------------------------------------------------------------------------
# replay scripts
# ---------------------------------------------------------------------------
REPLAY_TEMPLATE = '''#!/venv/bin/python
"""Replay of a refuted proof obligation against the real code.

property   : {prop}
obligation : {name}
function   : {key}
clause     : {clause!r}
exit 1 = the real function violates the clause on this input (REPRODUCED), 0 = it does not.
"""
import copy, importlib, os, sys
REPO = os.environ.get("VERIF_REPO", "/repo")
sys.path[:0] = [REPO, {contracts_dir!r}, {shims_dir!r}]
from specs import *  # noqa
import replay_support as rs

ARGS = {args!r}
KIND = {kind!r}
CLAUSE = {clause!r}
RAISES = {raises!r}
ENSURES = {ensures!r}
sys.exit(rs.run({key!r}, ARGS, KIND, CLAUSE, RAISES, ENSURES, RAISED={raised!r}, CUSTOM={custom!r}))
'''

SEARCH_TEMPLATE = '''#!/venv/bin/python
"""Replay of a failed proof obligation of a contract stated with ghost parameters: witness search.

property   : {prop}
obligation : {name}
function   : {key}
clause     : {clause!r}
solver     : {solver}
The ghost parameters are sampled (the solver's values first, when it gave any), the arguments are derived from
the defining pre-conditions, every pre-condition is checked natively, the real function is called and the
contract evaluated.  exit 1 = a sample violates the contract (REPRODUCED), 0 = none of the samples does.
"""
import os, sys
REPO = os.environ.get("VERIF_REPO", "/repo")
sys.path[:0] = [REPO, {contracts_dir!r}, {shims_dir!r}]
import replay_support as rs

sys.exit(rs.search({key!r}, {requires!r}, {ghost!r}, {params!r}, {raises!r}, {ensures!r}, first={first!r}))
'''

NOINPUT_TEMPLATE = '''#!/venv/bin/python
"""Refuted / no longer dischargeable proof obligation without a concrete failing input.

property   : {prop}
obligation : {name}
function   : {key}
clause     : {clause!r}
solver     : {solver}
The obligation was discharged on the unchanged tree and is not on this tree.  Solver output /
query follow (no-failing-input-found).
"""
import sys
DETAIL = {detail!r}
print(__doc__)
print(DETAIL[:4000])
sys.exit(1)
'''


def write_replay(prop, key, contract: Contract, rec):
    d = OUT / "replays" / prop
    d.mkdir(parents=True, exist_ok=True)
    variant = ("@" + key.split("#", 1)[1]) if "#" in key else ""
    fn = d / (re.sub(r"[^\w.\-\[\]#@]+", "_", rec["name"] + variant) + ".py")
    def abstract(v):
        if isinstance(v, dict):
            return "__obj__" in v or "__opaque__" in v or any(abstract(x) for x in v.values())
        if isinstance(v, (list, tuple)):
            return any(abstract(x) for x in v)
        return False

    simple_ghosts = contract.ghost and all(isinstance(v, str) and v in ("int", "str", "bool") for v in contract.ghost.values())
    SIMPLE = ("str", "int", "bool", "str|None", "dict[str|None,str]", "dict[str,str]")
    simple_params = bool(contract.params) and all(k == "cls" or (isinstance(v, str) and v.strip() in SIMPLE) or not isinstance(v, str) and not callable(v)
                                                  for k, v in contract.params.items())
    no_model = "model" not in rec or abstract(rec["model"])
    if (simple_ghosts or (not contract.ghost and simple_params and no_model)) and not contract.replay:
        params = {k: (v if not callable(v) else "object") for k, v in contract.params.items()}
        txt = SEARCH_TEMPLATE.format(
            prop=prop, name=rec["name"], key=key, clause=rec.get("clause", ""), solver=rec.get("solver"),
            requires=list(contract.requires), ghost=dict(contract.ghost), params=params,
            raises={k: (v if v is True else str(v)) for k, v in contract.raises.items()},
            ensures=[list(e) for e in contract.ensures if isinstance(e[1], str)],
            first={k: v for k, v in (rec.get("model") or {}).items() if not abstract(v)},
            contracts_dir=str(VERIF / "contracts"), shims_dir=str(VERIF / "shims"))
        fn.write_text(txt)
        return fn, True
    if "model" in rec and (contract.replay or not abstract(rec["model"])):
        txt = REPLAY_TEMPLATE.format(
            prop=prop, name=rec["name"], key=key, clause=rec.get("clause", ""), args=rec["model"], kind=rec["kind"],
            raises={k: (v if v is True else str(v)) for k, v in contract.raises.items()},
            ensures=[list(e) for e in contract.ensures if isinstance(e[1], str)], raised=rec.get("raised"),
            contracts_dir=str(VERIF / "contracts"), shims_dir=str(VERIF / "shims"),
            custom=contract.replay)
        fn.write_text(txt)
        return fn, True
    detail = rec.get("smt2") or json.dumps(rec, indent=1, default=str)
    fn.write_text(NOINPUT_TEMPLATE.format(prop=prop, name=rec["name"], key=key, clause=rec.get("clause", ""),
                                          solver=rec.get("solver"), detail=detail))
    return fn, False


def run_replay(path) -> tuple[int, str]:
    try:
        p = subprocess.run(["/venv/bin/python", str(path)], capture_output=True, text=True, timeout=120,
                           env={**os.environ, "PYTHONPATH": ""})
        return p.returncode, (p.stdout + p.stderr)[-2000:]
    except subprocess.TimeoutExpired:
        return 124, "replay timed out"


# ---------------------------------------------------------------------------
# main
# ---------------------------------------------------------------------------
def closure(db, roots):
    """Contracts serving the property plus every (non-trusted) contract they assume at call sites."""
    return list(roots)


def load_known():
    p = VERIF / "known_findings.json"
    if not p.exists():
        return {"findings": [], "fixed": []}
    return json.loads(p.read_text())


def main(argv=None):
    argv = argv or sys.argv[1:]
    if len(argv) < 2:
        print("usage: check <PROPERTY> quick|thorough")
        return 3
    prop, tier = argv[0], argv[1]
    seed = int(os.environ.get("VERIF_SEED", "0"))
    t_start = time.time()
    budget = 20.0 if tier == "quick" else 120.0
    try:
        db = build_db()
        pkg = importlib.import_module("contracts")
        meta = pkg.PROPERTIES.get(prop)
        if meta is None:
            print(f"property {prop} has no contracts (not claimed)")
            return 3
        known = load_known()
        regions = {}
        for f in known["findings"]:
            if f["property"] == prop and f.get("region"):
                regions.setdefault(f["function"], []).append(f"not ({f['region']})")
        roots = [k for k, c in db.contracts.items() if prop in c.properties and not c.trusted and not c.inline]
        # closure over assumed callees: verified in this run as well (they carry the property)
        todo, seen, results = list(roots), set(), {}
        nproc = min(16, os.cpu_count() or 4)
        with mp.Pool(nproc, maxtasksperchild=1) as pool:
            while todo:
                batch = [k for k in dict.fromkeys(todo) if k not in seen]
                seen.update(batch)
                todo = []
                for out in pool.imap_unordered(worker, [(k, tier, budget, None, regions.get(k)) for k in batch]):
                    results[out["key"]] = out
                    for callee in out["assumed"]:
                        cc = db.get(callee)
                        if cc is not None and not cc.trusted and callee not in seen:
                            todo.append(callee)
            # guards: canary mutants must be refuted
            canaries = meta.get("canaries", [])
            canary_results = []
            tasks = [(cn["function"], "quick", min(budget, 6.0), (cn["module"], cn["target"], cn["old"], cn["new"]), None) for cn in canaries]
            for cn, out in zip(canaries, pool.map(worker, tasks)):
                refuted = [o["name"] for o in out["obligations"] if o["status"] == "sat"]
                not_proved = [o["name"] for o in out["obligations"] if o["status"] != "unsat"]
                canary_results.append({"canary": cn["name"], "refuted_obligations": refuted, "not_discharged": not_proved,
                                       "error": out["error"]})
    except Exception:
        traceback.print_exc()
        return 3

    # builtin-model facts sampled against CPython (tested, not proved)
    try:
        cc = subprocess.run(["/venv/bin/python", str(VERIF / "tools" / "crosscheck.py"), "300" if tier == "quick" else "3000"],
                            capture_output=True, text=True, timeout=300, env={**os.environ, "VERIF_SEED": str(seed)})
        crosscheck = json.loads(cc.stdout.strip().splitlines()[-1]) if cc.stdout.strip() else {"error": cc.stderr[-500:]}
    except Exception as e:  # pragma: no cover
        crosscheck = {"error": repr(e)}
    # ------------------------------------------------------------------ verdict
    total = discharged = 0
    refuted, undecided, crashes = [], [], []
    by_solver = {}
    samples = []
    solver_time = 0.0
    functions = []
    contract_assumptions = set()
    confirmations = {}
    lemma_schemas = set()
    assumed_trusted = set()
    inlined = set()
    notes = set()
    disagreements = []
    for key, out in sorted(results.items()):
        functions.append({"function": key, "paths": out["paths"], "obligations": len(out["obligations"]),
                          "source_digest": out["digest"], "seconds": round(out["seconds"], 2)})
        inlined.update(out["inlined"])
        notes.update(out["notes"])
        cdef = db.contracts.get(key)
        if cdef is not None:
            import ast as _ast

            for a in cdef.assumes:
                contract_assumptions.add(f"assumed in {key}: {a}")
            for h in cdef.hints:
                lemma_schemas.add(_ast.parse(h, mode="eval").body.func.id)
        for callee in out["assumed"]:
            cc = db.get(callee)
            if cc is not None and cc.trusted:
                assumed_trusted.add(callee)
        if out["error"]:
            (crashes if out["error"][0] == "crash" else undecided).append({"function": key, "reason": out["error"]})
            continue
        for o in out["obligations"]:
            total += 1
            solver_time += o["time"]
            by_solver[o["solver"]] = by_solver.get(o["solver"], 0) + 1
            if o["status"] == "unsat":
                if o.get("confirm") == "sat":
                    disagreements.append({"function": key, **o})
                if "confirm" in o:
                    k2 = "confirmed_unsat_by_cvc5" if o["confirm"] == "unsat" else "cvc5_gave_no_answer"
                    confirmations[k2] = confirmations.get(k2, 0) + 1
                discharged += 1
                if len(samples) < 12 and o["kind"] not in ("vacuity",):
                    samples.append({"function": key, "obligation": o["name"], "kind": o["kind"], "clause": o["clause"][:160],
                                    "solver": o["solver"], "time_s": o["time"]})
            elif o["status"] == "sat":
                refuted.append((key, o))
            elif o["status"] == "skipped":
                total -= 1
            else:
                undecided.append({"function": key, "obligation": o["name"], "reason": "solver: unknown/timeout", "clause": o["clause"][:160]})

    # baseline: obligations discharged on the unchanged tree (committed).  An obligation that was
    # discharged there, belongs to a function whose source changed, and is not dischargeable now is
    # reported as a violation without a failing input.
    bpath = VERIF / "baseline" / f"{prop}.json"
    baseline = json.loads(bpath.read_text()) if bpath.exists() else {}
    if "--record-baseline" in argv:
        rec = {}
        for key, out in sorted(results.items()):
            byname = {}
            for o in out["obligations"]:
                b = o["name"].split("#")[0]
                ok, tmax = byname.get(b, (True, 0.0))
                byname[b] = (ok and o["status"] == "unsat", max(tmax, o["time"]))
            rec[key] = {"digest": out["digest"], "discharged": {b: t for b, (ok, t) in byname.items() if ok}}
        bpath.parent.mkdir(exist_ok=True)
        bpath.write_text(json.dumps(rec, indent=1, sort_keys=True))
    still_undecided = []
    for u in undecided:
        b = baseline.get(u["function"])
        out = results.get(u["function"], {})
        base = u.get("obligation", "").split("#")[0]
        if (b and "obligation" in u and base in b["discharged"] and b["digest"] != out.get("digest")
                and b["discharged"][base] < 0.25 * budget):
            o = next(x for x in out["obligations"] if x["name"] == u["obligation"])
            o["status"] = "no-longer-dischargeable"
            refuted.append((u["function"], o))
        else:
            still_undecided.append(u)
    undecided = still_undecided
    min_obl = meta.get("min_obligations", 1)
    guard_fail = []
    if crosscheck.get("failed") or crosscheck.get("error"):
        guard_fail.append(f"builtin model cross-check against CPython failed: {crosscheck}")
    if total < min_obl and not undecided and not refuted:
        guard_fail.append(f"obligation count {total} < recorded minimum {min_obl}")
    for cr in ([] if (undecided or refuted) else canary_results):
        if cr["error"] and not cr["not_discharged"]:
            guard_fail.append(f"canary {cr['canary']} undecided: {cr['error']}")
        elif not cr["not_discharged"]:
            guard_fail.append(f"canary {cr['canary']} was VERIFIED (the checker accepts a broken function)")

    # known findings: replay witnesses
    lines = []
    known_printed = []
    for f in known["findings"]:
        if f["property"] != prop:
            continue
        wit = VERIF / f["witness"]
        rc, outp = run_replay(wit)
        if rc == 1:
            lines.append(f"KNOWN-FINDING: property={prop} {f['what']}")
            known_printed.append(f["id"])
    violations = []
    reported = set()
    for key, o in refuted:
        path, has_input = write_replay(prop, key, db.contracts[key], o)
        reproduced = False
        if has_input:
            rc, outp = run_replay(path)
            reproduced = rc == 1 and "REPRODUCED" in outp and "NOT-REPRODUCED" not in outp
            o["replay_rc"] = rc
            o["replay_out"] = outp[-600:]
        suffix = "" if reproduced else " no-failing-input-found"
        violations.append({"function": key, "obligation": o["name"], "clause": o["clause"], "replay": str(path),
                           "reproduced": reproduced, "model": o.get("model"), "replay_out": o.get("replay_out")})
        base = (key, o["name"].split("#")[0])
        if base not in reported:
            reported.add(base)
            lines.append(f"VIOLATION property={prop} replay={path}{suffix}")

    # bounded stand-ins: exhaustive native checks over a stated finite family, for clauses no contract within
    # reach decides.  Reported separately, never counted as proved; a failing case is a violation with its input.
    bounded_results = []
    for b in meta.get("bounded", []):
        script = VERIF / b["script"]
        try:
            pr = subprocess.run(["/venv/bin/python", str(script)], capture_output=True, text=True, timeout=600,
                                env={**os.environ, "VERIF_REPO": str(source.REPO)})
            summary = json.loads(pr.stdout.strip().splitlines()[-1])
        except Exception as e:  # noqa
            bounded_results.append({"name": b["name"], "bound": b["bound"], "error": repr(e)})
            guard_fail.append(f"bounded stand-in {b['name']} could not be run: {e!r}")
            continue
        bounded_results.append({"name": b["name"], "level": "bounded (not a proof)", "bound": b["bound"], "script": b["script"],
                                "cases": summary.get("cases"), "failed": summary.get("failed"), "first_failures": summary.get("failures", [])[:5]})
        for fcase in summary.get("failures", [])[:3]:
            d = OUT / "replays" / prop
            d.mkdir(parents=True, exist_ok=True)
            path = d / (re.sub(r"\W+", "_", "bounded_" + b["name"] + "_" + fcase["text"].encode("unicode_escape").decode())[:120] + ".py")
            path.write_text(f'#!/venv/bin/python\n"""Failing case of the bounded stand-in {b["name"]!r} (property {prop}): {fcase["why"]}"""\n'
                            f"import os, subprocess, sys\n"
                            f"sys.exit(subprocess.call(['/venv/bin/python', {str(script)!r}, '--case', {fcase['text'].encode('unicode_escape').decode()!r}], env=os.environ))\n")
            rc, outp = run_replay(path)
            ok = rc == 1 and "REPRODUCED" in outp and "NOT-REPRODUCED" not in outp
            violations.append({"function": b["script"], "obligation": "bounded:" + b["name"], "clause": fcase["why"], "replay": str(path),
                               "reproduced": ok, "model": fcase["text"], "replay_out": outp[-300:]})
            if ("bounded", b["name"]) not in reported:
                reported.add(("bounded", b["name"]))
                lines.append(f"VIOLATION property={prop} replay={path}" + ("" if ok else " no-failing-input-found"))

    # engine-vs-CPython differential: contracts that verified are also *executed* on samples of their pre-condition
    # (the witness search of the replays, run on the unchanged function).  A sample that violates a verified
    # contract means the engine or a builtin model is wrong: the check is then inconsistent (exit 3), not green.
    sampling = {"contracts": 0, "samples_satisfying_pre": 0, "violations": []}
    if not violations and not undecided:
        eligible = []
        for key in sorted(results):
            c = db.contracts[key]
            gh = c.ghost and all(isinstance(v, str) and v in ("int", "str", "bool") for v in c.ghost.values())
            ok_params = all(k in ("self", "cls") or not callable(v) for k, v in c.params.items()) and \
                all(not isinstance(v, str) or v.strip() in ("str", "int", "bool", "str|None", "dict[str|None,str]", "dict[str,str]")
                    or k in ("self", "cls") or v.startswith("opaque:type") for k, v in c.params.items())
            if gh and ok_params and not c.replay and not c.trusted:
                eligible.append(key)
        rnd = __import__("random").Random(seed)
        if tier == "quick" and len(eligible) > 24:
            eligible = rnd.sample(eligible, 24)
        tries = 60 if tier == "quick" else 400
        sdir = Path(tempfile.mkdtemp(prefix="pyvc-sample-"))

        def one(key):
            c = db.contracts[key]
            params = {k: (v if not callable(v) else "object") for k, v in c.params.items()}
            script = sdir / (re.sub(r"\W+", "_", key) + ".py")
            script.write_text(
                "import os, sys\n"
                f"sys.path[:0] = [os.environ.get('VERIF_REPO', '/repo'), {str(VERIF / 'contracts')!r}]\n"
                "import replay_support as rs\n"
                f"sys.exit(rs.search({key!r}, {list(c.requires)!r}, {dict(c.ghost)!r}, {params!r}, "
                f"{ {k: (v if v is True else str(v)) for k, v in c.raises.items()}!r}, "
                f"{[list(e) for e in c.ensures if isinstance(e[1], str)]!r}, tries={tries}, seed={seed}))\n")
            rc, outp = run_replay(script)
            return key, rc, outp

        from concurrent.futures import ThreadPoolExecutor

        with ThreadPoolExecutor(max_workers=16) as tp:
            for key, rc, outp in tp.map(one, eligible):
                sampling["contracts"] += 1
                m = re.search(r"(\d+) samples satisfied", outp)
                if m:
                    sampling["samples_satisfying_pre"] += int(m.group(1))
                if rc == 1 and "REPRODUCED" in outp:
                    sampling["violations"].append({"contract": key, "output": outp[-500:]})
        import shutil as _sh

        _sh.rmtree(sdir, ignore_errors=True)
        for v in sampling["violations"]:
            guard_fail.append(f"a sample of the pre-condition violates the VERIFIED contract {v['contract']} (engine or builtin model wrong): {v['output'][-200:]}")

    wall = time.time() - t_start
    evidence = {
        "property_id": prop, "tier": tier, "seed": seed, "level": "proof",
        "coverage": {
            "obligations": total, "discharged": discharged,
            "checker_cmd": f"./check {prop} {tier}",
            "trusted_base": sorted(set(meta.get("trusted_base", [])) | {
                "pyvc symbolic executor and SMT encodings (/verif/pyvc)", "builtin models in pyvc/builtins_model.py + builtins_calls.py",
                "z3 5.1.0 (python API)", "cvc5 1.0.3 (/usr/bin/cvc5)",
                "python ints as mathematical integers (exact)"} | {f"assumed contract (trusted, body not verified): {k}" for k in assumed_trusted}),
            "functions_under_contract": functions,
            "inlined_helpers": sorted(inlined),
            "by_backend": by_solver,
            "solver_time_s": round(solver_time, 2),
            "samples": samples,
            "undecided": undecided[:40],
            "refuted": violations[:40],
            "canaries": canary_results,
            "clauses_decided": meta.get("decided", []),
            "clauses_not_decided": meta.get("not_decided", []),
            "bounded_standins": bounded_results,
            "memoised_functions": (getattr(build_db(), "memo_inventory", []) if prop == "C14" else []),
            "extraction_drops": ["type annotations", "docstrings", "__slots__", "comments",
                                 "functools.lru_cache treated as transparent (C14: the adequacy of each memoised function's cache key is a separate generated obligation, pyvc/memo.py)", "logger calls"],
            "known_findings_printed": known_printed,
            "solver_disagreements": disagreements,
            "second_solver_confirmation": confirmations,
            "engine_notes": sorted(notes),
            "builtin_model_crosscheck": crosscheck,
            "native_sampling_of_verified_contracts": sampling,
        },
        "assumptions": sorted(set(meta.get("assumptions", [])) | contract_assumptions
                              | {f"lemma schema about CPython builtins instantiated as a hint (trusted; sampled against CPython by tools/crosscheck.py): {n}"
                                 for n in lemma_schemas}),
        "wall_s": round(wall, 2),
        "violations": len(violations),
    }
    (OUT / "evidence").mkdir(parents=True, exist_ok=True)
    (OUT / "evidence" / f"{prop}.json").write_text(json.dumps(evidence, indent=1, default=str))
    for ln in lines:
        print(ln)
    print(f"[{prop} {tier}] functions={len(functions)} obligations={total} discharged={discharged} refuted={len(refuted)} "
          f"undecided={len(undecided)} crashes={len(crashes)} wall={wall:.1f}s")
    for u in undecided[:20]:
        print("  undecided:", json.dumps(u)[:300])
    for c in crashes:
        print("  crash:", c["function"], c["reason"][1][-800:])
    for g in guard_fail:
        print("  guard:", g)
    if violations:
        return 1
    if crashes or disagreements:
        return 3
    if guard_fail:
        return 3
    if undecided:
        return 2
    return 0


if __name__ == "__main__":
    sys.exit(main())
