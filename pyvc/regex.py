"""Mechanical translation of Python ``re`` patterns (sre_parse tree) into z3 regular expressions.

Supported: literals, ``.``, character classes and ranges, ``\\d \\s \\w`` (ASCII approximations are
stated where used), groups (capturing or not), alternation, ``? * + {m,n}``, anchors ``^ $`` at the
ends.  Anything else raises ValueError (=> undecided).
"""
import re

try:  # python >= 3.11
    import re._parser as sre_parse
    import re._constants as sre_c
except ImportError:  # pragma: no cover
    import sre_parse
    import sre_constants as sre_c

import z3

MAXCODE = 0x2FFFF


def _any_char():
    return z3.Range(chr(0), chr(MAXCODE))


def _class(items, unicode_digits=False):
    parts = []
    negate = False
    for op, av in items:
        if op is sre_c.NEGATE:
            negate = True
        elif op is sre_c.LITERAL:
            parts.append(z3.Re(chr(av)))
        elif op is sre_c.RANGE:
            parts.append(z3.Range(chr(av[0]), chr(av[1])))
        elif op is sre_c.CATEGORY:
            parts.append(_category(av))
        else:
            raise ValueError(f"regex class item {op}")
    r = z3.Union(*parts) if len(parts) > 1 else parts[0]
    if negate:
        r = z3.Intersect(_any_char(), z3.Complement(r))
    return r


def _category(av):
    if av is sre_c.CATEGORY_DIGIT:
        return z3.Range("0", "9")  # ASCII digits only: str patterns also match Unicode Nd (stated in evidence)
    if av is sre_c.CATEGORY_SPACE:
        return z3.Union(z3.Re(" "), z3.Range("\t", "\r"))
    if av is sre_c.CATEGORY_WORD:
        return z3.Union(z3.Range("a", "z"), z3.Range("A", "Z"), z3.Range("0", "9"), z3.Re("_"))
    raise ValueError(f"regex category {av}")


def _seq(items):
    parts = []
    n = len(items)
    for i, (op, av) in enumerate(items):
        if op is sre_c.AT:
            if av in (sre_c.AT_BEGINNING, sre_c.AT_BEGINNING_STRING) and i == 0:
                continue
            if av in (sre_c.AT_END, sre_c.AT_END_STRING) and i == n - 1:
                continue
            raise ValueError("anchor in the middle of a pattern")
        parts.append(_node(op, av))
    if not parts:
        return z3.Re("")
    return z3.Concat(*parts) if len(parts) > 1 else parts[0]


def _node(op, av):
    if op is sre_c.LITERAL:
        return z3.Re(chr(av))
    if op is sre_c.NOT_LITERAL:
        return z3.Intersect(_any_char(), z3.Complement(z3.Re(chr(av))))
    if op is sre_c.ANY:
        # '.' without DOTALL: any char but newline
        return z3.Intersect(_any_char(), z3.Complement(z3.Re("\n")))
    if op is sre_c.IN:
        return _class(av)
    if op is sre_c.SUBPATTERN:
        return _seq(list(av[3]))
    if op is sre_c.BRANCH:
        return z3.Union(*[_seq(list(b)) for b in av[1]])
    if op in (sre_c.MAX_REPEAT, sre_c.MIN_REPEAT):
        lo, hi, sub = av
        r = _seq(list(sub))
        if hi is sre_c.MAXREPEAT:
            if lo == 0:
                return z3.Star(r)
            if lo == 1:
                return z3.Plus(r)
            return z3.Concat(*([r] * lo + [z3.Star(r)]))
        if lo == 0 and hi == 1:
            return z3.Option(r)
        return z3.Loop(r, lo, hi)
    if op is sre_c.CATEGORY:
        return _category(av)
    raise ValueError(f"regex node {op}")


def to_z3(pattern: str, flags: int = 0):
    if flags & ~re.UNICODE:
        raise ValueError("regex flags")
    tree = sre_parse.parse(pattern, flags)
    return _seq(list(tree))


def group_patterns(pattern: str, flags: int = 0):
    """[(z3 regex of the sub-pattern of capturing group i, always_participates)] for i = 1..n.
    A group participates in every match iff it is not below an optional / repeated / alternative construct."""
    tree = sre_parse.parse(pattern, flags)
    out = {}

    def walk(items, optional):
        for op, av in items:
            if op is sre_c.SUBPATTERN:
                gid, _, _, sub = av
                if gid is not None:
                    out[gid] = (_seq(list(sub)), not optional)
                walk(sub, optional)
            elif op in (sre_c.MAX_REPEAT, sre_c.MIN_REPEAT):
                lo, hi, sub = av
                walk(sub, optional or lo == 0)
            elif op is sre_c.BRANCH:
                for b in av[1]:
                    walk(b, True)

    walk(tree, False)
    return [out[i] for i in sorted(out)]


def _has_group(items):
    for op, av in items:
        if op is sre_c.SUBPATTERN:
            if av[0] is not None or _has_group(av[3]):
                return True
        elif op in (sre_c.MAX_REPEAT, sre_c.MIN_REPEAT):
            if _has_group(av[2]):
                return True
        elif op is sre_c.BRANCH:
            if any(_has_group(b) for b in av[1]):
                return True
    return False


def decompose(pattern: str, subject, fresh, flags: int = 0):
    """A successful match of an anchored pattern cuts the subject into one piece per pattern item; a capturing
    group holds its piece.  Returns (constraints, {group id: (presence condition, piece term)}) describing *a*
    parse of the subject - the one re found is one (sound for every consequence drawn from it).  Supported:
    groups below concatenation and below ``?`` only; anything else raises ValueError (caller falls back)."""
    tree = list(sre_parse.parse(pattern, flags))
    cons, groups = [], {}

    def seq(items, S, cond, top=False):
        pieces = []
        n = len(items)
        for i, (op, av) in enumerate(items):
            if op is sre_c.AT:
                continue
            if op is sre_c.LITERAL:
                pieces.append(z3.StringVal(chr(av)))
            elif op is sre_c.SUBPATTERN and (av[0] is not None or _has_group(av[3])):
                P = fresh("grp")
                seq(list(av[3]), P, cond)
                if av[0] is not None:
                    groups[av[0]] = (z3.And(cond) if cond else z3.BoolVal(True), P)
                pieces.append(P)
            elif op in (sre_c.MAX_REPEAT, sre_c.MIN_REPEAT) and _has_group(av[2]):
                lo, hi, sub = av
                if (lo, hi) != (0, 1):
                    raise ValueError("capturing group below a repetition")
                b = fresh("opt", bool_=True)
                P = fresh("optpiece")
                seq(list(sub), P, cond + [b])
                cons.append(z3.Implies(z3.And(cond + [z3.Not(b)]) if cond else z3.Not(b), P == z3.StringVal("")))
                pieces.append(P)
            elif op is sre_c.BRANCH and any(_has_group(b) for b in av[1]):
                raise ValueError("capturing group below an alternation")
            else:
                P = fresh("piece")
                cons.append(z3.Implies(z3.And(cond), z3.InRe(P, _node(op, av))) if cond else z3.InRe(P, _node(op, av)))
                pieces.append(P)
        whole = z3.Concat(*pieces) if len(pieces) > 1 else (pieces[0] if pieces else z3.StringVal(""))
        eq = S == whole
        if top and n and items[-1][0] is sre_c.AT and items[-1][1] is sre_c.AT_END:
            eq = z3.Or(eq, S == z3.Concat(whole, z3.StringVal("\n")))  # '$' also matches before a final newline
        cons.append(z3.Implies(z3.And(cond), eq) if cond else eq)

    seq(tree, subject, [], top=True)
    return cons, groups


def anchored(pattern: str):
    """(starts with ^, ends with $) of a pattern."""
    tree = list(sre_parse.parse(pattern))
    s = bool(tree) and tree[0][0] is sre_c.AT and tree[0][1] in (sre_c.AT_BEGINNING, sre_c.AT_BEGINNING_STRING)
    e = bool(tree) and tree[-1][0] is sre_c.AT and tree[-1][1] in (sre_c.AT_END, sre_c.AT_END_STRING)
    return s, e


# ---------------------------------------------------------------------------
# first / last character sets (decided on the parse tree; used for side conditions of lemmas)
# ---------------------------------------------------------------------------
ANY = [(0, MAXCODE)]


def _cls_ranges(items):
    out, negate = [], False
    for op, av in items:
        if op is sre_c.NEGATE:
            negate = True
        elif op is sre_c.LITERAL:
            out.append((av, av))
        elif op is sre_c.RANGE:
            out.append((av[0], av[1]))
        elif op is sre_c.CATEGORY:
            if av is sre_c.CATEGORY_DIGIT:
                out.append((48, 57))
            else:
                return ANY
        else:
            return ANY
    return ANY if negate else out


def _fl(items, first=True):
    """(ranges, nullable) of the first (or last) character of a sequence of nodes."""
    seq = list(items)
    if not first:
        seq = seq[::-1]
    ranges = []
    for op, av in seq:
        if op is sre_c.AT:
            continue
        r, nullable = _fl_node(op, av, first)
        ranges += r
        if not nullable:
            return ranges, False
    return ranges, True


def _fl_node(op, av, first):
    if op is sre_c.LITERAL:
        return [(av, av)], False
    if op in (sre_c.NOT_LITERAL, sre_c.ANY):
        return ANY, False
    if op is sre_c.IN:
        return _cls_ranges(av), False
    if op is sre_c.SUBPATTERN:
        return _fl(av[3], first)
    if op is sre_c.BRANCH:
        rs, nl = [], False
        for b in av[1]:
            r, n = _fl(b, first)
            rs += r
            nl = nl or n
        return rs, nl
    if op in (sre_c.MAX_REPEAT, sre_c.MIN_REPEAT):
        lo, hi, sub = av
        r, n = _fl(sub, first)
        return r, n or lo == 0
    if op is sre_c.CATEGORY:
        return ([(48, 57)] if av is sre_c.CATEGORY_DIGIT else ANY), False
    return ANY, True


def ends_exclude(pattern: str, excluded_ranges) -> bool:
    """True iff every string of L(pattern) is non-empty and neither starts nor ends with a character
    of ``excluded_ranges``."""
    tree = sre_parse.parse(pattern)
    for first in (True, False):
        ranges, nullable = _fl(list(tree), first)
        if nullable:
            return False
        for lo, hi in ranges:
            for xlo, xhi in excluded_ranges:
                if lo <= xhi and xlo <= hi:
                    return False
    return True


def alphabet_excludes(pattern: str, ch: str) -> bool:
    """True iff no string of L(pattern) can contain the character ``ch`` (decided syntactically)."""
    code = ord(ch)

    def ok(items):
        for op, av in items:
            if op is sre_c.LITERAL:
                if av == code:
                    return False
            elif op is sre_c.IN:
                r = _cls_ranges(av)
                if any(lo <= code <= hi for lo, hi in r):
                    return False
            elif op is sre_c.SUBPATTERN:
                if not ok(av[3]):
                    return False
            elif op is sre_c.BRANCH:
                if not all(ok(b) for b in av[1]):
                    return False
            elif op in (sre_c.MAX_REPEAT, sre_c.MIN_REPEAT):
                if not ok(av[2]):
                    return False
            elif op is sre_c.AT:
                continue
            elif op is sre_c.CATEGORY:
                if av is sre_c.CATEGORY_DIGIT and 48 <= code <= 57:
                    return False
                if av is not sre_c.CATEGORY_DIGIT:
                    return False
            else:
                return False
        return True

    return ok(list(sre_parse.parse(pattern)))


def only_chars(pattern: str, pred) -> bool:
    """True iff every character any string of L(pattern) can contain satisfies ``pred`` (syntactic)."""

    def ok(items):
        for op, av in items:
            if op is sre_c.LITERAL:
                if not pred(chr(av)):
                    return False
            elif op is sre_c.IN:
                for lo, hi in _cls_ranges(av):
                    if hi - lo > 64 or any(not pred(chr(c)) for c in range(lo, hi + 1)):
                        return False
            elif op is sre_c.SUBPATTERN:
                if not ok(av[3]):
                    return False
            elif op is sre_c.BRANCH:
                if not all(ok(b) for b in av[1]):
                    return False
            elif op in (sre_c.MAX_REPEAT, sre_c.MIN_REPEAT):
                if not ok(av[2]):
                    return False
            elif op is sre_c.AT:
                continue
            else:
                return False
        return True

    return ok(list(sre_parse.parse(pattern)))
