"""Trusted models of Python builtins, operators and stdlib calls (DESIGN.md §2.2).

Every model here is part of the trusted base; ``pyvc.crosscheck`` samples each of them
against CPython on every run.
"""
from __future__ import annotations

import ast

import z3

from .source import SourceError, get_def, is_exc_subclass, load_module
from .values import (
    SV,
    BuiltinRef,
    ClassRef,
    Closure,
    Exc,
    ExcVal,
    EnumMember,
    FuncRef,
    ModuleRef,
    Obj,
    Opaque,
    PDict,
    PList,
    PSet,
    Ref,
    SDict,
    SSet,
    TypeRef,
    fresh,
    fresh_name,
    is_sym,
    lift,
    natural_sort,
    parse_sort,
    z3sort,
)

# python's str.isspace() characters (exact set)
PY_WS = [(0x09, 0x0D), (0x1C, 0x20), (0x85, 0x85), (0xA0, 0xA0), (0x1680, 0x1680), (0x2000, 0x200A),
         (0x2028, 0x2029), (0x202F, 0x202F), (0x205F, 0x205F), (0x3000, 0x3000)]


def _re_ranges(ranges):
    parts = []
    for lo, hi in ranges:
        parts.append(z3.Range(chr(lo), chr(hi)) if lo != hi else z3.Re(chr(lo)))
    return z3.Union(*parts) if len(parts) > 1 else parts[0]


RE_WS = _re_ranges(PY_WS)
# whitespace int() skips: C isspace() on ASCII (no U+001C..U+001F) + every non-ASCII str.isspace() character
INT_WS = [(0x09, 0x0D), (0x20, 0x20)] + [r for r in PY_WS if r[0] > 0x7F]
RE_WS_INT = _re_ranges(INT_WS)
RE_DIGIT = z3.Range("0", "9")


class Unsupported(Exception):
    pass


def _U():
    from .engine import Unsupported as U

    return U


class GenThunk:
    """A generator expression passed as an argument (evaluated by the consumer)."""

    def __init__(self, node, frame):
        self.node = node
        self.frame = frame


class EagerGen:
    """Result of an eagerly executed generator function: the yielded values."""

    def __init__(self, items):
        self.items = tuple(items)


class Kwargs:
    """``**kwargs`` of a function under contract: known keys + optionally unknown rest."""

    def __init__(self, known=None, open_=False):
        self.known = dict(known or {})
        self.open = open_
        if "**" in self.known:
            inner = self.known.pop("**")
            self.known = {**inner.known, **self.known}
            self.open = self.open or inner.open


class DictViewBase:
    """items()/keys()/values() view of a symbolic dict (d is a Ref)."""

    def __init__(self, d, kind):
        self.d = d
        self.kind = kind


class SSeq:
    """Symbolic-length immutable sequence: n + Array Int -> S."""

    def __init__(self, sort, n=None, arr=None, base="seq"):
        self.sort = parse_sort(sort)
        nm = fresh_name(base)
        self.n = n if n is not None else z3.Int(nm + ".n")
        self.arr = arr if arr is not None else z3.Array(nm + ".a", z3.IntSort(), z3sort(self.sort))

    def at(self, i):
        return SV(self.sort, self.arr[i])

    def clone(self):
        return self  # immutable: may stand in a heap cell (a list that was filled from a symbolic sequence)


# ---------------------------------------------------------------------------
# strings
# ---------------------------------------------------------------------------
def sstr(v):
    """z3 string term of a str value."""
    return z3.StringVal(v) if isinstance(v, str) else v.t


def _flat_concat(t, out):
    if z3.is_app(t) and t.decl().kind() == z3.Z3_OP_SEQ_CONCAT:
        for c in t.children():
            _flat_concat(c, out)
    else:
        out.append(t)


def str_concat(parts):
    """Canonical concatenation: nested concatenations are flattened, adjacent literals merged, so the
    same pieces always give the syntactically same term."""
    out = []
    for p in parts:
        if isinstance(p, SV):
            ts = []
            _flat_concat(p.t, ts)
            for t in ts:
                if z3.is_string_value(t):
                    lit = _string_value(t)
                    if out and isinstance(out[-1], str):
                        out[-1] += lit
                    elif lit:
                        out.append(lit)
                else:
                    out.append(t)
        elif isinstance(p, str):
            if out and isinstance(out[-1], str):
                out[-1] += p
            elif p:
                out.append(p)
        else:
            out.append(p)
    if not out:
        return ""
    if len(out) == 1:
        return out[0] if isinstance(out[0], str) else SV("str", out[0])
    return SV("str", z3.Concat(*[z3.StringVal(x) if isinstance(x, str) else x for x in out]))


def _string_value(t):
    import re as _re

    return _re.sub(r"\\u\{([0-9a-fA-F]+)\}", lambda m: chr(int(m.group(1), 16)), t.as_string())


def int_to_str(t):
    """str(int) for a z3 Int term (ground facts about str.from_int help both solvers)."""
    for x in (t, -t):
        p = z3.IntToStr(x)
        axiom(z3.Implies(x >= 0, z3.And(z3.InRe(p, RE_DIGITS), z3.StrToInt(p) == x, z3.Length(p) >= 1)))
    return z3.If(t >= 0, z3.IntToStr(t), z3.Concat(z3.StringVal("-"), z3.IntToStr(-t)))


RE_DIGITS = z3.Plus(RE_DIGIT)

# Definitional facts about fresh symbols / uninterpreted builtin models (total functions): they are
# global axioms of every query, never part of a goal.
AXIOMS: list = []
_AX_SEEN: set = set()


def axiom(t):
    k = t.get_id()
    if k not in _AX_SEEN:
        _AX_SEEN.add(k)
        AXIOMS.append(t)


def reset_axioms():
    AXIOMS.clear()
    _AX_SEEN.clear()


PAD = z3.Function("py_pad", z3.IntSort(), z3.IntSort(), z3.StringSort())


def pad_facts(t, w):
    """Ground instances of the trusted model of format(n, '0{w}d') for n >= 0."""
    p = PAD(t, z3.IntVal(w))
    return [
        z3.Length(p) >= w,
        z3.Implies(t >= 0, z3.And(z3.InRe(p, RE_DIGITS), z3.StrToInt(p) == t,
                                  z3.Implies(t < 10 ** w, z3.Length(p) == w),
                                  z3.Implies(t >= 10 ** w, p == z3.IntToStr(t)))),
    ]


def _known_nonneg(st, t):
    """``t >= 0`` is literally a conjunct of the path condition (keeps pad terms free of the sign case split)."""
    def conj(a):
        if z3.is_and(a):
            for c in a.children():
                yield from conj(c)
        else:
            yield a

    zero = z3.IntVal(0)
    from . import lia

    if lia.entails(list(getattr(st, "pc", ())), t >= 0):
        return True
    for a in getattr(st, "pc", ()):
        for c in conj(a):
            if z3.is_ge(c) and c.arg(0).eq(t) and c.arg(1).eq(zero):
                return True
            if z3.is_le(c) and c.arg(0).eq(zero) and c.arg(1).eq(t):
                return True
    return False


def pad_int(st, t, width):
    """format(n, '0{width}d') for a z3 Int term: uninterpreted ``py_pad`` + ground facts.

    A negative number is rendered as '-' followed by the magnitude padded to width-1."""
    if width <= 0:
        return int_to_str(t)
    for f in pad_facts(t, width):
        axiom(f)
    if _known_nonneg(st, t):
        return PAD(t, z3.IntVal(width))
    neg = z3.Concat(z3.StringVal("-"), PAD(-t, z3.IntVal(max(width - 1, 1))))
    if width > 1:
        for f in pad_facts(-t, width - 1):
            axiom(f)
    return z3.If(t >= 0, PAD(t, z3.IntVal(width)), neg)


def to_str(ex, st, v):
    """str(v) -> generator of (st, str value)."""
    for st1, w in ex.narrow(st, v):
        if isinstance(w, str):
            yield st1, w
        elif w is None or isinstance(w, (bool, int)):
            yield st1, str(w)
        elif isinstance(w, float):
            yield st1, str(w)
        elif isinstance(w, SV):
            if w.sort == "str":
                yield st1, w
            elif w.sort == "int":
                yield st1, SV("str", int_to_str(w.t))
            elif w.sort == "bool":
                yield st1, SV("str", z3.If(w.t, z3.StringVal("True"), z3.StringVal("False")))
            elif w.sort == "real":
                # str(float) == repr(float): shortest round-tripping decimal, an uninterpreted function here
                f = ex.uf("py_float_repr", z3.RealSort(), z3.StringSort())
                yield st1, SV("str", f(w.t))
            else:
                raise _U()(f"str() of sort {w.sort}")
        elif isinstance(w, Opaque):
            f = ex.uf("str_" + w.kind, z3sort(("u", w.kind)), z3.StringSort())
            yield st1, SV("str", f(w.t))
        elif isinstance(w, ExcVal):
            yield st1, SV("str", z3.String(fresh_name("excmsg")))
        elif isinstance(st1.deref(w), PList) and not st1.deref(w).items:
            yield st1, "[]"
        elif isinstance(w, tuple) and not w:
            yield st1, "()"
        elif isinstance(w, SSeq):
            # rendering of a list of unknown length: some text, a function of the list
            f = ex.uf("str_seq", z3.IntSort(), w.arr.sort(), z3.StringSort())
            yield st1, SV("str", f(w.n, w.arr))
        elif isinstance(st1.deref(w), Obj):
            # __str__ defined in source?
            o = st1.deref(w)
            meth = find_method(ex, ClassRef(*o.cls.split(":")), "__str__")
            if meth is None:
                raise _U()(f"str() of {o.cls}")
            yield from ex.call(st1, FuncRef(meth.module, meth.qualname, bound=w), [], {})
        elif isinstance(w, EnumMember):
            yield st1, f"{w.cls.qualname}.{w.name}"
        else:
            raise _U()(f"str() of {w!r}")


def format_value(ex, st, v, spec, conversion=-1):
    if conversion == 114:  # !r
        from . import builtins_calls as bc

        yield from bc._repr(ex, st, [v], {})
        return
    if spec is None or spec == "":
        yield from to_str(ex, st, v)
        return
    if spec.startswith("0") and spec.endswith("d") and spec[1:-1].isdigit():
        width = int(spec[1:-1])
        for st1, w in ex.narrow(st, v):
            if isinstance(w, bool) or (isinstance(w, SV) and w.sort == "bool"):
                w = SV("int", lift(w, "int")) if isinstance(w, SV) else int(w)
            if isinstance(w, int):
                yield st1, format(w, spec)
            elif isinstance(w, SV) and w.sort == "int":
                yield st1, SV("str", pad_int(st1, w.t, width))
            elif w is None or isinstance(w, str) or (isinstance(w, SV) and w.sort == "str"):
                yield ex.raise_(st1, "TypeError" if w is None else "ValueError")
            else:
                raise _U()(f"format {spec} of {w!r}")
        return
    if spec.startswith("+0") and spec.endswith("d") and spec[2:-1].isdigit():
        # sign always shown, zero padded to the total width
        width = int(spec[2:-1])
        for st1, w in ex.narrow(st, v):
            if isinstance(w, bool) or (isinstance(w, SV) and w.sort == "bool"):
                w = SV("int", lift(w, "int")) if isinstance(w, SV) else int(w)
            if isinstance(w, int):
                yield st1, format(w, spec)
            elif isinstance(w, SV) and w.sort == "int":
                t = w.t
                for f in pad_facts(t, max(width - 1, 1)) + pad_facts(-t, max(width - 1, 1)):
                    axiom(f)
                wv = z3.IntVal(max(width - 1, 1))
                yield st1, SV("str", z3.If(t >= 0, z3.Concat(z3.StringVal("+"), PAD(t, wv)), z3.Concat(z3.StringVal("-"), PAD(-t, wv))))
            else:
                yield ex.raise_(st1, "TypeError" if w is None else "ValueError")
        return
    raise _U()(f"format spec {spec!r}")


def char_in_ranges(c, ranges):
    """c: z3 string of length 1."""
    code = z3.StrToCode(c)
    return z3.Or(*[z3.And(code >= lo, code <= hi) for lo, hi in ranges])


PY_STRIP = z3.Function("py_strip", z3.StringSort(), z3.StringSort())
PY_LWS = z3.Function("py_strip_lws", z3.StringSort(), z3.StringSort())
PY_RWS = z3.Function("py_strip_rws", z3.StringSort(), z3.StringSort())


def no_ws_ends(r):
    return z3.And(z3.Not(z3.InRe(z3.SubString(r, 0, 1), RE_WS)),
                  z3.Not(z3.InRe(z3.SubString(r, z3.Length(r) - 1, 1), RE_WS)))


PY_INT_STRIP = z3.Function("py_int_strip", z3.StringSort(), z3.StringSort())
PY_INT_LWS = z3.Function("py_int_strip_lws", z3.StringSort(), z3.StringSort())
PY_INT_RWS = z3.Function("py_int_strip_rws", z3.StringSort(), z3.StringSort())


def strip_term(t, flavor="str"):
    """s.strip() (flavor 'str') or the whitespace skipping of int() (flavor 'int') as an uninterpreted
    function of s with its defining ground facts."""
    if flavor == "str":
        r, a, b, ws = PY_STRIP(t), PY_LWS(t), PY_RWS(t), RE_WS
    else:
        r, a, b, ws = PY_INT_STRIP(t), PY_INT_LWS(t), PY_INT_RWS(t), RE_WS_INT
    axiom(t == z3.Concat(a, r, b))
    axiom(z3.InRe(a, z3.Star(ws)))
    axiom(z3.InRe(b, z3.Star(ws)))
    axiom(z3.Or(z3.Length(r) == 0, z3.And(z3.Not(z3.InRe(z3.SubString(r, 0, 1), ws)),
                                          z3.Not(z3.InRe(z3.SubString(r, z3.Length(r) - 1, 1), ws)))))
    axiom(z3.Implies(z3.Length(r) == 0, z3.Length(b) == 0))
    return r


def lstrip_term(t, c):
    """s.lstrip(c) for a single character c: uninterpreted function of s with its defining ground facts."""
    f = z3.Function(f"py_lstrip_{ord(c):x}", z3.StringSort(), z3.StringSort())
    g = z3.Function(f"py_lstrip_{ord(c):x}_pre", z3.StringSort(), z3.StringSort())
    r, a = f(t), g(t)
    axiom(t == z3.Concat(a, r))
    axiom(z3.InRe(a, z3.Star(z3.Re(c))))
    axiom(z3.Not(z3.PrefixOf(z3.StringVal(c), r)))
    return r


def strip_unique_instance(s, a, r, b):
    """Uniqueness of the strip decomposition (a true fact about str.strip, trusted builtin model)."""
    return z3.Implies(z3.And(s == z3.Concat(a, r, b), z3.InRe(a, z3.Star(RE_WS)), z3.InRe(b, z3.Star(RE_WS)),
                             z3.Length(r) > 0, no_ws_ends(r)),
                      PY_STRIP(s) == r)


def model_strip(ex, st, s):
    if isinstance(s, str):
        return s.strip()
    return SV("str", strip_term(s.t))


def norm_index(i, n, st=None):
    """Python slice index normalisation for z3 Int terms (without the case split when the path condition
    already bounds the index, see lia.py)."""
    if st is not None:
        from . import lia

        pc = list(AXIOMS) + list(st.pc)
        if lia.entails(pc, i >= 0):
            if lia.entails(pc, i <= n):
                return i
            return z3.If(i > n, n, i)
    return z3.If(i < 0, z3.If(n + i < 0, 0, n + i), z3.If(i > n, n, i))


def str_slice(s, lo, hi, st=None):
    if isinstance(s, str) and not is_sym(lo) and not is_sym(hi):
        return s[lo:hi]
    t = sstr(s)
    n = z3.Length(t)
    pc = (list(AXIOMS) + list(st.pc)) if st is not None else None
    if pc is not None:
        from . import lia

    def literal(k):
        if k == 0 or (pc is not None and lia.entails(pc, n >= k)):
            return z3.IntVal(k)
        return z3.If(n < k, n, z3.IntVal(k))

    if lo is None:
        lo_t = z3.IntVal(0)
    elif isinstance(lo, int) and lo >= 0:
        lo_t = literal(lo)
    else:
        lo_t = norm_index(lift(lo, "int"), n, st)
    if hi is None:
        hi_t = n
    elif isinstance(hi, int) and hi >= 0:
        hi_t = literal(hi)
    else:
        hi_t = norm_index(lift(hi, "int"), n, st)
    if z3.is_int_value(lo_t) and lo_t.as_long() == 0 and hi_t.eq(n):
        return SV("str", t)  # s[:len(s)] / s[0:] is s
    if pc is not None and lia.entails(pc, hi_t >= lo_t):
        ln = z3.simplify(hi_t - lo_t)
    else:
        ln = z3.If(hi_t - lo_t < 0, 0, hi_t - lo_t)
    return SV("str", z3.SubString(t, lo_t, ln))


# ---------------------------------------------------------------------------
# arithmetic / comparison
# ---------------------------------------------------------------------------
def _num_sort(a, b):
    sa, sb = natural_sort(a), natural_sort(b)
    if "real" in (sa, sb):
        return "real"
    return "int"


def floordiv(a, b):
    """Python floor division of z3 Ints, b != 0 (SMT-LIB div is floor for a positive divisor)."""
    return z3.If(b > 0, a / b, (-a) / (-b))


def binop(ex, st, op, a, b):
    U = _U()
    # concrete fast path
    if not is_sym(a) and not is_sym(b) and isinstance(a, (int, float, str, tuple)) and isinstance(b, (int, float, str, tuple)):
        try:
            from .engine import BIN_OPS

            yield st, BIN_OPS[op](a, b)
        except ZeroDivisionError:
            yield ex.raise_(st, "ZeroDivisionError")
        except TypeError:
            yield ex.raise_(st, "TypeError")
        return
    sa, sb = natural_sort(a), natural_sort(b)
    if a is None or b is None:
        yield ex.raise_(st, "TypeError")
        return
    if isinstance(st.deref(a), PList) and isinstance(st.deref(b), PList) and op is ast.Add:
        yield st, st.alloc(PList(st.deref(a).items + st.deref(b).items))
        return
    if isinstance(a, tuple) and isinstance(b, tuple) and op is ast.Add:
        yield st, a + b
        return
    if sa == "str" and sb == "str":
        if op is ast.Add:
            yield st, str_concat([a, b])
            return
        yield ex.raise_(st, "TypeError")
        return
    if sa == "str" or sb == "str":
        if op is ast.Mult and (sa == "int" or sb == "int"):
            raise U("str * int")
        if op is ast.Mod and sa == "str":
            raise U("% formatting")
        yield ex.raise_(st, "TypeError")
        return
    num = {"int", "bool", "real"}
    if sa in num and sb in num:
        s = _num_sort(a, b)
        ta, tb = lift(a, s), lift(b, s)
        if op is ast.Add:
            yield st, SV(s, ta + tb)
        elif op is ast.Sub:
            yield st, SV(s, ta - tb)
        elif op is ast.Mult:
            yield st, SV(s, ta * tb)
        elif op is ast.Div:
            for st1, z in ex.branch(st, SV("bool", tb == 0)):
                if z:
                    yield ex.raise_(st1, "ZeroDivisionError")
                else:
                    yield st1, SV("real", lift(a, "real") / lift(b, "real"))
        elif op in (ast.FloorDiv, ast.Mod):
            if s == "real":
                raise U("float // or %")
            for st1, z in ex.branch(st, SV("bool", tb == 0)):
                if z:
                    yield ex.raise_(st1, "ZeroDivisionError")
                    continue
                q = floordiv(ta, tb)
                if op is ast.FloorDiv:
                    yield st1, SV("int", q)
                else:
                    yield st1, SV("int", ta - tb * q)
        elif op is ast.Pow:
            if isinstance(b, int) and 0 <= b <= 4:
                r = z3.IntVal(1) if s == "int" else z3.RealVal(1)
                for _ in range(b):
                    r = r * ta
                yield st, SV(s, r)
            else:
                raise U("pow")
        else:
            raise U(f"binop {op.__name__}")
        return
    raise U(f"binop {op.__name__} on {a!r}, {b!r}")


def values_equal(ex, st, a, b):
    """a == b as concrete bool or z3 Bool term."""
    U = _U()
    ra, rb = a, b
    a, b = st.deref(a), st.deref(b)
    if isinstance(a, SSeq) and isinstance(b, SSeq):
        if a is b:
            return True
        if a.arr.sort() != b.arr.sort():
            return False
        # same length and same elements below the length
        j = z3.Int(fresh_name("eqj"))
        return z3.And(a.n == b.n, z3.Or(a.arr == b.arr, z3.ForAll([j], z3.Implies(z3.And(j >= 0, j < a.n), a.arr[j] == b.arr[j]))))
    if isinstance(a, SV) or isinstance(b, SV):
        if not isinstance(a, SV):
            a, b = b, a
        # a is SV
        sa = a.sort
        if isinstance(sa, tuple) and sa[0] == "opt":
            Z = z3sort(sa)
            if b is None:
                return Z.is_none(a.t)
            inner = values_equal(ex, st, SV(sa[1], Z.val(a.t)), b)
            if isinstance(b, SV) and b.sort == sa:
                return a.t == b.t
            if isinstance(b, SV) and isinstance(b.sort, tuple) and b.sort[0] == "opt":
                ZB = z3sort(b.sort)
                return z3.Or(z3.And(Z.is_none(a.t), ZB.is_none(b.t)),
                             z3.And(Z.is_some(a.t), ZB.is_some(b.t),
                                    _z(values_equal(ex, st, SV(sa[1], Z.val(a.t)), SV(b.sort[1], ZB.val(b.t))))))
            return z3.And(Z.is_some(a.t), _z(inner))
        if isinstance(b, SV) and isinstance(b.sort, tuple) and b.sort[0] == "opt":
            return values_equal(ex, st, b, a)
        if b is None:
            return False
        sb = natural_sort(b)
        num = {"int", "bool", "real"}
        if sa in num and sb in num:
            s = "real" if "real" in (sa, sb) else ("bool" if sa == sb == "bool" else "int")
            return lift(a, s) == lift(b, s)
        if sa == "str" and sb == "str":
            return a.t == sstr(b)
        if isinstance(sa, tuple) and sa[0] == "tuple":
            if isinstance(b, SV) and b.sort == sa:
                return a.t == b.t
            if isinstance(b, tuple) and len(b) == len(sa) - 1:
                Z = z3sort(sa)
                return z3.And(*[_z(values_equal(ex, st, SV(s, Z.accessor(0, i)(a.t)), x)) for i, (s, x) in enumerate(zip(sa[1:], b))])
            return False
        if sb is None or sa != sb:
            return False
        return a.t == b.t
    if isinstance(a, tuple) and isinstance(b, tuple):
        if len(a) != len(b):
            return False
        parts = [values_equal(ex, st, x, y) for x, y in zip(a, b)]
        if all(isinstance(p, bool) for p in parts):
            return all(parts)
        return z3.And(*[_z(p) for p in parts])
    if isinstance(a, Opaque) and isinstance(b, Opaque):
        if a.kind != b.kind:
            # values of unrelated abstract kinds: equality is unknown (an uninterpreted predicate)
            ka, kb = sorted([a, b], key=lambda o: o.kind)
            f = ex.uf(f"eq_{ka.kind}_{kb.kind}", z3sort(("u", ka.kind)), z3sort(("u", kb.kind)), z3.BoolSort())
            return f(ka.t, kb.t)
        if a.t.eq(b.t):
            return True
        return a.t == b.t
    if isinstance(a, Opaque) or isinstance(b, Opaque):
        return False
    if isinstance(a, EnumMember) or isinstance(b, EnumMember):
        return a is b or (isinstance(a, EnumMember) and isinstance(b, EnumMember) and (a.cls, a.name) == (b.cls, b.name))
    if isinstance(a, Obj) and isinstance(b, Obj):
        if a is b:
            return True
        if a.cls != b.cls:
            return False
        if getattr(a, "structural", False):
            parts = [values_equal(ex, st, a.fields[k], b.fields[k]) for k in a.fields]
            if all(isinstance(p, bool) for p in parts):
                return all(parts)
            return z3.And(*[_z(p) for p in parts])
        return False
    if isinstance(a, Obj) or isinstance(b, Obj):
        return False
    if isinstance(a, PList) and isinstance(b, PList):
        if len(a.items) != len(b.items):
            return False
        parts = [values_equal(ex, st, x, y) for x, y in zip(a.items, b.items)]
        if all(isinstance(p, bool) for p in parts):
            return all(parts)
        return z3.And(*[_z(p) for p in parts])
    if isinstance(a, SDict) and isinstance(b, SDict):
        return sdict_equal(a, b)
    if isinstance(a, (SDict, PDict)) and isinstance(b, (SDict, PDict)):
        raise U("dict equality PDict/SDict")
    try:
        return bool(a == b)
    except Exception:
        raise U(f"equality of {a!r} and {b!r}")


def sdict_equal(a: SDict, b: SDict, ordered=False):
    """Python dict equality: same key set and values (order-insensitive)."""
    if a.ksort != b.ksort or a.vsort != b.vsort:
        return False
    K = z3sort(a.ksort)
    k = z3.Const(fresh_name("k"), K)
    same = z3.ForAll([k], z3.And(a.has[k] == b.has[k], z3.Implies(a.has[k], a.val[k] == b.val[k])))
    if ordered:
        j = z3.Int(fresh_name("j"))
        same = z3.And(same, a.n == b.n, z3.ForAll([j], z3.Implies(z3.And(0 <= j, j < a.n), a.key_at[j] == b.key_at[j])))
    return same


def _z(b):
    return z3.BoolVal(b) if isinstance(b, bool) else (b.t if isinstance(b, SV) else b)


def _wrap_bool(t):
    if isinstance(t, bool):
        return t
    t = z3.simplify(t)
    if z3.is_true(t):
        return True
    if z3.is_false(t):
        return False
    return SV("bool", t)


def compare(ex, st, op, a, b):
    U = _U()
    if op in (ast.Eq, ast.NotEq):
        # user-defined __eq__ on Obj (NamedTuple subclasses with _cmp)
        oa = st.deref(a)
        if isinstance(oa, Obj) and find_method(ex, ClassRef(*oa.cls.split(":")), "__eq__" if op is ast.Eq else "__ne__"):
            m = find_method(ex, ClassRef(*oa.cls.split(":")), "__eq__" if op is ast.Eq else "__ne__")
            yield from ex.call(st, FuncRef(m.module, m.qualname, bound=a), [b], {})
            return
        r = values_equal(ex, st, a, b)
        if op is ast.NotEq:
            r = (not r) if isinstance(r, bool) else z3.Not(_z(r))
        yield st, _wrap_bool(r)
        return
    if op in (ast.Is, ast.IsNot):
        if b is None or a is None:
            other = a if b is None else b
            if isinstance(other, SV) and isinstance(other.sort, tuple) and other.sort[0] == "opt":
                r = z3sort(other.sort).is_none(other.t)
            else:
                r = other is None
        elif isinstance(a, bool) or isinstance(b, bool):
            # ``x is True``: identity with the bool singletons == (type is bool and equal)
            other, lit = (a, b) if isinstance(b, bool) else (b, a)
            if isinstance(other, SV) and other.sort == "bool":
                r = other.t == z3.BoolVal(lit)
            elif isinstance(other, bool):
                r = other is lit
            else:
                r = False
        elif isinstance(a, Ref) or isinstance(b, Ref):
            r = a == b
        elif isinstance(a, EnumMember) or isinstance(b, EnumMember):
            r = values_equal(ex, st, a, b)
        elif isinstance(a, Opaque) and isinstance(b, Opaque):
            r = (a.t == b.t) if a.kind == b.kind else False
        elif isinstance(a, (ClassRef, TypeRef)) or isinstance(b, (ClassRef, TypeRef)):
            r = a == b
        elif (isinstance(a, SV) and isinstance(b, SV) and a.sort == b.sort and isinstance(a.sort, tuple) and a.sort[0] == "opt"
              and isinstance(a.sort[1], tuple) and a.sort[1][0] == "u"):
            r = a.t == b.t  # two optional abstract objects: the same object (or both None) iff the terms are equal
        elif (isinstance(a, SV) and isinstance(b, Opaque) or isinstance(b, SV) and isinstance(a, Opaque)):
            o, sv = (b, a) if isinstance(b, Opaque) else (a, b)
            if isinstance(sv.sort, tuple) and sv.sort[0] == "opt" and sv.sort[1] == ("u", o.kind):
                S = z3sort(sv.sort)
                r = z3.And(z3.Not(S.is_none(sv.t)), S.val(sv.t) == o.t)
            elif sv.sort == ("u", o.kind):
                r = sv.t == o.t
            else:
                r = False
        else:
            raise U(f"'is' on {a!r}, {b!r}")
        if op is ast.IsNot:
            r = (not r) if isinstance(r, bool) else z3.Not(r)
        yield st, _wrap_bool(r)
        return
    if op in (ast.In, ast.NotIn):
        for st1, r in contains(ex, st, b, a):
            if isinstance(r, Exc):
                yield st1, r
                continue
            if op is ast.NotIn:
                r = (not r) if isinstance(r, bool) else SV("bool", z3.Not(r.t))
            yield st1, r
        return
    # ordering
    for st1, a1 in ex.narrow(st, a):
        for st2, b1 in ex.narrow(st1, b):
            if a1 is None or b1 is None:
                yield ex.raise_(st2, "TypeError")
                continue
            if isinstance(st2.deref(a1), Obj):
                name = {ast.Lt: "__lt__", ast.LtE: "__le__", ast.Gt: "__gt__", ast.GtE: "__ge__"}[op]
                m = find_method(ex, ClassRef(*st2.deref(a1).cls.split(":")), name)
                if m is not None:
                    yield from ex.call(st2, FuncRef(m.module, m.qualname, bound=a1), [b1], {})
                    continue
            sa, sb = natural_sort(a1), natural_sort(b1)
            num = {"int", "bool", "real"}
            from .engine import CMP_OPS

            if sa in num and sb in num:
                if not is_sym(a1) and not is_sym(b1):
                    yield st2, CMP_OPS[op](a1, b1)
                else:
                    s = _num_sort(a1, b1)
                    yield st2, _wrap_bool(CMP_OPS[op](lift(a1, s), lift(b1, s)))
            elif sa == "str" and sb == "str":
                if not is_sym(a1) and not is_sym(b1):
                    yield st2, CMP_OPS[op](a1, b1)
                else:
                    ta, tb = sstr(a1), sstr(b1)
                    r = {ast.Lt: ta < tb, ast.LtE: ta <= tb, ast.Gt: tb < ta, ast.GtE: tb <= ta}[op]
                    yield st2, SV("bool", r)
            elif sa is not None and sb is not None:
                yield ex.raise_(st2, "TypeError")
            else:
                raise U(f"ordering of {a1!r}, {b1!r}")


def contains(ex, st, container, item):
    U = _U()
    container = st.deref(container)
    if isinstance(container, SV) and isinstance(container.sort, tuple) and container.sort[0] == "opt":
        for st1, w in ex.narrow(st, container):
            if w is None:
                yield ex.raise_(st1, "TypeError")
            else:
                yield from contains(ex, st1, w, item)
        return
    if isinstance(container, DictViewBase):
        d = st.get(container.d)
        if container.kind == "keys":
            container = d
        elif container.kind == "values" and isinstance(d, SDict):
            k = z3.Const(fresh_name("k"), z3sort(d.ksort))
            yield st, SV("bool", z3.Exists([k], z3.And(d.has[k], _z(values_equal(ex, st, SV(d.vsort, d.val[k]), item)))))
            return
        else:
            raise U("membership in items view")
    if isinstance(container, (tuple, PList, PSet, frozenset)):
        items = container if isinstance(container, (tuple, frozenset)) else container.items
        parts = [values_equal(ex, st, x, item) for x in items]
        if all(isinstance(p, bool) for p in parts):
            yield st, any(parts)
        else:
            yield st, _wrap_bool(z3.Or(*[_z(p) for p in parts]))
    elif isinstance(container, PDict):
        parts = [values_equal(ex, st, x, item) for x in container.items]
        if all(isinstance(p, bool) for p in parts):
            yield st, any(parts)
        else:
            yield st, _wrap_bool(z3.Or(*[_z(p) for p in parts]))
    elif isinstance(container, SDict):
        k = dict_key(container, item)
        yield st, (False if k is None else _wrap_bool(container.has[k]))
    elif isinstance(container, SSet):
        try:
            k = lift(item, container.esort)
        except TypeError:
            yield st, False
            return
        yield st, _wrap_bool(container.has[k])
    elif natural_sort(container) == "str":
        for st1, it in ex.narrow(st, item):
            if natural_sort(it) != "str":
                yield ex.raise_(st1, "TypeError")
            elif not is_sym(container) and not is_sym(it):
                yield st1, it in container
            else:
                yield st1, _wrap_bool(z3.Contains(sstr(container), sstr(it)))
    elif isinstance(container, SSeq):
        j = z3.Int(fresh_name("j"))
        yield st, SV("bool", z3.Exists([j], z3.And(0 <= j, j < container.n, _z(values_equal(ex, st, container.at(j), item)))))
    elif isinstance(container, Kwargs):
        if is_sym(item):
            raise U("symbolic key in kwargs")
        if item in container.known:
            yield st, True
        elif container.open:
            raise U("membership in open kwargs")
        else:
            yield st, False
    elif isinstance(container, Opaque) and (container.kind, "contains") in ex.db.opaque_ops:
        yield from ex.db.opaque_ops[(container.kind, "contains")](ex, st, container, item)
    elif isinstance(container, Opaque):
        f = ex.uf("contains_" + container.kind, z3sort(("u", container.kind)), z3sort(natural_sort(item) or "str"), z3.BoolSort())
        yield st, SV("bool", f(container.t, lift(item)))
    else:
        raise U(f"'in' on {container!r}")


def dict_key(d: SDict, k):
    """z3 key term or None if the key cannot be of the dict's key sort."""
    try:
        return lift(k, d.ksort)
    except TypeError:
        return None


# ---------------------------------------------------------------------------
# attribute access
# ---------------------------------------------------------------------------
class MethodRef:
    def __init__(self, module, qualname, node):
        self.module = module
        self.qualname = qualname
        self.node = node


def class_mro(ex, cref: ClassRef):
    """Linearised (depth-first, left-to-right) list of ClassRefs defined in source."""
    out = []
    seen = set()

    def visit(c):
        if (c.module, c.qualname) in seen:
            return
        seen.add((c.module, c.qualname))
        out.append(c)
        mod = load_module(c.module)
        if mod is None or c.qualname not in mod.class_bases:
            return
        for b in mod.class_bases[c.qualname]:
            name = ast.unparse(b)
            if "[" in name:
                name = name.split("[")[0]
            try:
                v = ex.module_attr(c.module, name.split(".")[0])
            except Exception:
                continue
            if isinstance(v, ModuleRef) and "." in name:
                try:
                    v = ex.module_attr(v.name, name.split(".", 1)[1])
                except Exception:
                    continue
            if isinstance(v, ClassRef):
                visit(v)

    visit(cref)
    return out


def class_base_names(ex, cref: ClassRef):
    names = []
    for c in class_mro(ex, cref):
        mod = load_module(c.module)
        if mod and c.qualname in mod.class_bases:
            names.extend(ast.unparse(b).split(".")[-1] for b in mod.class_bases[c.qualname])
    return names


def find_method(ex, cref: ClassRef, name: str):
    for c in class_mro(ex, cref):
        mod = load_module(c.module)
        if mod is None:
            continue
        node = mod.defs.get(c.qualname + "." + name)
        if isinstance(node, (ast.FunctionDef,)):
            return MethodRef(c.module, c.qualname + "." + name, node)
    return None


def find_class_const(ex, cref: ClassRef, name: str):
    for c in class_mro(ex, cref):
        mod = load_module(c.module)
        if mod and (c.qualname + "." + name) in mod.assigns:
            return (c.module, c.qualname + "." + name)
    return None


def is_enum(ex, cref: ClassRef) -> bool:
    return "Enum" in class_base_names(ex, cref)


_enum_cache: dict = {}


def enum_members(ex, cref: ClassRef):
    """Members of an Enum class, built from its source: value expr + __init__ side effects."""
    key = (cref.module, cref.qualname)
    if key in _enum_cache:
        return _enum_cache[key]
    mod = load_module(cref.module)
    node = mod.defs[cref.qualname]
    members = {}
    _enum_cache[key] = members
    init = find_method(ex, cref, "__init__")
    from .engine import State
    from .values import Frame

    for item in node.body:
        if isinstance(item, ast.Assign) and len(item.targets) == 1 and isinstance(item.targets[0], ast.Name):
            nm = item.targets[0].id
            if nm.startswith("_"):
                continue
            st = State()
            st.push_frame(Frame(cref.module, {}, qualname="<enum>"))
            res = list(ex.ev(item.value, st))
            if len(res) != 1 or isinstance(res[0][1], Exc):
                raise _U()(f"enum member {cref.qualname}.{nm} does not fold")
            st, val = res[0]
            if isinstance(val, Ref) or (isinstance(val, tuple) and any(isinstance(x, Ref) for x in val)):
                raise _U()(f"enum member {cref.qualname}.{nm} has a mutable value")
            attrs = {}
            if init is not None:
                o = st.alloc(Obj(f"{cref.module}:{cref.qualname}", {}))
                args = list(val) if isinstance(val, tuple) else [val]
                r = list(ex.inline_call(st, FuncRef(init.module, init.qualname, bound=o), init.node, args, {}))
                if len(r) != 1 or isinstance(r[0][1], Exc):
                    raise _U()(f"enum __init__ of {cref.qualname}.{nm} forks or raises")
                attrs = dict(r[0][0].get(o).fields)
            members[nm] = EnumMember(cref, nm, val, attrs)
    return members


def getattr_(ex, st, v, attr):
    U = _U()
    if isinstance(v, ModuleRef):
        sub = load_module(v.name + "." + attr) if v.name.startswith("xsdata") else None
        mod = load_module(v.name)
        if mod is not None and (attr in mod.defs or attr in mod.assigns or attr in mod.imports):
            yield st, ex.module_attr(v.name, attr, st)
        elif sub is not None:
            yield st, ModuleRef(v.name + "." + attr)
        elif (v.name, attr) in ex.db.const_overrides:
            yield st, ex.db.const_overrides[(v.name, attr)]
        else:
            yield st, external_attr(ex, v.name, attr)
        return
    o = st.deref(v)
    if isinstance(o, Obj):
        if attr in o.fields:
            yield st, o.fields[attr]
            return
        cref = ClassRef(*o.cls.split(":"))
        if attr == "__class__":
            yield st, cref
            return
        yield from class_attr(ex, st, cref, attr, instance=v)
        return
    if isinstance(v, EnumMember):
        if attr in ("name", "_name_"):
            yield st, v.name
        elif attr in ("value", "_value_"):
            yield st, v.value
        elif attr in v.attrs:
            yield st, v.attrs[attr]
        elif attr == "__class__":
            yield st, v.cls
        else:
            yield from class_attr(ex, st, v.cls, attr, instance=v)
        return
    if isinstance(v, ClassRef):
        if attr in ("__name__", "__qualname__"):
            yield st, v.qualname.split(".")[-1] if attr == "__name__" else v.qualname
            return
        yield from class_attr(ex, st, v, attr, instance=None)
        return
    if isinstance(v, TypeRef):
        if attr in ("__name__", "__qualname__"):
            yield st, v.name
            return
        yield st, BuiltinRef(f"{v.name}.{attr}")
        return
    if isinstance(v, ExcVal):
        if attr == "args":
            yield st, v.args
            return
        raise U(f"attribute {attr} of exception")
    if natural_sort(v) == "str":
        yield st, BuiltinRef("str." + attr, bound=v)
        return
    if isinstance(v, SV) and isinstance(v.sort, tuple) and v.sort[0] == "opt":
        for st1, w in ex.narrow(st, v):
            if w is None:
                yield ex.raise_(st1, "AttributeError")
            else:
                yield from getattr_(ex, st1, w, attr)
        return
    if v is None:
        yield ex.raise_(st, "AttributeError")
        return
    if isinstance(o, (PList, EagerGen)):
        yield st, BuiltinRef("list." + attr, bound=v)
        return
    if isinstance(o, (PDict, SDict, Kwargs)):
        yield st, BuiltinRef("dict." + attr, bound=v)
        return
    if isinstance(o, (PSet, SSet)):
        yield st, BuiltinRef("set." + attr, bound=v)
        return
    if isinstance(v, tuple):
        yield st, BuiltinRef("tuple." + attr, bound=v)
        return
    if isinstance(v, SSeq):
        yield st, BuiltinRef("seq." + attr, bound=v)
        return
    if type(v).__name__ == "RegexVal":
        yield st, BuiltinRef("regex." + attr, bound=v)
        return
    if type(v).__name__ == "MatchVal":
        yield st, BuiltinRef("match." + attr, bound=v)
        return
    if isinstance(v, Opaque):
        yield from opaque_attr(ex, st, v, attr)
        return
    if isinstance(v, BuiltinRef) and v.bound is None:
        yield st, BuiltinRef(v.name + "." + attr)
        return
    if natural_sort(v) in ("int", "bool", "real"):
        yield ex.raise_(st, "AttributeError")
        return
    ex.give_up(st, f"attribute {attr} on {v!r}")


def class_attr(ex, st, cref: ClassRef, attr, instance):
    U = _U()
    if is_enum(ex, cref) and instance is None:
        mem = enum_members(ex, cref)
        if attr in mem:
            yield st, mem[attr]
            return
    m = find_method(ex, cref, attr)
    if m is not None:
        decos = [ast.unparse(d) for d in m.node.decorator_list]
        if "property" in decos:
            if instance is None:
                raise U("property on class")
            yield from ex.call(st, FuncRef(m.module, m.qualname, bound=instance), [], {})
        elif "classmethod" in decos:
            yield st, FuncRef(m.module, m.qualname, bound=cref)
        elif "staticmethod" in decos:
            yield st, FuncRef(m.module, m.qualname)
        else:
            yield st, FuncRef(m.module, m.qualname, bound=instance)
        return
    c = find_class_const(ex, cref, attr)
    if c is not None:
        yield st, ex.const_fold(*c, st=st)
        return
    ext = getattr(ex.db, "class_consts", {}).get((cref.module, cref.qualname, attr))
    if ext is not None and instance is None:
        yield st, ext  # a constant of a class outside the repository (datetime.timezone.utc), declared by a contract module
        return
    if cref.module == "builtins":
        raise U(f"attribute {attr} on builtin class")
    io = st.deref(instance) if instance is not None else None
    if isinstance(io, Obj) and getattr(io, "closed", False):
        # a field the contract does not know: it may hold anything (arbitrary abstract value)
        v = Opaque("Any")
        io.fields[attr] = v
        st.notes.append(f"undeclared field {io.cls.split(':')[-1]}.{attr} read as an arbitrary value")
        yield st, v
        return
    if isinstance(io, Obj) and io.open_fields is not None:
        sort = io.open_fields.get(attr)
        if sort is not None:
            v = ex.db.make_value(ex, st, sort, attr)
            st.deref(instance).fields[attr] = v
            yield st, v
            return
    yield ex.raise_(st, "AttributeError")


_MISSING = object()


def opaque_attr(ex, st, v: Opaque, attr):
    written = st.ghost.get("opaque_fields", {}).get((str(v.t), attr), _MISSING)
    if written is not _MISSING:
        yield st, written
        return
    spec = ex.db.opaque_attr(v.kind, attr)
    if spec is None:
        # an attribute of a collaborator the contracts do not know: an arbitrary value, the same at every
        # read of the same object (noted in the evidence)
        from .contracts import pure_result

        st.notes.append(f"undeclared attribute {v.kind}.{attr} read as an arbitrary value")
        if v.kind == "Any":
            # an arbitrary object may lack the attribute: hasattr is an uninterpreted predicate of the object
            has = ex.uf(f"hasattr_{attr}", z3sort(("u", "Any")), z3.BoolSort())
            for st1, ok in ex.branch(st, _wrap_bool(has(v.t))):
                if ok:
                    yield st1, pure_result(ex, st1, f"{v.kind}.{attr}", "u:Any", [v])
                else:
                    yield ex.raise_(st1, "AttributeError")
            return
        yield st, pure_result(ex, st, f"{v.kind}.{attr}", "u:Any", [v])
        return
    kind, payload = spec
    if kind == "field" and isinstance(payload, str) and payload.strip().startswith("seq["):
        from .contracts import pure_result

        yield st, pure_result(ex, st, f"{v.kind}.{attr}", payload.strip(), [v])  # a list-valued field: a function of the object
        return
    if kind == "field":
        nonempty = payload == "nonempty-str"  # assumed invariant of the collaborator: the field is a non-empty string
        sort = parse_sort("str" if nonempty else payload)
        f = ex.uf(f"{v.kind}.{attr}", z3sort(("u", v.kind)), z3sort(sort))
        if nonempty:
            st.assume(z3.Length(f(v.t)) > 0)  # the ground instance of the assumption for the object read
        if isinstance(sort, tuple) and sort[0] == "u":
            yield st, Opaque(sort[1], f(v.t))
        else:
            yield st, SV(sort, f(v.t))
    elif kind == "method":
        yield st, BuiltinRef(f"opaque:{v.kind}.{attr}", bound=v)
    elif kind == "const":
        yield st, payload
    else:
        raise _U()(f"opaque attr spec {spec}")


def setattr_(ex, st, ref, attr, v):
    o = st.deref(ref)
    if isinstance(o, Obj):
        if o.frozen:
            yield ex.raise_(st, "AttributeError")
            return
        o.fields[attr] = v
        yield st, None
    elif isinstance(o, Opaque):
        # assignment to an attribute of an abstract object: a recorded mutation of that object (unmodified() sees it);
        # later reads of the attribute through the same term see the assigned value
        written = dict(st.ghost.get("opaque_fields", {}))
        written[(str(o.t), attr)] = v
        st.ghost = {**st.ghost, "opaque_fields": written}
        st.trace.append(("call", "setattr", o, (attr, v), ()))
        st.trace.append(("mutate", o))
        yield st, None
    else:
        raise _U()(f"setattr on {o!r}")


# ---------------------------------------------------------------------------
# subscripts
# ---------------------------------------------------------------------------
def getitem(ex, st, ref, idx):
    U = _U()
    v = st.deref(ref)
    if isinstance(v, Obj) and v.tuple_fields is not None:
        v = tuple(v.fields[k] for k in v.tuple_fields)
    if isinstance(v, (PList, tuple, EagerGen)):
        items = v if isinstance(v, tuple) else v.items
        for st1, i in ex.narrow(st, idx):
            if isinstance(i, bool) or isinstance(i, int):
                try:
                    yield st1, items[i]
                except IndexError:
                    yield ex.raise_(st1, "IndexError")
            elif isinstance(i, SV) and i.sort in ("int", "bool"):
                it = lift(i, "int")
                n = len(items)
                for k in range(-n, n):
                    for st2, hit in ex.branch(st1.fork(), SV("bool", it == k)):
                        if hit:
                            yield st2, items[k]
                st1.assume(z3.Or(it < -n, it >= n))
                if ex.feasible(st1.pc):
                    yield ex.raise_(st1, "IndexError")
            else:
                yield ex.raise_(st1, "TypeError")
        return
    if isinstance(v, PDict):
        if not is_sym(idx):
            try:
                if idx in v.items:
                    yield st, v.items[idx]
                else:
                    yield ex.raise_(st, "KeyError")
            except TypeError:
                yield ex.raise_(st, "TypeError")
            return
        for k, val in list(v.items.items()):
            eq = values_equal(ex, st, k, idx)
            if eq is False:
                continue
            for st1, hit in ex.branch(st.fork(), _wrap_bool(_z(eq))):
                if hit:
                    yield st1, val
            st.assume(z3.Not(_z(eq)))
        if ex.feasible(st.pc):
            yield ex.raise_(st, "KeyError")
        return
    if isinstance(v, SDict):
        k = dict_key(v, idx)
        if k is None:
            yield ex.raise_(st, "KeyError")
            return
        for st1, has in ex.branch(st, _wrap_bool(v.has[k])):
            if has:
                d1 = st1.deref(ref)
                yield st1, SV(d1.vsort, z3.simplify(d1.val[k]))
            else:
                yield ex.raise_(st1, "KeyError")
        return
    if isinstance(v, Kwargs):
        if idx in v.known:
            yield st, v.known[idx]
        elif v.open:
            raise U("subscript of open kwargs")
        else:
            yield ex.raise_(st, "KeyError")
        return
    if natural_sort(v) == "str":
        for st1, i in ex.narrow(st, idx):
            if not is_sym(v) and not is_sym(i):
                try:
                    yield st1, v[i]
                except IndexError:
                    yield ex.raise_(st1, "IndexError")
                except TypeError:
                    yield ex.raise_(st1, "TypeError")
                continue
            if natural_sort(i) not in ("int", "bool"):
                yield ex.raise_(st1, "TypeError")
                continue
            t = sstr(v)
            n = z3.Length(t)
            it = lift(i, "int")
            for st2, ok in ex.branch(st1, _wrap_bool(z3.And(it >= -n, it < n))):
                if ok:
                    from . import lia

                    nonneg = (isinstance(i, int) and i >= 0) or lia.entails(list(AXIOMS) + list(st2.pc), it >= 0)
                    real = it if nonneg else z3.If(it < 0, n + it, it)
                    yield st2, SV("str", z3.SubString(t, real, 1), char=True)
                else:
                    yield ex.raise_(st2, "IndexError")
        return
    if isinstance(v, SSeq):
        it = lift(idx, "int")
        for st1, ok in ex.branch(st, _wrap_bool(z3.And(it >= -v.n, it < v.n))):
            if ok:
                yield st1, v.at(z3.If(it < 0, v.n + it, it))
            else:
                yield ex.raise_(st1, "IndexError")
        return
    if isinstance(v, SV) and isinstance(v.sort, tuple) and v.sort[0] == "tuple":
        if isinstance(idx, int):
            Z = z3sort(v.sort)
            n = len(v.sort) - 1
            if -n <= idx < n:
                i = idx % n
                yield st, SV(v.sort[1 + i], z3.simplify(Z.accessor(0, i)(v.t)))
            else:
                yield ex.raise_(st, "IndexError")
            return
        raise U("symbolic index into tuple")
    if isinstance(v, SV) and isinstance(v.sort, tuple) and v.sort[0] == "opt":
        for st1, w in ex.narrow(st, v):
            if w is None:
                yield ex.raise_(st1, "TypeError")
            else:
                yield from getitem(ex, st1, w, idx)
        return
    if v is None or isinstance(v, (int, float)) or (isinstance(v, SV) and v.sort in ("int", "bool", "real")):
        yield ex.raise_(st, "TypeError")
        return
    if isinstance(v, (TypeRef, ClassRef)):
        yield st, v  # generic alias  list[int]
        return
    if isinstance(v, Opaque) and (v.kind, "getitem") in ex.db.opaque_ops:
        yield from ex.db.opaque_ops[(v.kind, "getitem")](ex, st, v, idx)
        return
    if isinstance(v, Opaque) and v.kind in ("Any", "PyDict", "PyList"):
        from .contracts import pure_result

        st2 = st.fork()
        yield ex.raise_(st2, "KeyError" if v.kind != "PyList" else "IndexError")
        # the stored content is unknown: reads see an arbitrary value (fresh at every read, since
        # intervening writes are not tracked)
        yield st, Opaque("Any")
        return
    ex.give_up(st, f"subscript of {v!r}")


def getslice(ex, st, ref, lo, hi, step):
    U = _U()
    if step is not None:
        raise U("slice step")
    v = st.deref(ref)
    if natural_sort(v) == "str":
        ok = True
        for b in (lo, hi):
            if b is not None and natural_sort(b) not in ("int", "bool"):
                ok = False
        if not ok:
            for st1, l1 in ex.narrow(st, lo):
                for st2, h1 in ex.narrow(st1, hi):
                    if any(x is not None and natural_sort(x) not in ("int", "bool") for x in (l1, h1)):
                        yield ex.raise_(st2, "TypeError")
                    else:
                        yield st2, str_slice(v, l1, h1, st2)
            return
        yield st, str_slice(v, lo, hi, st)
        return
    if isinstance(v, SV) and isinstance(v.sort, tuple) and v.sort[0] == "opt":
        for st1, w in ex.narrow(st, v):
            if w is None:
                yield ex.raise_(st1, "TypeError")
            else:
                yield from getslice(ex, st1, w, lo, hi, step)
        return
    if isinstance(v, SSeq) and all(b is None or (isinstance(b, int) and not isinstance(b, bool)) for b in (lo, hi)):
        # a slice of a symbolic sequence with literal bounds: again a symbolic sequence (shifted view of the same items)
        n = v.n
        start = 0 if lo is None else (z3.If(n + lo > 0, n + lo, 0) if lo < 0 else z3.If(n < lo, n, z3.IntVal(lo)))
        stop = n if hi is None else (z3.If(n + hi > 0, n + hi, 0) if hi < 0 else z3.If(n < hi, n, z3.IntVal(hi)))
        start, stop = (z3.IntVal(start) if isinstance(start, int) else start), stop
        length = z3.If(stop - start > 0, stop - start, 0)
        j = z3.Int(fresh_name("j"))
        r = SSeq(v.sort, z3.simplify(length), z3.Lambda([j], v.arr[j + start]))
        r.pytype = getattr(v, "pytype", "list")
        yield st, r
        return
    if isinstance(v, Obj) and v.tuple_fields is not None:
        v = tuple(v.fields[k] for k in v.tuple_fields)
    if isinstance(v, (PList, tuple, EagerGen)):
        items = v if isinstance(v, tuple) else v.items
        if is_sym(lo) or is_sym(hi):
            raise U("symbolic slice of concrete list")
        r = items[lo:hi]
        yield st, (tuple(r) if isinstance(v, (tuple, EagerGen)) else st.alloc(PList(r)))
        return
    raise U(f"slice of {v!r}")


def _mutable_check(ex, st, o):
    if getattr(o, "frozen", False):
        ex.oblige(st, "module-constant-mutated", "frame", False, info={"what": repr(o)})


def setitem(ex, st, ref, idx, v):
    U = _U()
    o = st.deref(ref)
    _mutable_check(ex, st, o)
    if isinstance(o, PDict):
        if is_sym(idx):
            # a concrete dict receiving a symbolic key becomes a symbolic dict (same heap address)
            try:
                nd = pdict_to_sdict(o, natural_sort(idx), natural_sort(v))
            except (TypeError, ValueError) as e:
                ex.give_up(st, f"symbolic key store into concrete dict: {e}")
                return
            st.heap[ref.addr] = nd
            sdict_store(nd, idx, v)
            yield st, None
            return
        o.items[idx] = v
        yield st, None
    elif isinstance(o, SDict):
        try:
            sdict_store(o, idx, v)
        except TypeError:
            raise U(f"store of {idx!r}: {v!r} into {o!r}")
        yield st, None
    elif isinstance(o, PList):
        if is_sym(idx):
            raise U("symbolic index store")
        try:
            o.items[idx] = v
            yield st, None
        except IndexError:
            yield ex.raise_(st, "IndexError")
    elif isinstance(o, Opaque) and o.kind in ("Any", "PyDict", "PyList"):
        st.trace.append(("mutate", o))
        yield st, None
    elif o is None or natural_sort(o) is not None or isinstance(o, tuple):
        yield ex.raise_(st, "TypeError")
    else:
        ex.give_up(st, f"item assignment on {o!r}")


def pdict_to_sdict(o: PDict, ksort, vsort) -> SDict:
    if ksort is None or vsort is None:
        raise TypeError("cannot infer key/value sorts")
    K, V = z3sort(ksort), z3sort(vsort)
    n = z3.IntVal(0)
    key_at = z3.K(z3.IntSort(), lift(_default_of(ksort), ksort))
    pos = z3.K(K, z3.IntVal(-1))
    has = z3.K(K, z3.BoolVal(False))
    val = z3.K(K, lift(_default_of(vsort), vsort))
    d = SDict(ksort, vsort, terms=(n, key_at, pos, has, val))
    for k, v in o.items.items():
        sdict_store(d, k, v)
    return d


def _default_of(sort):
    sort = parse_sort(sort)
    if isinstance(sort, tuple) and sort[0] == "u":
        return Opaque(sort[1], z3.Const("default_" + sort[1], z3sort(sort)))
    if sort == "int":
        return 0
    if sort == "bool":
        return False
    if sort == "str":
        return ""
    if isinstance(sort, tuple) and sort[0] == "opt":
        return None
    raise TypeError(f"no default for sort {sort}")


def sdict_store(d: SDict, k, v):
    kt = lift(k, d.ksort)
    vt = lift(v, d.vsort)
    was = d.has[kt]
    d.key_at = z3.If(was, d.key_at, z3.Store(d.key_at, d.n, kt))
    d.pos = z3.If(was, d.pos, z3.Store(d.pos, kt, d.n))
    d.n = z3.If(was, d.n, d.n + 1)
    d.has = z3.Store(d.has, kt, True)
    d.val = z3.Store(d.val, kt, vt)


def sdict_update(ex, st, d: SDict, src: SDict):
    """d.update(src) for two symbolic dicts: fresh arrays characterised by axioms.  Keys of d keep their positions and
    get src's value where src has the key; the keys only src has are appended in src's order."""
    K = z3sort(d.ksort)
    nm = fresh_name("upd")
    n2 = z3.Int(nm + ".n")
    key_at2 = z3.Array(nm + ".key_at", z3.IntSort(), K)
    pos2 = z3.Array(nm + ".pos", K, z3.IntSort())
    has2 = z3.Array(nm + ".has", K, z3.BoolSort())
    val2 = z3.Array(nm + ".val", K, z3sort(d.vsort))
    j = z3.Int(fresh_name("j"))
    k = z3.Const(fresh_name("k"), K)
    k2 = z3.Const(fresh_name("k"), K)
    n, key_at, pos, has, val = d.terms()
    new = lambda x: z3.And(src.has[x], z3.Not(has[x]))  # noqa: E731
    st.assume(z3.And(n2 >= n, n2 <= n + src.n))
    st.assume(z3.ForAll([k], has2[k] == z3.Or(has[k], src.has[k]), patterns=[has2[k]]))
    st.assume(z3.ForAll([k], val2[k] == z3.If(src.has[k], src.val[k], val[k]), patterns=[val2[k]]))
    st.assume(z3.ForAll([j], z3.Implies(z3.And(0 <= j, j < n), key_at2[j] == key_at[j]), patterns=[key_at2[j]]))
    st.assume(z3.ForAll([j], z3.Implies(z3.And(n <= j, j < n2), z3.And(new(key_at2[j]), pos2[key_at2[j]] == j)), patterns=[key_at2[j]]))
    st.assume(z3.ForAll([k], z3.Implies(has[k], pos2[k] == pos[k]), patterns=[pos2[k]]))
    st.assume(z3.ForAll([k], z3.Implies(new(k), z3.And(n <= pos2[k], pos2[k] < n2, key_at2[pos2[k]] == k)), patterns=[pos2[k]]))
    st.assume(z3.ForAll([k, k2], z3.Implies(z3.And(new(k), new(k2)), (pos2[k] < pos2[k2]) == (src.pos[k] < src.pos[k2])),
                        patterns=[z3.MultiPattern(pos2[k], pos2[k2])]))
    d.set_terms((n2, key_at2, pos2, has2, val2))


def sdict_remove(ex, st, d: SDict, kt):
    """Remove a present key; later keys shift down by one (fresh arrays + axioms)."""
    K = z3sort(d.ksort)
    nm = fresh_name("rm")
    p = d.pos[kt]
    key_at2 = z3.Array(nm + ".key_at", z3.IntSort(), K)
    pos2 = z3.Array(nm + ".pos", K, z3.IntSort())
    j = z3.Int(fresh_name("j"))
    k = z3.Const(fresh_name("k"), K)
    st.assume(z3.ForAll([j], z3.Implies(z3.And(0 <= j, j < d.n - 1),
                                       key_at2[j] == z3.If(j < p, d.key_at[j], d.key_at[j + 1])),
                        patterns=[key_at2[j]]))
    st.assume(z3.ForAll([k], z3.Implies(z3.And(d.has[k], k != kt),
                                       pos2[k] == z3.If(d.pos[k] < p, d.pos[k], d.pos[k] - 1)),
                        patterns=[pos2[k]]))
    d.key_at, d.pos = key_at2, pos2
    d.n = d.n - 1
    d.has = z3.Store(d.has, kt, False)


def del_slice(ex, st, ref, sl):
    o = st.deref(ref)
    if isinstance(o, PList):
        def one(n):
            if n is None:
                return None
            r = list(ex.ev(n, st))
            if len(r) != 1 or is_sym(r[0][1]):
                raise _U()("del slice with symbolic bound")
            return r[0][1]

        del o.items[one(sl.lower):one(sl.upper)]
    elif isinstance(o, Opaque):
        st.trace.append(("del_slice", o))
    else:
        raise _U()(f"del slice of {o!r}")


def del_item(ex, st, ref, idx):
    o = st.deref(ref)
    if isinstance(o, PList) and not is_sym(idx):
        del o.items[idx]
    elif isinstance(o, PDict) and not is_sym(idx):
        del o.items[idx]
    else:
        raise _U()(f"del item of {o!r}")


def unpack(ex, st, target, ref):
    U = _U()
    elts = target.elts
    v = st.deref(ref)
    if isinstance(v, Obj) and v.tuple_fields is not None:
        v = tuple(v.fields[k] for k in v.tuple_fields)
    if any(isinstance(e, ast.Starred) for e in elts):
        if isinstance(v, (tuple, PList, EagerGen)):
            items = list(v if isinstance(v, tuple) else v.items)
            si = [i for i, e in enumerate(elts) if isinstance(e, ast.Starred)][0]
            after = len(elts) - si - 1
            if len(items) < len(elts) - 1:
                yield ex.raise_(st, "ValueError")
                return
            vals = items[:si] + [st.alloc(PList(items[si:len(items) - after]))] + items[len(items) - after:]
            tg = [e.value if isinstance(e, ast.Starred) else e for e in elts]
            yield from _assign_all(ex, st, tg, vals)
            return
        raise U("starred unpack of symbolic value")
    if isinstance(v, (tuple, PList, EagerGen)):
        items = list(v if isinstance(v, tuple) else v.items)
        if len(items) != len(elts):
            yield ex.raise_(st, "ValueError")
            return
        yield from _assign_all(ex, st, elts, items)
        return
    if isinstance(v, SV) and isinstance(v.sort, tuple) and v.sort[0] == "tuple":
        Z = z3sort(v.sort)
        n = len(v.sort) - 1
        if n != len(elts):
            yield ex.raise_(st, "ValueError")
            return
        items = [SV(v.sort[1 + i], z3.simplify(Z.accessor(0, i)(v.t))) for i in range(n)]
        yield from _assign_all(ex, st, elts, items)
        return
    if isinstance(v, SV) and isinstance(v.sort, tuple) and v.sort[0] == "opt":
        for st1, w in ex.narrow(st, v):
            if w is None:
                yield ex.raise_(st1, "TypeError")
            else:
                yield from unpack(ex, st1, target, w)
        return
    if v is None or natural_sort(v) in ("int", "bool", "real"):
        yield ex.raise_(st, "TypeError")
        return
    if isinstance(v, Opaque):
        # an abstract iterable: wrong arity raises, otherwise its items are abstract values of it
        from .contracts import pure_result

        st2 = st.fork()
        yield ex.raise_(st2, "ValueError")
        items = [pure_result(ex, st, f"item{i}_of_{v.kind}", "u:Any", [v]) for i in range(len(elts))]
        yield from _assign_all(ex, st, elts, items)
        return
    raise U(f"unpack of {v!r}")


def _assign_all(ex, st, targets, vals):
    if not targets:
        yield st, None
        return
    for st1, r in ex.assign(st, targets[0], vals[0]):
        if isinstance(r, Exc):
            yield st1, r
        else:
            yield from _assign_all(ex, st1, targets[1:], vals[1:])


def list_extend(ex, st, ref, other):
    lst = st.deref(ref)
    other = st.deref(other)
    _mutable_check(ex, st, lst)
    if isinstance(other, (PList, EagerGen)):
        lst.items.extend(other.items)
    elif isinstance(other, tuple):
        lst.items.extend(other)
    elif isinstance(other, SSeq) and isinstance(lst, PList) and not lst.items:
        # an empty list extended by a symbolic sequence holds exactly that sequence (a later mutation of it is
        # outside the subset and reported as unsupported)
        st.heap[ref.addr] = other
    else:
        raise _U()("extend with symbolic iterable")


# ---------------------------------------------------------------------------
# external (non-repo) module attributes
# ---------------------------------------------------------------------------
EXTERNAL_CLASSES = {
    ("xml.etree.ElementTree", "QName"), ("decimal", "Decimal"), ("enum", "Enum"), ("enum", "EnumMeta"),
    ("datetime", "date"), ("datetime", "datetime"), ("datetime", "time"), ("datetime", "timezone"),
    ("datetime", "timedelta"), ("collections", "UserString"), ("collections", "UserList"),
    ("typing", "NamedTuple"), ("decimal", "InvalidOperation"), ("binascii", "Error"),
}


def external_attr(ex, modname, attr):
    if modname == "string" and attr in ("digits", "ascii_letters", "ascii_lowercase", "ascii_uppercase", "punctuation", "whitespace"):
        import string

        return getattr(string, attr)
    if modname == "sys" and attr == "intern":
        return BuiltinRef("sys.intern")
    if modname == "typing" and attr == "cast":
        return BuiltinRef("typing.cast")
    if (modname, attr) in EXTERNAL_CLASSES:
        return ClassRef(modname, attr)
    if modname in ("typing", "collections.abc", "abc", "types", "__future__"):
        return TypeRef(f"{modname}.{attr}")
    if modname == "contextlib" and attr == "suppress":
        return BuiltinRef("suppress")
    return BuiltinRef(f"{modname}.{attr}")


# ---------------------------------------------------------------------------
# calls of builtins and methods of builtin types
# ---------------------------------------------------------------------------
BUILTIN_FUNCS = {
    "len", "int", "str", "isinstance", "divmod", "bool", "any", "all", "callable", "type", "repr", "min",
    "max", "abs", "ord", "chr", "list", "tuple", "dict", "set", "sorted", "enumerate", "zip", "map",
    "filter", "getattr", "hasattr", "float", "range", "print", "id", "iter", "next", "issubclass", "sum",
    "setattr", "format", "hash", "frozenset", "super", "round",
}


def call_type(ex, st, f: TypeRef, args, kwargs):
    yield from call_builtin(ex, st, BuiltinRef(f.name), args, kwargs)


def iter_values(ex, st, ref):
    """Concrete-length iteration: list of item values, or None if not concrete."""
    v = st.deref(ref)
    if isinstance(v, Obj) and v.tuple_fields is not None:
        return [v.fields[k] for k in v.tuple_fields]
    if isinstance(v, (PList, EagerGen)):
        return list(v.items)
    if isinstance(v, tuple):
        return list(v)
    if isinstance(v, PSet):
        return sorted(v.items, key=repr)
    if isinstance(v, frozenset):
        return sorted(v, key=repr)
    if isinstance(v, PDict):
        return list(v.items.keys())
    if isinstance(v, str):
        return list(v)
    if isinstance(v, SV) and v.sort == "str" and v.char:
        return [v]
    if isinstance(v, ClassRef) and is_enum(ex, v):
        return list(enum_members(ex, v).values())
    if isinstance(v, Kwargs) and not v.open:
        return list(v.known.keys())
    return None


def isinstance_check(ex, st, ref, tp):
    """Concrete bool, SV bool, or raise Unsupported."""
    U = _U()
    if isinstance(tp, tuple):
        parts = [isinstance_check(ex, st, ref, t) for t in tp]
        if all(isinstance(p, bool) for p in parts):
            return any(parts)
        return _wrap_bool(z3.Or(*[_z(p) for p in parts]))
    v = st.deref(ref)
    name = tp.name if isinstance(tp, TypeRef) else (tp.qualname if isinstance(tp, ClassRef) else None)
    if name is None:
        if isinstance(tp, Opaque) and isinstance(v, Opaque):
            # dynamic class object: membership is an uninterpreted relation between value and class
            f = ex.uf(f"isinstance_dyn_{v.kind}_{tp.kind}", z3sort(("u", v.kind)), z3sort(("u", tp.kind)), z3.BoolSort())
            return SV("bool", f(v.t, tp.t))
        if isinstance(tp, Opaque):
            # an abstract class object (or tuple of classes): nothing is known about the answer - an arbitrary truth
            # value (for a value with a term: a function of value and class object)
            if isinstance(v, SV) and hasattr(v, "t"):
                tag = v.sort[1] if isinstance(v.sort, tuple) and v.sort[0] == "u" else str(v.t.sort()).replace(" ", "_")
                f = ex.uf(f"isinstance_dyn_{tag}_{tp.kind}", v.t.sort(), z3sort(("u", tp.kind)), z3.BoolSort())  # same name as for an Opaque of that kind
                return SV("bool", f(v.t, tp.t))
            if isinstance(v, (str, bytes, int, float, bool)) or v is None:
                # a concrete value: the answer is a function of (that value, class object) - the same at every evaluation
                f = ex.uf(f"isinstance_dyn_const_{tp.kind}", z3.StringSort(), z3sort(("u", tp.kind)), z3.BoolSort())
                return SV("bool", f(z3.StringVal(f"{type(v).__name__}:{v!r}"), tp.t))
            from .values import fresh
            return fresh("bool", "isinstance_dyn")
        raise U(f"isinstance against {tp!r}")
    name = name.split(".")[-1]
    if isinstance(v, SV) and isinstance(v.sort, tuple) and v.sort[0] == "opt":
        Z = z3sort(v.sort)
        if name in ("object",):
            return True
        inner = isinstance_check(ex, st, SV(v.sort[1], Z.val(v.t)), tp)
        return _wrap_bool(z3.And(Z.is_some(v.t), _z(inner)))
    if name == "object":
        return True
    s = natural_sort(v)
    if s is not None and not isinstance(s, tuple):
        table = {"int": {"int"}, "bool": {"int", "bool"}, "str": {"str"}, "real": {"float"}}
        return name in table[s]
    if isinstance(s, tuple) and s[0] == "tuple":
        return name == "tuple"
    if v is None:
        return name == "NoneType"
    if isinstance(v, tuple):
        return name in ("tuple", "Sequence", "Iterable")
    if isinstance(v, (PList,)):
        return name in ("list", "Sequence", "Iterable")
    if isinstance(v, (PDict, SDict)):
        return name in ("dict", "Mapping")
    if isinstance(v, PSet):
        return name in ("set",)
    if isinstance(v, SSeq):
        return name in ("Sequence", "Iterable", getattr(v, "pytype", "list"))
    if isinstance(v, ExcVal):
        return is_exc_subclass(v.cls, name)
    if isinstance(v, (Obj, EnumMember)):
        cref = ClassRef(*v.cls.split(":")) if isinstance(v, Obj) else v.cls
        names = [c.qualname.split(".")[-1] for c in class_mro(ex, cref)] + class_base_names(ex, cref)
        if name in names:
            return True
        if name == "tuple" and "NamedTuple" in names:
            return True
        if name == "str" and "UserString" in names:
            return False
        return False
    if isinstance(v, Opaque):
        spec = ex.db.opaque_isinstance(v.kind, name)
        if spec is not None:
            if isinstance(spec, bool):
                return spec
            f = ex.uf(f"isinstance_{v.kind}_{name}", z3sort(("u", v.kind)), z3.BoolSort())
            group = ex.db.exclusive_types.get(v.kind, ())
            if name in group:
                for other in group:
                    if other != name and ex.db.opaque_isinstance(v.kind, other) == "uf":
                        g = ex.uf(f"isinstance_{v.kind}_{other}", z3sort(("u", v.kind)), z3.BoolSort())
                        axiom(z3.Not(z3.And(f(v.t), g(v.t))))
            return SV("bool", f(v.t))
        raise U(f"isinstance of opaque {v.kind} against {name}")
    if isinstance(v, (ClassRef, TypeRef)):
        if name == "type":
            return True
        return name == "EnumMeta" and isinstance(v, ClassRef) and is_enum(ex, v)
    if isinstance(v, (FuncRef, Closure, BuiltinRef)):
        return name in ("Callable",)
    if isinstance(v, (EagerGen,)):
        return name in ("Iterator", "Iterable", "Generator")
    raise U(f"isinstance of {v!r} against {name}")


PY_INT_OK = z3.Function("py_int_ok", z3.StringSort(), z3.BoolSort())
PY_INT_VAL = z3.Function("py_int_val", z3.StringSort(), z3.IntSort())
RE_SIGNED = z3.Concat(z3.Option(z3.Union(z3.Re("+"), z3.Re("-"))), RE_DIGITS)


def int_of_signed_instance(c, sg, d):
    """Trusted fact about int(): a stripped text ``sg ++ d`` with sg in {'', '+', '-'} and d ASCII digits
    parses, and its value is +/- the value of d."""
    return z3.Implies(
        z3.And(c == z3.Concat(sg, d), z3.Or(sg == z3.StringVal(""), sg == z3.StringVal("+"), sg == z3.StringVal("-")),
               z3.InRe(d, RE_DIGITS)),
        z3.And(PY_INT_OK(c), PY_INT_VAL(c) == z3.If(sg == z3.StringVal("-"), -z3.StrToInt(d), z3.StrToInt(d))))


def model_int_of_str(ex, st, s):
    """int(str): exact on ws* [+-]?[0-9]+ ws*; any other text either raises ValueError or yields an
    unconstrained int (underscores, non-ASCII digits): py_int_ok / py_int_val are uninterpreted."""
    if isinstance(s, str):
        try:
            yield st, int(s)
        except ValueError:
            yield ex.raise_(st, "ValueError")
        return
    c = strip_term(s.t, "int")
    axiom(z3.Implies(z3.InRe(s.t, RE_SIGNED), c == s.t))  # a signed numeral has nothing to strip
    axiom(z3.Implies(z3.InRe(c, RE_SIGNED), PY_INT_OK(c)))
    axiom(z3.Implies(z3.InRe(c, RE_DIGITS), PY_INT_VAL(c) == z3.StrToInt(c)))
    for st1, ok in ex.branch(st, _wrap_bool(PY_INT_OK(c))):
        if ok:
            yield st1, SV("int", PY_INT_VAL(c))
        else:
            yield ex.raise_(st1, "ValueError")


def call_builtin(ex, st, f: BuiltinRef, args, kwargs):
    from . import builtins_calls as bc

    yield from bc.dispatch(ex, st, f, args, kwargs)


def call_opaque(ex, st, f, args, kwargs):
    from . import builtins_calls as bc

    yield from bc.call_opaque(ex, st, f, args, kwargs)


def construct(ex, st, cref: ClassRef, args, kwargs):
    from . import builtins_calls as bc

    yield from bc.construct(ex, st, cref, args, kwargs)


def comprehension(ex, st, node, kind):
    from . import builtins_calls as bc

    yield from bc.comprehension(ex, st, node, kind)


def _sf_isinstance(ex, st, node):
    for st1, vs in ex.ev_list(node.args, st):
        if isinstance(vs, Exc):
            yield st1, vs
        else:
            yield st1, isinstance_check(ex, st1, vs[0], vs[1])


SYNTAX_FORMS = {"isinstance": _sf_isinstance}
SPEC_FORMS = {"old", "implies", "forall", "exists", "ite"}
