"""Memoised functions (functools.lru_cache / functools.cache) and the adequacy of their cache keys.

A memoised function returns, for arguments that compare *equal* (== and same hash) to arguments seen before, the
result computed for those earlier arguments.  For a pure function this is invisible exactly when equal arguments give
equal results.  Python equality relates values of different types (1 == 1.0 == True == Decimal(1)), so a memoised
function whose parameter admits several numeric types makes its result depend on which of two equal values the
process saw first - a history dependence (C14).

Every run scans the current source of /repo for memoised functions and
  * lists those whose parameters are annotated with types on which == relates only identical values (str, bytes, type,
    None): nothing to prove about the key (their purity is a matter of their own contracts);
  * generates, for every parameter that admits two numeric types, a *harness* `f(a), f(b)` with a of the one type, b of
    the other, pre-condition a == b and post-condition "same result" - an obligation of the ordinary kind, discharged or
    refuted (with the equal pair as counterexample) by the solver;
  * reports a parameter it cannot classify (no annotation, Any, a type outside the two lists) as an obligation that is
    not discharged.
"""
import ast
from pathlib import Path

from . import source

IDENTITY_TYPES = {"str", "bytes", "type", "None", "NoneType"}
NUMERIC_SORTS = {"int": "int", "float": "real", "bool": "bool"}


def _types_of(ann):
    if ann is None:
        return None
    text = ast.unparse(ann)
    for wrap in ("Optional[", "Union["):
        if text.startswith(wrap) and text.endswith("]"):
            text = text[len(wrap):-1] + ("|None" if wrap == "Optional[" else "")
    parts = [p.strip().strip('"').strip("'") for p in text.replace(",", "|").split("|")]
    return [p for p in parts if p]


def scan():
    """[(module, qualname, is_classmethod, [(param, types|None)])] for every memoised function of the repository."""
    out = []
    root = source.REPO / "xsdata"
    for path in sorted(root.rglob("*.py")):
        try:
            tree = ast.parse(path.read_text())
        except SyntaxError:
            continue
        modname = ".".join(path.relative_to(source.REPO).with_suffix("").parts)
        if modname.endswith(".__init__"):
            modname = modname[: -len(".__init__")]

        def visit(body, prefix):
            for node in body:
                if isinstance(node, ast.ClassDef):
                    visit(node.body, prefix + node.name + ".")
                elif isinstance(node, (ast.FunctionDef, ast.AsyncFunctionDef)):
                    decos = source.decorators(node)
                    if any(d.split(".")[-1] in ("lru_cache", "cache") for d in decos):
                        a = node.args
                        params = [(x.arg, _types_of(x.annotation)) for x in a.posonlyargs + a.args + a.kwonlyargs]
                        bound = "classmethod" in decos or (prefix and "staticmethod" not in decos)
                        if bound and params:
                            params = params[1:]
                        out.append((modname, prefix + node.name, params, bool(a.vararg or a.kwarg)))
                    visit(node.body, prefix + node.name + ".")
        visit(tree.body, "")
    return out


def classify(params, star):
    """'identity' | ('numeric', [(param, t1, t2)]) | ('unknown', reason)"""
    if star:
        return ("unknown", "*args / **kwargs are part of the key")
    pairs = []
    for name, types in params:
        if types is None:
            return ("unknown", f"parameter {name} has no annotation")
        nums = [t for t in types if t in NUMERIC_SORTS]
        rest = [t for t in types if t not in NUMERIC_SORTS and t not in IDENTITY_TYPES]
        if rest:
            return ("unknown", f"parameter {name}: == on {rest[0]} is not known to relate identical values only")
        if "int" in nums and "bool" not in nums:
            pass  # a bool is an int for isinstance, but the annotation does not invite it
        for i in range(len(nums)):
            for j in range(i + 1, len(nums)):
                pairs.append((name, nums[i], nums[j]))
    return ("numeric", pairs) if pairs else ("identity", None)


def harness_module():
    """Source text of the generated harness module `verif_memo` and the contracts to register for it."""
    lines = ['"""generated on every run by pyvc/memo.py from the memoised functions found in the repository source"""']
    specs, inventory = [], []
    for modname, qualname, params, star in scan():
        kind, info = classify(params, star)
        key = f"{modname}:{qualname}"
        if kind == "identity":
            inventory.append({"function": key, "key": "identity-typed parameters", "parameters": [f"{n}: {'|'.join(t)}" for n, t in params]})
            continue
        if kind == "unknown":
            inventory.append({"function": key, "key": "unclassified", "reason": info})
            fn = f"memo_key__{qualname.replace('.', '_')}__unclassified"
            lines += ["", "", f"def {fn}():", f"    return cache_key_of_{qualname.replace('.', '_')}_cannot_be_classified()  # {info}"]
            specs.append({"name": fn, "function": key, "reason": info, "sorts": None})
            continue
        head = qualname.split(".")[0]
        lines.append(f"from {modname} import {head}")
        for pname, t1, t2 in info:
            fn = f"memo_key__{qualname.replace('.', '_')}__{pname}__{t1}_{t2}"
            others = [n for n, _ in params if n != pname]

            def call(v):
                return f"{qualname}({', '.join(v if n == pname else n for n, _ in params)})"

            lines += ["", "", f"def {fn}({', '.join(['a', 'b'] + others)}):", f"    return {call('a')}, {call('b')}"]
            specs.append({"name": fn, "function": key, "param": pname, "sorts": (NUMERIC_SORTS[t1], NUMERIC_SORTS[t2]), "types": (t1, t2),
                          "others": [(n, NUMERIC_SORTS.get((t or ['str'])[0], "str")) for n, t in params if n != pname]})
            inventory.append({"function": key, "key": f"parameter {pname} admits {t1} and {t2}: equal values of both types share a cache entry"})
    return "\n".join(lines) + "\n", specs, inventory
