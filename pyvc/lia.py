"""Linear-arithmetic abstraction of path conditions: a cheap, deterministic entailment oracle.

``entails(pc, cond)`` answers "do the assumptions force ``cond``?" over an abstraction in which every
non-arithmetic atom (regex membership, string equality, uninterpreted predicate, quantifier) is replaced
*consistently* by a fresh Boolean, every non-arithmetic integer term (str.to_int, indexof, uninterpreted
function application) by a fresh integer, and string lengths are interpreted structurally (length of a
concatenation is the sum, of a literal its size, of a substring the clamped length).  Any model of the real
assumptions induces a model of the abstraction, so an abstract ``unsat`` is a real one: ``True`` answers are
sound, ``False`` means "not shown".

Used to keep index/slice terms free of clamping case splits when the bounds are already known on the path
(``value[start:vidx]`` with ``0 <= start <= vidx <= len(value)``) and to prune arithmetic-infeasible branches
before the string solver is asked.  No string theory is involved, so answers are fast and do not depend on
machine load (resource limit, not wall clock).
"""
from __future__ import annotations

import z3

RLIMIT = 2_000_000


class _Abs:
    def __init__(self):
        self.cache = {}  # ast id -> (term kept alive, abstraction)
        self.side = []  # side constraints of the abstraction (lengths are natural numbers, ...)
        self.n = 0

    def fresh(self, sort):
        self.n += 1
        return z3.Const(f"lia!{self.n}", sort)

    # -------------------------------------------------------------- Bool
    def b(self, t):
        key = ("b", t.get_id())
        hit = self.cache.get(key)
        if hit is not None:
            return hit[1]
        r = self._b(t)
        self.cache[key] = (t, r)
        return r

    def _b(self, t):
        if z3.is_quantifier(t) or not z3.is_app(t):
            return self.fresh(z3.BoolSort())
        k = t.decl().kind()
        ch = t.children()
        if z3.is_true(t) or z3.is_false(t):
            return t
        if k == z3.Z3_OP_AND:
            return z3.And([self.b(c) for c in ch])
        if k == z3.Z3_OP_OR:
            return z3.Or([self.b(c) for c in ch])
        if k == z3.Z3_OP_NOT:
            return z3.Not(self.b(ch[0]))
        if k == z3.Z3_OP_IMPLIES:
            return z3.Implies(self.b(ch[0]), self.b(ch[1]))
        if k == z3.Z3_OP_XOR:
            return z3.Xor(self.b(ch[0]), self.b(ch[1]))
        if k == z3.Z3_OP_ITE:
            return z3.If(self.b(ch[0]), self.b(ch[1]), self.b(ch[2]))
        if k in (z3.Z3_OP_EQ, z3.Z3_OP_IFF):
            a, c = ch
            if z3.is_bool(a):
                return self.b(a) == self.b(c)
            if z3.is_int(a):
                return self.i(a) == self.i(c)
            if z3.is_string(a):
                atom = self.fresh(z3.BoolSort())
                self.side.append(z3.Implies(atom, self.length(a) == self.length(c)))
                return atom
            return self.fresh(z3.BoolSort())
        if k == z3.Z3_OP_DISTINCT and len(ch) == 2 and z3.is_int(ch[0]):
            return self.i(ch[0]) != self.i(ch[1])
        if k in (z3.Z3_OP_LE, z3.Z3_OP_LT, z3.Z3_OP_GE, z3.Z3_OP_GT) and z3.is_int(ch[0]) and z3.is_int(ch[1]):
            a, c = self.i(ch[0]), self.i(ch[1])
            return {z3.Z3_OP_LE: a <= c, z3.Z3_OP_LT: a < c, z3.Z3_OP_GE: a >= c, z3.Z3_OP_GT: a > c}[k]
        return self.fresh(z3.BoolSort())

    # -------------------------------------------------------------- Int
    def i(self, t):
        key = ("i", t.get_id())
        hit = self.cache.get(key)
        if hit is not None:
            return hit[1]
        r = self._i(t)
        self.cache[key] = (t, r)
        return r

    def _i(self, t):
        if z3.is_int_value(t):
            return t
        if not z3.is_app(t):
            return self.fresh(z3.IntSort())
        k = t.decl().kind()
        ch = t.children()
        if k == z3.Z3_OP_UNINTERPRETED and not ch:
            return t
        if k == z3.Z3_OP_ADD:
            return z3.Sum([self.i(c) for c in ch])
        if k == z3.Z3_OP_SUB:
            r = self.i(ch[0])
            for c in ch[1:]:
                r = r - self.i(c)
            return r
        if k == z3.Z3_OP_UMINUS:
            return -self.i(ch[0])
        if k == z3.Z3_OP_MUL:
            parts = [self.i(c) for c in ch]
            if sum(1 for p in parts if not z3.is_int_value(p)) <= 1:
                r = parts[0]
                for p in parts[1:]:
                    r = r * p
                return r
            return self.fresh(z3.IntSort())
        if k in (z3.Z3_OP_IDIV, z3.Z3_OP_MOD) and z3.is_int_value(ch[1]) and ch[1].as_long() != 0:
            a = self.i(ch[0])
            return a / ch[1] if k == z3.Z3_OP_IDIV else a % ch[1]
        if k == z3.Z3_OP_ITE:
            return z3.If(self.b(ch[0]), self.i(ch[1]), self.i(ch[2]))
        if k == z3.Z3_OP_SEQ_LENGTH:
            return self.length(ch[0])
        v = self.fresh(z3.IntSort())
        if k in (z3.Z3_OP_SEQ_INDEX, z3.Z3_OP_SEQ_LAST_INDEX, z3.Z3_OP_STR_TO_INT, z3.Z3_OP_STR_TO_CODE):
            self.side.append(v >= -1)
        return v

    # -------------------------------------------------------------- length of a string term
    def length(self, s):
        key = ("l", s.get_id())
        hit = self.cache.get(key)
        if hit is not None:
            return hit[1]
        r = self._length(s)
        self.cache[key] = (s, r)
        return r

    def _length(self, s):
        if z3.is_string_value(s):
            return z3.IntVal(len(s.as_string()) if _plain(s) else _strlen(s))
        if z3.is_app(s):
            k = s.decl().kind()
            ch = s.children()
            if k == z3.Z3_OP_SEQ_CONCAT:
                return z3.Sum([self.length(c) for c in ch])
            if k == z3.Z3_OP_ITE:
                return z3.If(self.b(ch[0]), self.length(ch[1]), self.length(ch[2]))
            if k == z3.Z3_OP_SEQ_EXTRACT:
                n, off, ln = self.length(ch[0]), self.i(ch[1]), self.i(ch[2])
                rem = n - off
                return z3.If(z3.Or(off < 0, off >= n, ln <= 0), 0, z3.If(ln < rem, ln, rem))
            if k == z3.Z3_OP_SEQ_AT:
                n, off = self.length(ch[0]), self.i(ch[1])
                return z3.If(z3.And(off >= 0, off < n), 1, 0)
        v = self.fresh(z3.IntSort())
        self.side.append(v >= 0)
        return v


def _plain(s):
    try:
        txt = s.as_string()
    except Exception:
        return False
    return "\\u" not in txt


def _strlen(s):
    # string literal with escapes: ask z3 for the length
    return z3.simplify(z3.Length(s)).as_long()


_ABS = _Abs()


def reset():
    global _ABS
    _ABS = _Abs()


def _solver(premises):
    s = z3.SolverFor("QF_LIA")
    s.set("rlimit", RLIMIT)
    for p in premises:
        if z3.is_quantifier(p):
            continue
        s.add(_ABS.b(p))
    return s


def entails(premises, cond) -> bool:
    """True only if the LIA abstraction of ``premises`` entails ``cond`` (sound, incomplete)."""
    try:
        goal = _ABS.b(cond)
        s = _solver(premises)
        s.add(z3.Not(goal))
        s.add(*_ABS.side)
        return s.check() == z3.unsat
    except z3.Z3Exception:
        return False


def infeasible(premises) -> bool:
    """True only if the LIA abstraction of ``premises`` is unsatisfiable (then the real ones are)."""
    try:
        s = _solver(premises)
        s.add(*_ABS.side)
        return s.check() == z3.unsat
    except z3.Z3Exception:
        return False
