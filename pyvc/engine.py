"""Typed symbolic executor for the subset of Python described in DESIGN.md §2.2.

Forward, path by path.  Every expression evaluation is a generator of
``(state, value)`` pairs; ``value`` may be an ``Exc`` marker.  States are forked by
deep copy, so heap aliasing inside one state is ordinary Python aliasing.
"""
from __future__ import annotations

import ast
import copy
import operator

import z3

from . import builtins_model as bm
from .source import SourceError, get_def, is_exc_subclass, load_module
from .values import (
    SV,
    BuiltinRef,
    ClassRef,
    Closure,
    Exc,
    ExcVal,
    EnumMember,
    Frame,
    FuncRef,
    HeapObj,
    ModuleRef,
    Obj,
    Opaque,
    PDict,
    PList,
    PSet,
    Ref,
    SDict,
    TypeRef,
    fresh,
    fresh_name,
    is_sym,
    lift,
    natural_sort,
    new_addr,
    parse_sort,
    z3sort,
)


class Unsupported(Exception):
    """Construct outside the supported subset (=> undecided, never a violation)."""


class NeedsContract(Unsupported):
    pass


class State:
    def __init__(self):
        self.pc: list = []
        self.heap: dict[int, HeapObj] = {}
        self.frames: list[Ref] = []
        self.trace: list = []  # ghost call trace: (name, args...)
        self.ghost: dict = {}
        self.old = None  # (heap snapshot, frame ref) of the pre-state for old(...)
        self.notes: list = []

    # heap ---------------------------------------------------------------
    def alloc(self, obj: HeapObj) -> Ref:
        a = new_addr()
        self.heap[a] = obj
        return Ref(a)

    def get(self, ref: Ref):
        return self.heap[ref.addr]

    def deref(self, v):
        return self.heap[v.addr] if isinstance(v, Ref) else v

    @property
    def fr(self) -> Frame:
        return self.heap[self.frames[-1].addr]

    def push_frame(self, frame: Frame) -> Ref:
        r = self.alloc(frame)
        self.frames.append(r)
        return r

    def pop_frame(self) -> Frame:
        r = self.frames.pop()
        return self.heap[r.addr]

    def fork(self) -> "State":
        c = State.__new__(State)
        c.pc = list(self.pc)
        c.heap = {a: o.clone() for a, o in self.heap.items()}
        c.frames = list(self.frames)
        c.trace = list(self.trace)
        c.ghost = dict(self.ghost)
        c.old = self.old
        c.notes = list(self.notes)
        return c

    def assume(self, t):
        if isinstance(t, bool):
            if not t:
                self.pc.append(z3.BoolVal(False))
            return
        if isinstance(t, SV):
            t = t.t
        self.pc.append(t)

    def import_value(self, v, src_heap, memo=None):
        """Copy the object graph reachable from ``v`` in ``src_heap`` into this heap."""
        memo = {} if memo is None else memo
        if isinstance(v, Ref):
            if v.addr in memo:
                return memo[v.addr]
            o = src_heap[v.addr].clone()
            r = self.alloc(o)
            memo[v.addr] = r
            if isinstance(o, PList):
                o.items = [self.import_value(x, src_heap, memo) for x in o.items]
            elif isinstance(o, PDict):
                o.items = {k: self.import_value(x, src_heap, memo) for k, x in o.items.items()}
            elif isinstance(o, Obj):
                o.fields = {k: self.import_value(x, src_heap, memo) for k, x in o.fields.items()}
            return r
        if isinstance(v, tuple):
            return tuple(self.import_value(x, src_heap, memo) for x in v)
        return v


FEAS_RLIMIT = int(__import__("os").environ.get("PYVC_FEAS_RLIMIT", "400000"))
_quant_cache: dict = {}


def _has_quantifier(t) -> bool:
    k = t.get_id()
    r = _quant_cache.get(k)
    if r is None:
        r = False
        stack, seen = [t], set()
        while stack:
            x = stack.pop()
            i = x.get_id()
            if i in seen:
                continue
            seen.add(i)
            if z3.is_quantifier(x):
                r = True
                break
            stack.extend(x.children())
        _quant_cache[k] = r
    return r


def cvc5_check(solver, seconds):
    """Second opinion on a z3 'unknown': dump the query and ask cvc5."""
    import os
    import subprocess
    import tempfile

    fd, path = tempfile.mkstemp(suffix=".smt2", prefix="pyvc-feas-")
    try:
        with os.fdopen(fd, "w") as fh:
            fh.write("(set-logic ALL)\n" + solver.to_smt2())
        out = subprocess.run(["/usr/bin/cvc5", "--strings-exp", f"--tlimit={int(seconds * 1000)}", path],
                             capture_output=True, text=True, timeout=seconds + 5).stdout.strip()
    except Exception:
        out = ""
    finally:
        try:
            os.unlink(path)
        except OSError:
            pass
    first = out.splitlines()[0] if out else ""
    return {"unsat": z3.unsat, "sat": z3.sat}.get(first, z3.unknown)


def hard_check(solver, seconds):
    """solver.check() with a watchdog: z3's own timeout is not always honoured by the string solver."""
    import threading

    ctx = solver.ctx
    timer = threading.Timer(seconds + 0.5, ctx.interrupt)
    timer.start()
    try:
        return solver.check()
    except z3.Z3Exception:
        return z3.unknown
    finally:
        timer.cancel()


class Obligation:
    def __init__(self, name, kind, pc, goal, st=None, info=None):
        self.name = name
        self.kind = kind
        self.pc = list(pc)
        self.goal = goal  # z3 Bool that must follow from pc
        self.info = info or {}
        self.st = st


BIN_OPS = {
    ast.Add: operator.add,
    ast.Sub: operator.sub,
    ast.Mult: operator.mul,
    ast.FloorDiv: operator.floordiv,
    ast.Mod: operator.mod,
    ast.Div: operator.truediv,
    ast.Pow: operator.pow,
}
CMP_OPS = {
    ast.Eq: operator.eq,
    ast.NotEq: operator.ne,
    ast.Lt: operator.lt,
    ast.LtE: operator.le,
    ast.Gt: operator.gt,
    ast.GtE: operator.ge,
}

BUILTIN_TYPES = {"int", "str", "bool", "float", "list", "tuple", "dict", "set", "bytes", "object", "type", "frozenset"}
BUILTIN_EXC = {
    "ValueError", "TypeError", "KeyError", "IndexError", "AttributeError", "AssertionError",
    "Exception", "BaseException", "StopIteration", "RuntimeError", "NotImplementedError",
    "ArithmeticError", "ZeroDivisionError", "LookupError", "SyntaxError", "OverflowError",
    "UnicodeEncodeError", "UnicodeError", "OSError", "ImportError", "RecursionError",
}


class Exec:
    def __init__(self, db, feas_timeout_ms=1000):
        self.db = db  # ContractDB
        self.obligations: list[Obligation] = []
        self.feas_timeout_ms = feas_timeout_ms
        self.cur_contract = None
        self.inlined: set[str] = set()
        self.assumed_calls: set[str] = set()
        self.n_feas = 0
        self.spec_mode = 0
        self.call_counts = {}
        self.uf_cache: dict = {}

    # ------------------------------------------------------------------ solver helpers
    def feasible(self, pc, deep=False) -> bool:
        """Cheap path pruning.  Quantified assumptions are dropped (z3 is erratic on satisfiable
        quantified problems); ``deep`` adds them back with a larger budget.  Keeping an infeasible
        path is always sound: its obligations are discharged under the full path condition."""
        self.n_feas += 1
        from . import lia

        if lia.infeasible(list(bm.AXIOMS) + list(pc)):
            return False
        s = z3.Solver()
        budget = self.feas_timeout_ms * (2 if deep else 1)
        s.set("timeout", budget * 3)
        # a deterministic resource limit decides the answer, the wall-clock limit is only a safety net:
        # verdicts must not depend on how busy the machine is
        s.set("rlimit", FEAS_RLIMIT * (2 if deep else 1))
        if deep:
            s.add(*bm.AXIOMS)
            s.add(*pc)
        else:
            # tracked assertions: switches off z3's equation-elimination pre-processing, which is what the
            # string obligations of the scanners get lost in (same problem, other strategy)
            s.set(unsat_core=True)
            for i, p in enumerate([p for p in list(bm.AXIOMS) + list(pc) if not _has_quantifier(p)]):
                s.assert_and_track(p, f"trk!{i}")
        r = hard_check(s, budget * 3 / 1000.0)
        if deep and r == z3.unknown:
            r = cvc5_check(s, 4.0)
        return r != z3.unsat

    def give_up(self, st, msg):
        """Raise Unsupported unless the current path is infeasible under the full path condition."""
        if self.feasible(st.pc, deep=True):
            raise Unsupported(msg)

    def branch(self, st: State, cond):
        """Yield (state, bool) for every feasible truth value of ``cond``."""
        if not isinstance(cond, SV):
            yield st, bool(cond)
            return
        t = z3.simplify(cond.t)
        if z3.is_true(t):
            yield st, True
            return
        if z3.is_false(t):
            yield st, False
            return
        if self.spec_mode:
            # contract clauses are loop free: explore both sides, infeasible paths vanish in the merge
            can_t = can_f = True
        else:
            can_t = self.feasible(st.pc + [t])
            # the current path is feasible, so if one side is impossible the other one is not
            can_f = True if not can_t else self.feasible(st.pc + [z3.Not(t)])
        if can_t and can_f:
            st2 = st.fork()
            st.pc.append(t)
            st2.pc.append(z3.Not(t))
            yield st, True
            yield st2, False
        elif can_t:
            st.pc.append(t)
            yield st, True
        elif can_f:
            st.pc.append(z3.Not(t))
            yield st, False

    def oblige(self, st, name, kind, goal, info=None):
        if isinstance(goal, SV):
            goal = goal.t
        if isinstance(goal, bool):
            goal = z3.BoolVal(goal)
        for o in self.obligations:
            # identical goal under an identical path condition: keep one
            if o.name == name and len(o.pc) == len(st.pc) and o.goal.eq(goal) and all(a.eq(b) for a, b in zip(o.pc, st.pc)):
                return
        self.obligations.append(Obligation(name, kind, st.pc, goal, st=None, info=info))

    def uf(self, name, *sorts):
        key = (name, tuple(str(s) for s in sorts))
        if key not in self.uf_cache:
            self.uf_cache[key] = z3.Function(name, *sorts)
        return self.uf_cache[key]

    # ------------------------------------------------------------------ raising helpers
    def raise_(self, st, cls, *args):
        e = ExcVal(cls, args)
        e.where = st.ghost.get("at")
        return st, Exc(e)

    # ------------------------------------------------------------------ truthiness / narrowing
    def truthy(self, st, v):
        """Concrete bool or SV(bool)."""
        v = st.deref(v)
        if isinstance(v, SV):
            s = v.sort
            if s == "bool":
                return v
            if s == "int":
                return SV("bool", v.t != 0)
            if s == "real":
                return SV("bool", v.t != 0)
            if s == "str":
                return SV("bool", z3.Length(v.t) > 0)
            if isinstance(s, tuple) and s[0] == "opt":
                Z = z3sort(s)
                inner = self.truthy(st, SV(s[1], Z.val(v.t)))
                it = inner.t if isinstance(inner, SV) else z3.BoolVal(bool(inner))
                return SV("bool", z3.And(Z.is_some(v.t), it))
            if isinstance(s, tuple) and s[0] == "tuple":
                return len(s) > 1
            raise Unsupported(f"truthiness of sort {s}")
        if isinstance(v, PList):
            return len(v.items) > 0
        if isinstance(v, PDict):
            return len(v.items) > 0
        if isinstance(v, PSet):
            return len(v.items) > 0
        if isinstance(v, SDict):
            return SV("bool", v.n > 0)
        if type(v).__name__ == "SSet":
            raise Unsupported("truthiness of symbolic set")
        if isinstance(v, bm.SSeq):
            return SV("bool", v.n > 0)
        if isinstance(v, Opaque):
            if v.kind in self.db.always_truthy:
                return True
            f = self.uf("truthy_" + v.kind, z3sort(("u", v.kind)), z3.BoolSort())
            return SV("bool", f(v.t))
        if isinstance(v, (Obj, FuncRef, ClassRef, BuiltinRef, Closure, TypeRef, ModuleRef, ExcVal, EnumMember)):
            return True
        if isinstance(v, (bm.EagerGen,)):
            return True
        if type(v).__name__ in ("RegexVal", "MatchVal"):
            return True
        if isinstance(v, bm.Kwargs):
            if v.open:
                raise Unsupported("truthiness of open kwargs")
            return bool(v.known)
        if isinstance(v, (int, str, float, tuple, bytes, frozenset)) or v is None:
            return bool(v)
        raise Unsupported(f"truthiness of {v!r}")

    def narrow(self, st, v):
        """Fork an opt-sorted SV into its None / Some alternatives."""
        if isinstance(v, SV) and isinstance(v.sort, tuple) and v.sort[0] == "opt":
            Z = z3sort(v.sort)
            for st1, is_none in self.branch(st, SV("bool", Z.is_none(v.t))):
                if is_none:
                    yield st1, None
                else:
                    yield from self.narrow(st1, SV(v.sort[1], z3.simplify(Z.val(v.t))))
        else:
            yield st, v

    # ------------------------------------------------------------------ name resolution
    def lookup(self, st: State, name: str):
        fr = st.fr
        env = fr.env
        if name in env:
            return env[name]
        p = fr.parent
        while p is not None:
            pf = st.get(p)
            if name in pf.env:
                return pf.env[name]
            p = pf.parent
        return self.module_attr(fr.modname, name, st)

    def module_attr(self, modname: str, name: str, st=None):
        if modname == "builtins":
            return self.builtin(name)
        ov = self.db.const_overrides.get((modname, name))
        if ov is not None:
            return ov
        mod = load_module(modname)
        if mod is None:
            return bm.external_attr(self, modname, name)
        if name in mod.defs:
            node = mod.defs[name]
            if isinstance(node, ast.ClassDef):
                return ClassRef(modname, name)
            return FuncRef(modname, name)
        if name in mod.assigns:
            return self.const_fold(modname, name, st)
        if name in mod.imports:
            src, attr = mod.imports[name]
            if attr is None:
                return ModuleRef(src)
            sub = load_module(src + "." + attr) if src.startswith("xsdata") else None
            target = load_module(src)
            if target is not None and (attr in target.defs or attr in target.assigns or attr in target.imports):
                return self.module_attr(src, attr, st)
            if sub is not None:
                return ModuleRef(src + "." + attr)
            if target is None:
                return bm.external_attr(self, src, attr)
            raise SourceError(f"{src}.{attr} not found (imported in {modname})")
        return self.builtin(name)

    def builtin(self, name):
        if name in BUILTIN_TYPES:
            return TypeRef(name)
        if name in BUILTIN_EXC:
            return ClassRef("builtins", name)
        if name in bm.BUILTIN_FUNCS:
            return BuiltinRef(name)
        if name == "NotImplemented":
            return Opaque("NotImplemented", z3.Const("NotImplemented", z3sort(("u", "NotImplemented"))))
        raise Unsupported(f"unknown name {name}")

    _const_cache: dict = {}

    def const_fold(self, modname: str, qualname: str, st=None):
        """Evaluate a module/class level constant from its source expression (every run)."""
        key = (modname, qualname)
        if key not in Exec._const_cache:
            mod = load_module(modname)
            expr = mod.assigns[qualname]
            scratch = State()
            scratch.push_frame(Frame(modname, {}, qualname="<module>"))
            res = list(self.ev(expr, scratch))
            if len(res) != 1 or isinstance(res[0][1], Exc):
                raise Unsupported(f"constant {modname}:{qualname} does not fold")
            st1, v = res[0]
            _freeze(st1, v)
            Exec._const_cache[key] = (v, st1.heap)
        v, heap = Exec._const_cache[key]
        if st is None:
            if isinstance(v, Ref) or (isinstance(v, tuple) and any(isinstance(x, Ref) for x in v)):
                raise Unsupported(f"heap constant {modname}:{qualname} read without a state")
            return v
        return st.import_value(v, heap)

    # ------------------------------------------------------------------ expressions
    def ev(self, node, st: State):
        m = getattr(self, "ev_" + type(node).__name__, None)
        if m is None:
            raise Unsupported(f"expression {type(node).__name__} at line {getattr(node,'lineno','?')}")
        yield from m(node, st)

    def ev_list(self, nodes, st):
        if not nodes:
            yield st, []
            return
        for st1, v in self.ev(nodes[0], st):
            if isinstance(v, Exc):
                yield st1, v
                continue
            for st2, rest in self.ev_list(nodes[1:], st1):
                if isinstance(rest, Exc):
                    yield st2, rest
                else:
                    yield st2, [v] + rest

    def ev_Constant(self, node, st):
        yield st, node.value

    def ev_Name(self, node, st):
        yield st, self.lookup(st, node.id)

    def ev_Tuple(self, node, st):
        if any(isinstance(e, ast.Starred) for e in node.elts):
            raise Unsupported("starred tuple")
        for st1, vs in self.ev_list(node.elts, st):
            yield st1, (vs if isinstance(vs, Exc) else tuple(vs))

    def ev_List(self, node, st):
        for st1, vs in self.ev_list(node.elts, st):
            yield st1, (vs if isinstance(vs, Exc) else st1.alloc(PList(vs)))

    def ev_Set(self, node, st):
        for st1, vs in self.ev_list(node.elts, st):
            if isinstance(vs, Exc):
                yield st1, vs
            else:
                if any(is_sym(v) for v in vs):
                    raise Unsupported("symbolic set literal")
                yield st1, st1.alloc(PSet(vs))

    def ev_Dict(self, node, st):
        if any(k is None for k in node.keys):
            raise Unsupported("dict unpacking")
        for st1, ks in self.ev_list(node.keys, st):
            if isinstance(ks, Exc):
                yield st1, ks
                continue
            for st2, vs in self.ev_list(node.values, st1):
                if isinstance(vs, Exc):
                    yield st2, vs
                    continue
                if any(is_sym(k) for k in ks):
                    raise Unsupported("symbolic dict literal key")
                yield st2, st2.alloc(PDict(dict(zip(ks, vs))))

    def ev_JoinedStr(self, node, st):
        parts = []
        for v in node.values:
            parts.append(v)

        def go(i, st, acc):
            if i == len(parts):
                yield st, bm.str_concat(acc)
                return
            p = parts[i]
            if isinstance(p, ast.Constant):
                yield from go(i + 1, st, acc + [p.value])
                return
            spec = None
            if p.format_spec is not None:
                if not all(isinstance(x, ast.Constant) for x in p.format_spec.values):
                    raise Unsupported("dynamic format spec")
                spec = "".join(x.value for x in p.format_spec.values)
            for st1, v in self.ev(p.value, st):
                if isinstance(v, Exc):
                    yield st1, v
                    continue
                for st2, s in bm.format_value(self, st1, v, spec, p.conversion):
                    if isinstance(s, Exc):
                        yield st2, s
                    else:
                        yield from go(i + 1, st2, acc + [s])

        yield from go(0, st, [])

    def ev_IfExp(self, node, st):
        for st1, c in self.ev(node.test, st):
            if isinstance(c, Exc):
                yield st1, c
                continue
            for st2, b in self.branch(st1, self.truthy(st1, c)):
                self.refine(st2, node.test, b)
                yield from self.ev(node.body if b else node.orelse, st2)

    def merge_bool(self, node, st):
        """Truthiness of ``node`` as ONE formula (all internal forks merged); st is not modified."""
        st0 = st.fork()
        base = len(st0.pc)
        disj = []
        for st1, v in self.ev(node, st0):
            if isinstance(v, Exc):
                if not self.feasible(st1.pc) or not self.feasible(st1.pc, deep=True):
                    continue
                raise Unsupported(f"contract sub-expression raises {v.exc.cls}: {ast.unparse(node)[:80]}")
            t = bm._z(self.truthy(st1, v))
            delta = st1.pc[base:]
            disj.append(z3.And(*delta, t) if delta else t)
        if not disj:
            return z3.BoolVal(False)
        return disj[0] if len(disj) == 1 else z3.Or(*disj)

    def ev_BoolOp(self, node, st):
        is_and = isinstance(node.op, ast.And)
        if self.spec_mode:
            # inside contract clauses and/or are logical connectives: build one formula, operand
            # i+1 is evaluated under the assumption that makes Python reach it
            parts = []
            cur = st
            for i, operand in enumerate(node.values):
                f = self.merge_bool(operand, cur)
                parts.append(f)
                fs = z3.simplify(f) if z3.is_expr(f) else f
                if (is_and and (fs is False or (z3.is_expr(fs) and z3.is_false(fs)))) or \
                        (not is_and and (fs is True or (z3.is_expr(fs) and z3.is_true(fs)))):
                    break  # the connective is decided: Python would not evaluate the remaining operands
                if i < len(node.values) - 1:
                    cur = cur.fork()
                    cur.pc.append(f if is_and else z3.Not(f))
            r = z3.And(*parts) if is_and else z3.Or(*parts)
            yield st, bm._wrap_bool(r)
            return

        def go(i, st):
            for st1, v in self.ev(node.values[i], st):
                if isinstance(v, Exc) or i == len(node.values) - 1:
                    yield st1, v
                    continue
                for st2, b in self.branch(st1, self.truthy(st1, v)):
                    self.refine(st2, node.values[i], b)
                    if b == is_and:
                        yield from go(i + 1, st2)
                    else:
                        yield st2, v

        yield from go(0, st)

    def ev_UnaryOp(self, node, st):
        for st1, v in self.ev(node.operand, st):
            if isinstance(v, Exc):
                yield st1, v
                continue
            if isinstance(node.op, ast.Not):
                t = self.truthy(st1, v)
                yield st1, (SV("bool", z3.Not(t.t)) if isinstance(t, SV) else (not t))
            elif isinstance(node.op, ast.USub):
                for st2, w in self.narrow(st1, v):
                    if w is None:
                        yield self.raise_(st2, "TypeError")
                    elif isinstance(w, SV):
                        if w.sort == "bool":
                            yield st2, SV("int", -lift(w, "int"))
                        else:
                            yield st2, SV(w.sort, -w.t)
                    else:
                        yield st2, -w
            elif isinstance(node.op, ast.UAdd):
                yield st1, v
            else:
                raise Unsupported("unary op")

    def ev_BinOp(self, node, st):
        for st1, vs in self.ev_list([node.left, node.right], st):
            if isinstance(vs, Exc):
                yield st1, vs
                continue
            yield from self.binop(st1, type(node.op), vs[0], vs[1])

    def binop(self, st, op, a, b):
        for st1, a1 in self.narrow(st, a):
            for st2, b1 in self.narrow(st1, b):
                yield from bm.binop(self, st2, op, a1, b1)

    def ev_Compare(self, node, st):
        def go(i, st, left):
            op = node.ops[i]
            for st1, right in self.ev(node.comparators[i], st):
                if isinstance(right, Exc):
                    yield st1, right
                    continue
                for st2, r in bm.compare(self, st1, type(op), left, right):
                    if isinstance(r, Exc) or i == len(node.ops) - 1:
                        yield st2, r
                        continue
                    for st3, b in self.branch(st2, self.truthy(st2, r)):
                        if b:
                            yield from go(i + 1, st3, right)
                        else:
                            yield st3, False

        for st0, left in self.ev(node.left, st):
            if isinstance(left, Exc):
                yield st0, left
            else:
                yield from go(0, st0, left)

    def ev_Attribute(self, node, st):
        for st1, v in self.ev(node.value, st):
            if isinstance(v, Exc):
                yield st1, v
            else:
                yield from self.getattr(st1, v, node.attr)

    def getattr(self, st, v, attr):
        yield from bm.getattr_(self, st, v, attr)

    def ev_Subscript(self, node, st):
        for st1, v in self.ev(node.value, st):
            if isinstance(v, Exc):
                yield st1, v
                continue
            if isinstance(node.slice, ast.Slice):
                parts = [node.slice.lower, node.slice.upper, node.slice.step]
                present = [p for p in parts if p is not None]
                for st2, pv in self.ev_list(present, st1):
                    if isinstance(pv, Exc):
                        yield st2, pv
                        continue
                    it = iter(pv)
                    lo, hi, step = [next(it) if p is not None else None for p in parts]
                    yield from bm.getslice(self, st2, v, lo, hi, step)
            else:
                for st2, idx in self.ev(node.slice, st1):
                    if isinstance(idx, Exc):
                        yield st2, idx
                    else:
                        yield from bm.getitem(self, st2, v, idx)

    def ev_Call(self, node, st):
        if any(isinstance(a, ast.Starred) for a in node.args):
            yield from self.ev_call_starred(node, st)
            return
        # special forms that must see syntax
        if isinstance(node.func, ast.Name) and node.func.id in bm.SYNTAX_FORMS and (
            node.func.id in bm.SPEC_FORMS or not self._shadowed(st, node.func.id)):
            yield from bm.SYNTAX_FORMS[node.func.id](self, st, node)
            return
        for st1, f in self.ev(node.func, st):
            if isinstance(f, Exc):
                yield st1, f
                continue
            argn = list(node.args)
            for st2, args in self.ev_gen_args(argn, st1):
                if isinstance(args, Exc):
                    yield st2, args
                    continue
                kwn = [k for k in node.keywords]
                if any(k.arg is None for k in kwn):
                    yield from self.ev_call_kwstar(st2, f, args, kwn)
                    continue
                for st3, kvs in self.ev_list([k.value for k in kwn], st2):
                    if isinstance(kvs, Exc):
                        yield st3, kvs
                        continue
                    kwargs = {k.arg: v for k, v in zip(kwn, kvs)}
                    yield from self.call(st3, f, args, kwargs, node)

    def ev_gen_args(self, argn, st):
        """Arguments; generator expressions are passed lazily as (node, frame) thunks."""
        if not argn:
            yield st, []
            return
        a = argn[0]
        if isinstance(a, ast.GeneratorExp):
            first = [(st, bm.GenThunk(a, st.frames[-1]))]
        else:
            first = self.ev(a, st)
        for st1, v in first:
            if isinstance(v, Exc):
                yield st1, v
                continue
            for st2, rest in self.ev_gen_args(argn[1:], st1):
                if isinstance(rest, Exc):
                    yield st2, rest
                else:
                    yield st2, [v] + rest

    def ev_call_starred(self, node, st):
        # f(*args) with args a concrete-length list/tuple
        for st1, f in self.ev(node.func, st):
            if isinstance(f, Exc):
                yield st1, f
                continue

            def go(i, st, acc):
                if i == len(node.args):
                    for st3, kvs in self.ev_list([k.value for k in node.keywords], st):
                        if isinstance(kvs, Exc):
                            yield st3, kvs
                        else:
                            kwargs = {k.arg: v for k, v in zip(node.keywords, kvs)}
                            yield from self.call(st3, f, acc, kwargs, node)
                    return
                a = node.args[i]
                inner = a.value if isinstance(a, ast.Starred) else a
                for st2, v in self.ev(inner, st):
                    if isinstance(v, Exc):
                        yield st2, v
                    elif isinstance(a, ast.Starred):
                        if isinstance(v, tuple):
                            yield from go(i + 1, st2, acc + list(v))
                        elif isinstance(st2.deref(v), (PList, bm.EagerGen)):
                            yield from go(i + 1, st2, acc + list(st2.deref(v).items))
                        else:
                            raise Unsupported("starred call with symbolic-length argument")
                    else:
                        yield from go(i + 1, st2, acc + [v])

            yield from go(0, st1, [])

    def ev_call_kwstar(self, st, f, args, kwn):
        def go(i, st, acc):
            if i == len(kwn):
                yield from self.call(st, f, args, acc, None)
                return
            k = kwn[i]
            for st1, v in self.ev(k.value, st):
                if isinstance(v, Exc):
                    yield st1, v
                elif k.arg is None:
                    if isinstance(st1.deref(v), PDict):
                        yield from go(i + 1, st1, {**acc, **st1.deref(v).items})
                    elif isinstance(v, bm.Kwargs):
                        yield from go(i + 1, st1, {**acc, "**": v})
                    else:
                        raise Unsupported("** with non-concrete dict")
                else:
                    yield from go(i + 1, st1, {**acc, k.arg: v})

        yield from go(0, st, {})

    def _shadowed(self, st, name):
        fr = st.fr
        if name in fr.env:
            return True
        mod = load_module(fr.modname)
        return mod is not None and (name in mod.defs or name in mod.assigns or name in mod.imports)

    def ev_Lambda(self, node, st):
        yield st, Closure(node, st.frames[-1], st.fr.modname)

    def ev_GeneratorExp(self, node, st):
        yield from bm.comprehension(self, st, node, "gen")

    def ev_ListComp(self, node, st):
        yield from bm.comprehension(self, st, node, "list")

    def ev_SetComp(self, node, st):
        yield from bm.comprehension(self, st, node, "set")

    def ev_DictComp(self, node, st):
        yield from bm.comprehension(self, st, node, "dict")

    def ev_Starred(self, node, st):
        raise Unsupported("starred expression")

    # ------------------------------------------------------------------ refinement after tests
    def refine(self, st, test, outcome: bool):
        """Narrow opt-sorted local variables after ``x is None`` / ``x`` / ``not x`` tests."""
        if isinstance(test, ast.UnaryOp) and isinstance(test.op, ast.Not):
            return self.refine(st, test.operand, not outcome)
        name = None
        want_none = None
        if isinstance(test, ast.Compare) and len(test.ops) == 1 and isinstance(test.left, ast.Name):
            c = test.comparators[0]
            if isinstance(c, ast.Constant) and c.value is None:
                if isinstance(test.ops[0], ast.Is):
                    name, want_none = test.left.id, outcome
                elif isinstance(test.ops[0], ast.IsNot):
                    name, want_none = test.left.id, not outcome
        elif isinstance(test, ast.Name):
            name = test.id
            want_none = None if outcome else "maybe"
            if outcome:
                want_none = False
        if name is None or name not in st.fr.env:
            return
        v = st.fr.env[name]
        if not (isinstance(v, SV) and isinstance(v.sort, tuple) and v.sort[0] == "opt"):
            return
        Z = z3sort(v.sort)
        if want_none is True:
            st.fr.env[name] = None
        elif want_none is False:
            st.fr.env[name] = SV(v.sort[1], z3.simplify(Z.val(v.t)))

    # ------------------------------------------------------------------ calls
    def call(self, st, f, args, kwargs, node=None):
        if isinstance(f, BuiltinRef):
            yield from bm.call_builtin(self, st, f, args, kwargs)
        elif isinstance(f, FuncRef):
            yield from self.call_func(st, f, args, kwargs)
        elif isinstance(f, Closure):
            yield from self.call_closure(st, f, args, kwargs)
        elif isinstance(f, ClassRef):
            yield from bm.construct(self, st, f, args, kwargs)
        elif isinstance(f, TypeRef):
            yield from bm.call_type(self, st, f, args, kwargs)
        elif isinstance(f, Opaque):
            yield from bm.call_opaque(self, st, f, args, kwargs)
        else:
            raise Unsupported(f"call of {f!r}")

    def call_closure(self, st, f: Closure, args, kwargs):
        node = f.node
        env = {}
        params = [a.arg for a in node.args.args]
        if len(args) > len(params) and node.args.vararg is None:
            yield self.raise_(st, "TypeError")
            return
        for p, a in zip(params, args):
            env[p] = a
        if node.args.vararg is not None:
            env[node.args.vararg.arg] = tuple(args[len(params):])
        for k, v in kwargs.items():
            env[k] = v
        defaults = node.args.defaults
        for p, d in zip(params[len(params) - len(defaults):], defaults):
            if p not in env:
                r = list(self.ev(d, st))
                env[p] = r[0][1]
        st.push_frame(Frame(f.module, env, parent=f.frame, qualname="<closure>"))
        if isinstance(node, ast.Lambda):
            for st1, v in self.ev(node.body, st):
                st1.pop_frame()
                yield st1, v
        else:
            for st1, out in self.run_block(node.body, st):
                st1.pop_frame()
                kind, val = out
                if kind == "return":
                    yield st1, val
                elif kind == "raise":
                    yield st1, Exc(val)
                else:
                    yield st1, None

    def bind_params(self, st, node, args, kwargs, bound=None):
        """Python argument binding for a FunctionDef (positional, keyword, defaults, **kwargs)."""
        a = node.args
        names = [x.arg for x in a.posonlyargs + a.args]
        env = {}
        args = list(args)
        if bound is not None:
            args = [bound] + args
        if len(args) > len(names) and a.vararg is None:
            return None
        for p, v in zip(names, args):
            env[p] = v
        if a.vararg is not None:
            env[a.vararg.arg] = tuple(args[len(names):])
        extra = {}
        kwonly = [x.arg for x in a.kwonlyargs]
        for k, v in kwargs.items():
            if k == "**":
                extra[k] = v
            elif k in names or k in kwonly:
                if k in env:
                    return None
                env[k] = v
            elif a.kwarg is not None:
                extra[k] = v
            else:
                return None
        if a.kwarg is not None:
            env[a.kwarg.arg] = bm.Kwargs(extra)
        defaults = a.defaults
        for p, d in zip(names[len(names) - len(defaults):], defaults):
            if p not in env:
                env[p] = list(self.ev(d, st))[0][1]
        for p, d in zip(kwonly, a.kw_defaults):
            if p not in env and d is not None:
                env[p] = list(self.ev(d, st))[0][1]
        for p in names + kwonly:
            if p not in env:
                return None
        return env

    def call_func(self, st, f: FuncRef, args, kwargs):
        key = f"{f.module}:{f.qualname}"
        if f.module == self.db.spec_module and f.qualname in self.db.spec_builtins:
            yield from self.db.spec_builtins[f.qualname](self, st, args, kwargs)
            return
        mod, node = get_def(f.module, f.qualname)
        contract = self.db.get(key)
        planned = self.cur_contract is not None and key in getattr(self.cur_contract, "call_variants", {})
        if contract is not None and (planned or (not contract.inline and not contract.inline_calls)):
            yield from self.call_by_contract(st, f, node, contract, args, kwargs)
            return
        if contract is None and not self.db.is_inline(key):
            # no contract: small helpers are executed from their real source (listed in evidence)
            size = (node.end_lineno or node.lineno) - node.lineno
            if size > 40 or len(st.frames) > 12:
                raise NeedsContract(f"call to {key} has no contract and is too large to inline ({size} lines)")
            self.inlined.add("auto:" + key)
        else:
            self.inlined.add(key)
        yield from self.inline_call(st, f, node, args, kwargs)

    def inline_call(self, st, f: FuncRef, node, args, kwargs):
        decos = [ast.unparse(d) for d in node.decorator_list]
        bound = f.bound
        if "staticmethod" in decos:
            bound = None
        env = self.bind_params(st, node, args, kwargs, bound)
        if env is None:
            yield self.raise_(st, "TypeError")
            return
        if len(st.frames) > 40:
            raise Unsupported("inline depth exceeded (recursion needs a contract)")
        is_gen = any(isinstance(n, (ast.Yield, ast.YieldFrom)) for n in ast.walk(node))
        fr = Frame(f.module, env, qualname=f.qualname)
        if is_gen:
            fr.env["$yield"] = st.alloc(PList([]))
        st.push_frame(fr)
        for st1, out in self.run_block(node.body, st):
            fr1 = st1.pop_frame()
            kind, val = out
            if is_gen:
                # eager generator: result is the list of yielded values, a raise stays a raise
                if kind == "raise":
                    yield st1, Exc(val)
                else:
                    yield st1, bm.EagerGen(st1.get(fr1.env["$yield"]).items)
            elif kind == "return":
                yield st1, val
            elif kind == "raise":
                yield st1, Exc(val)
            else:
                yield st1, None

    def call_by_contract(self, st, f, node, contract, args, kwargs):
        from .contracts import apply_contract

        self.assumed_calls.add(contract.key)
        yield from apply_contract(self, st, f, node, contract, args, kwargs)

    # ------------------------------------------------------------------ statements
    def run_block(self, stmts, st):
        """Yield (state, (kind, value)) with kind in normal/return/raise/break/continue."""
        if not stmts:
            yield st, ("normal", None)
            return
        for st1, out in self.run_stmt(stmts[0], st):
            if out[0] == "normal":
                yield from self.run_block(stmts[1:], st1)
            else:
                yield st1, out

    def run_stmt(self, node, st):
        m = getattr(self, "st_" + type(node).__name__, None)
        if m is None:
            raise Unsupported(f"statement {type(node).__name__} at line {node.lineno}")
        st.ghost["at"] = (st.fr.qualname, node.lineno)  # where an exception raised next comes from (reporting only)
        yield from m(node, st)

    def st_Pass(self, node, st):
        yield st, ("normal", None)

    def st_Expr(self, node, st):
        if isinstance(node.value, ast.Constant):
            yield st, ("normal", None)
            return
        if isinstance(node.value, (ast.Yield, ast.YieldFrom)):
            yield from self.st_yield(node.value, st)
            return
        for st1, v in self.ev(node.value, st):
            if isinstance(v, Exc):
                yield st1, ("raise", v.exc)
            else:
                yield st1, ("normal", None)

    def st_yield(self, node, st):
        for st1, v in self.ev(node.value, st):
            if isinstance(v, Exc):
                yield st1, ("raise", v.exc)
                continue
            buf = self._yield_buf(st1)
            dv = st1.deref(v)
            if isinstance(node, ast.Yield):
                buf.items.append(v)
            else:
                if isinstance(dv, bm.EagerGen):
                    buf.items.extend(dv.items)
                elif isinstance(dv, (PList,)):
                    buf.items.extend(dv.items)
                elif isinstance(dv, tuple):
                    buf.items.extend(dv)
                elif isinstance(dv, (bm.SSeq, Opaque)):
                    # delegating to an abstract iterable: its items are not enumerated; the generator's result is then
                    # abstract as well (one marker item standing for "the items of that iterable")
                    buf.items.append(Opaque("YieldedFrom"))
                else:
                    raise Unsupported("yield from non-concrete iterable")
            yield st1, ("normal", None)

    def _yield_buf(self, st):
        for r in reversed(st.frames):
            fr = st.get(r)
            if "$yield" in fr.env:
                return st.get(fr.env["$yield"])
        raise Unsupported("yield outside generator frame")

    def st_Return(self, node, st):
        if node.value is None:
            yield st, ("return", None)
            return
        for st1, v in self.ev(node.value, st):
            if isinstance(v, Exc):
                yield st1, ("raise", v.exc)
            else:
                yield st1, ("return", v)

    def st_Raise(self, node, st):
        if node.exc is None:
            cur = st.fr.env.get("$handling")
            if cur is None:
                raise Unsupported("bare raise outside handler")
            yield st, ("raise", cur)
            return
        for st1, v in self.ev(node.exc, st):
            if isinstance(v, Exc):
                yield st1, ("raise", v.exc)
            elif isinstance(v, ExcVal):
                yield st1, ("raise", v)
            elif isinstance(v, ClassRef):
                yield st1, ("raise", ExcVal(v.qualname.split(".")[-1]))
            else:
                raise Unsupported(f"raise of {v!r}")

    def st_Assert(self, node, st):
        for st1, v in self.ev(node.test, st):
            if isinstance(v, Exc):
                yield st1, ("raise", v.exc)
                continue
            for st2, b in self.branch(st1, self.truthy(st1, v)):
                self.refine(st2, node.test, b)
                if b:
                    yield st2, ("normal", None)
                else:
                    yield st2, ("raise", ExcVal("AssertionError"))

    def st_Assign(self, node, st):
        for st1, v in self.ev(node.value, st):
            if isinstance(v, Exc):
                yield st1, ("raise", v.exc)
                continue

            def go(i, st):
                if i == len(node.targets):
                    yield st, ("normal", None)
                    return
                for st2, r in self.assign(st, node.targets[i], v):
                    if isinstance(r, Exc):
                        yield st2, ("raise", r.exc)
                    else:
                        yield from go(i + 1, st2)

            yield from go(0, st1)

    def st_AnnAssign(self, node, st):
        if node.value is None:
            yield st, ("normal", None)
            return
        for st1, v in self.ev(node.value, st):
            if isinstance(v, Exc):
                yield st1, ("raise", v.exc)
                continue
            for st2, r in self.assign(st1, node.target, v):
                yield st2, (("raise", r.exc) if isinstance(r, Exc) else ("normal", None))

    def st_AugAssign(self, node, st):
        load = copy.copy(node.target)
        load.ctx = ast.Load()
        for st1, cur in self.ev(load, st):
            if isinstance(cur, Exc):
                yield st1, ("raise", cur.exc)
                continue
            for st2, rhs in self.ev(node.value, st1):
                if isinstance(rhs, Exc):
                    yield st2, ("raise", rhs.exc)
                    continue
                if isinstance(st2.deref(cur), PList) and isinstance(node.op, ast.Add):
                    bm.list_extend(self, st2, cur, rhs)
                    yield st2, ("normal", None)
                    continue
                for st3, v in self.binop(st2, type(node.op), cur, rhs):
                    if isinstance(v, Exc):
                        yield st3, ("raise", v.exc)
                        continue
                    for st4, r in self.assign(st3, node.target, v):
                        yield st4, (("raise", r.exc) if isinstance(r, Exc) else ("normal", None))

    def assign(self, st, target, v):
        if isinstance(target, ast.Name):
            self.store_name(st, target.id, v)
            yield st, None
        elif isinstance(target, (ast.Tuple, ast.List)):
            yield from bm.unpack(self, st, target, v)
        elif isinstance(target, ast.Attribute):
            for st1, o in self.ev(target.value, st):
                if isinstance(o, Exc):
                    yield st1, o
                else:
                    yield from bm.setattr_(self, st1, o, target.attr, v)
        elif isinstance(target, ast.Subscript):
            for st1, o in self.ev(target.value, st):
                if isinstance(o, Exc):
                    yield st1, o
                    continue
                if isinstance(target.slice, ast.Slice):
                    raise Unsupported("slice assignment")
                for st2, idx in self.ev(target.slice, st1):
                    if isinstance(idx, Exc):
                        yield st2, idx
                    else:
                        yield from bm.setitem(self, st2, o, idx, v)
        else:
            raise Unsupported(f"assignment target {type(target).__name__}")

    def store_name(self, st, name, v):
        fr = st.fr
        nl = fr.env.get("$nonlocal")
        if nl and name in nl:
            p = fr.parent
            while p is not None:
                pf = st.get(p)
                if name in pf.env:
                    pf.env[name] = v
                    return
                p = pf.parent
        fr.env[name] = v

    def st_Nonlocal(self, node, st):
        st.fr.env.setdefault("$nonlocal", set()).update(node.names)
        yield st, ("normal", None)

    def st_Delete(self, node, st):
        for t in node.targets:
            if isinstance(t, ast.Subscript):
                res = list(self.ev(t.value, st))
                if len(res) != 1:
                    raise Unsupported("del with forking target")
                o = res[0][1]
                if isinstance(t.slice, ast.Slice):
                    bm.del_slice(self, st, o, t.slice)
                else:
                    idxs = list(self.ev(t.slice, st))
                    if len(idxs) != 1:
                        raise Unsupported("del with forking index")
                    bm.del_item(self, st, o, idxs[0][1])
            elif isinstance(t, ast.Name):
                st.fr.env.pop(t.id, None)
            else:
                raise Unsupported("del target")
        yield st, ("normal", None)

    def st_FunctionDef(self, node, st):
        st.fr.env[node.name] = Closure(node, st.frames[-1], st.fr.modname)
        yield st, ("normal", None)

    def st_Import(self, node, st):
        for a in node.names:
            st.fr.env[(a.asname or a.name).split(".")[0]] = ModuleRef(a.name)
        yield st, ("normal", None)

    def st_ImportFrom(self, node, st):
        for a in node.names:
            st.fr.env[a.asname or a.name] = self.module_attr(node.module, a.name, st)
        yield st, ("normal", None)

    def st_If(self, node, st):
        for st1, c in self.ev(node.test, st):
            if isinstance(c, Exc):
                yield st1, ("raise", c.exc)
                continue
            for st2, b in self.branch(st1, self.truthy(st1, c)):
                self.refine(st2, node.test, b)
                yield from self.run_block(node.body if b else node.orelse, st2)

    def st_With(self, node, st):
        if len(node.items) != 1:
            raise Unsupported("with: multiple items")
        ce = node.items[0].context_expr
        if isinstance(ce, ast.Call) and isinstance(ce.func, ast.Name) and ce.func.id == "suppress":
            names = [ast.unparse(a).split(".")[-1] for a in ce.args]
            for st1, out in self.run_block(node.body, st):
                if out[0] == "raise" and any(is_exc_subclass(out[1].cls, n) for n in names):
                    yield st1, ("normal", None)
                else:
                    yield st1, out
            return
        if isinstance(ce, ast.Call) and ast.unparse(ce.func) in ("warnings.catch_warnings",):
            yield from self.run_block(node.body, st)
            return
        raise Unsupported(f"with {ast.unparse(ce)}")

    def st_Try(self, node, st):
        for st1, out in self.run_block(node.body, st):
            if out[0] == "raise":
                handled = False
                for h in node.handlers:
                    if self.handler_matches(h, out[1]):
                        handled = True
                        if h.name:
                            st1.fr.env[h.name] = out[1]
                        prev = st1.fr.env.get("$handling")
                        st1.fr.env["$handling"] = out[1]
                        for st2, out2 in self.run_block(h.body, st1):
                            st2.fr.env["$handling"] = prev
                            yield from self.run_finally(node, st2, out2)
                        break
                if not handled:
                    yield from self.run_finally(node, st1, out)
            elif out[0] == "normal" and node.orelse:
                for st2, out2 in self.run_block(node.orelse, st1):
                    yield from self.run_finally(node, st2, out2)
            else:
                yield from self.run_finally(node, st1, out)

    def run_finally(self, node, st, out):
        if not node.finalbody:
            yield st, out
            return
        for st1, out2 in self.run_block(node.finalbody, st):
            yield st1, (out if out2[0] == "normal" else out2)

    def handler_matches(self, h, exc: ExcVal) -> bool:
        if h.type is None:
            return True
        types = h.type.elts if isinstance(h.type, ast.Tuple) else [h.type]
        for t in types:
            name = ast.unparse(t).split(".")[-1]
            if is_exc_subclass(exc.cls, name):
                return True
        return False

    def st_While(self, node, st):
        from .contracts import run_while

        yield from run_while(self, node, st)

    def st_For(self, node, st):
        from .contracts import run_for

        yield from run_for(self, node, st)

    def st_Break(self, node, st):
        yield st, ("break", None)

    def st_Continue(self, node, st):
        yield st, ("continue", None)

    def st_Global(self, node, st):
        raise Unsupported("global statement")


def _freeze(st, v):
    o = st.deref(v)
    if isinstance(o, (PList, PDict, PSet)):
        o.frozen = True
        it = o.items.values() if isinstance(o, PDict) else o.items
        for x in it:
            _freeze(st, x)
    elif isinstance(o, tuple):
        for x in o:
            _freeze(st, x)
