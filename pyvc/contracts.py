"""Contracts (sidecar), call-by-contract, loop cutting, and the per-function VC driver."""
from __future__ import annotations

import ast
import re
import time

import z3

from . import builtins_model as bm
from .builtins_calls import DictView, _sym_iter, _CUR_ST
from .engine import Exec, NeedsContract, Obligation, State, Unsupported
from .source import SourceError, get_def, is_exc_subclass, load_module, source_digest
from .values import (
    SV,
    BuiltinRef,
    ClassRef,
    Closure,
    Exc,
    ExcVal,
    Frame,
    FuncRef,
    Obj,
    Opaque,
    PDict,
    PList,
    Ref,
    SDict,
    fresh,
    fresh_name,
    is_sym,
    lift,
    natural_sort,
    parse_sort,
    z3sort,
)


# spec builtins that are *lemma schemas*: valid facts about strings / numerals / CPython builtins, instantiated by
# ``hints``; their truth is sampled against CPython by tools/crosscheck.py on every run (tested, not proved)
LEMMA_SCHEMAS = {"strip_padded", "int_padded", "strip_core", "strip_blank", "strip_unique", "index_at", "cut_at", "head_of",
                 "excludes", "int_of_signed", "int_of_digits", "substr_at", "char_at", "chars_at", "nat_shift", "leading_zeros",
                 "digits_only", "digit_chars", "split_first", "last_of", "strip_noop", "find_in", "rfind_in", "char_of_slice", "digit_at", "char_in_token", "lstrip_noop"}


class Loop:
    """Invariant / variant of the n-th loop (source order) of a function."""

    def __init__(self, invariants=(), decreases=None, vars=None, header=None, modifies=(), unroll=False, hints=(), step=()):
        # step: [(name, clause)] assertions at the END of an arbitrary iteration of the body (may mention the loop
        # target and the body's locals): what one iteration establishes, checked like any other obligation
        self.step = [(e if isinstance(e, tuple) else (f"step{i}", e)) for i, e in enumerate(step)]
        self.hints = list(hints)  # lemma-schema instances assumed at the loop head (after the havoc)
        for h in self.hints:
            t = ast.parse(h, mode="eval").body
            if not (isinstance(t, ast.Call) and isinstance(t.func, ast.Name) and t.func.id in LEMMA_SCHEMAS):
                raise ValueError(f"loop hint {h!r} is not an instance of a lemma schema")
        # unroll: execute the loop iteration by iteration, branching on symbolic conditions; accepted only
        # when every path leaves the loop through a *concrete* guard within 64 iterations (complete, not bounded)
        self.unroll = unroll
        self.modifies = list(modifies)  # heap objects (local names / name.field) the body may mutate
        self.invariants = list(invariants)
        self.decreases = decreases
        self.vars = dict(vars or {})  # name -> sort, for variables whose sort cannot be inferred
        self.header = header  # expected ``ast.unparse`` of the loop header (shape check)


class Contract:
    def __init__(
        self,
        func: str,
        params=None,
        requires=(),
        ensures=(),
        raises=None,
        returns=None,
        modifies=(),
        loops=(),
        inline=False,
        properties=(),
        self_spec=None,
        lemmas=(),
        note="",
        replay=None,
        cases=None,
        pure=True,
        trusted=False,
        kwargs=None,
        ghost_pre=None,
        no_raise=False,
        inline_calls=False,
        variant=None,
        ghost=None,
        hints=(),
        call_ensures=None,
        call_default=False,
        call_variants=None,
        assumes=(),
    ):
        self.func = func
        self.key = func + (f"#{variant}" if variant else "")
        self.variant = variant
        self.module, self.qualname = func.split(":")
        self.params = dict(params or {})  # name -> sort spec (str | callable(mk))
        self.requires = list(requires)
        self.ensures = [(e if isinstance(e, tuple) else (f"post{i}", e)) for i, e in enumerate(ensures)]
        self.raises = dict(raises or {})  # exception class name -> condition expr | True
        self.returns = returns  # sort spec of the result at call sites
        self.modifies = list(modifies)
        self.loops = list(loops)
        self.inline = inline
        self.properties = list(properties)
        self.lemmas = list(lemmas)
        self.note = note
        self.replay = replay
        self.cases = cases  # optional list of (name, extra requires) to split the proof
        self.pure = pure
        self.trusted = trusted  # contract is assumed, body not verified (listed in evidence)
        self.kwargs = kwargs  # for **kwargs functions: {"known": {...}, "open": bool}
        self.ghost_pre = ghost_pre
        self.no_raise = no_raise
        # {callee func: [(variant, {ghost name: expression in the caller's scope}), ...]}: the i-th call of that
        # callee inside this function is checked against the named variant with these ghost instantiations
        self.call_variants = dict(call_variants or {})
        self.call_default = call_default  # among variants, the contract used at call sites
        self.call_ensures = call_ensures  # what callers may assume instead of ``ensures`` (an abstraction of it)
        self.hints = list(hints)  # instances of trusted builtin-model facts, assumed (listed in evidence)
        for h in self.hints:
            t = ast.parse(h, mode="eval").body
            if not (isinstance(t, ast.Call) and isinstance(t.func, ast.Name) and t.func.id in LEMMA_SCHEMAS):
                raise ValueError(f"{self.key}: hint {h!r} is not an instance of a lemma schema {sorted(LEMMA_SCHEMAS)}; "
                                 "free-form facts go to 'lemmas' (proved) or 'assumes' (reported as assumptions)")
        self.assumes = list(assumes)  # free-form assumptions about collaborators: assumed, reported in the evidence
        self.ghost = dict(ghost or {})  # extra universally quantified symbols usable in clauses
        self.inline_calls = inline_calls  # verified against its contract, but inlined at call sites


class ContractDB:
    def __init__(self):
        self.contracts: dict[str, Contract] = {}
        self.by_func: dict[str, Contract] = {}
        self.inline: set[str] = set()
        self.opaque_attrs: dict = {}
        self.opaque_methods: dict = {}
        self.opaque_isinst: dict = {}
        self.ctors: dict = {}
        self.spec_module = "verif_specs"
        self.spec_builtins = dict(SPEC_BUILTINS)
        self.assumed_collaborators = set()
        self.const_overrides = {}
        self.exports = {}
        self.total_getattr = set()
        # {kind: [type names]}: isinstance tags of an abstract kind that exclude one another
        self.exclusive_types = {}
        # {(kind, operation): handler}: semantics of builtin operations on values of an abstract kind
        # operations: getitem(ex, st, v, idx), dict(ex, st, v), iter(ex, st, v), contains(ex, st, v, item)
        self.opaque_ops = {}
        # abstract kinds whose instances have no __bool__/__len__ (always truthy)
        self.always_truthy = {"type", "XmlMeta", "XmlVar", "XmlNode", "Builder", "Converter", "ParserConfig", "XmlContext",
                              "ClassType", "Logger", "Match", "Model"}
        # the library logger: calls are recorded on the ghost trace, no other effect
        self.const_overrides[("xsdata.logger", "logger")] = Opaque("Logger", z3.Const("xsdata_logger", z3sort(("u", "Logger"))))
        for m in ("warning", "info", "debug", "error"):
            assume_method(self, "Logger", m)

    def add(self, c: Contract):
        self.contracts[c.key] = c
        if c.variant is None or c.call_default or c.func not in self.by_func:
            if not (c.func in self.by_func and self.by_func[c.func].call_default and not c.call_default):
                self.by_func[c.func] = c
        return c

    def get(self, key):
        b = self.by_func.get(key)
        if b is not None and b.call_default:
            return b  # the designated call-site view of a function that has several contracts
        return self.contracts.get(key) or b

    def is_inline(self, key):
        if key.startswith(self.spec_module + ":"):
            return True
        c = self.contracts.get(key)
        return key in self.inline or (c is not None and (c.inline or c.inline_calls))

    def opaque_attr(self, kind, attr):
        return self.opaque_attrs.get((kind, attr))

    def opaque_method(self, kind, meth):
        return self.opaque_methods.get((kind, meth))

    def opaque_isinstance(self, kind, name):
        return self.opaque_isinst.get((kind, name))

    def constructor(self, cref):
        return self.ctors.get((cref.module, cref.qualname))

    # ------------------------------------------------------------------ value factory
    def make_value(self, ex, st, spec, base="p"):
        """Build a fresh symbolic value from a sort spec (string mini-language or callable)."""
        if callable(spec):
            mk = Maker(ex, st, self)
            v = spec(mk, base)
            self.exports.update(mk.exports)
            return v
        if not isinstance(spec, str):
            return spec  # a concrete value
        spec = spec.strip()
        if spec.startswith("dict[") and spec.endswith("]"):
            k, v = bm_split(spec[5:-1])
            d = SDict(k, v, base=base)
            for a in d.wf():
                st.assume(a)
            return st.alloc(d)
        if spec.startswith("set["):
            from .values import SSet

            return st.alloc(SSet(spec[4:-1], base=base))
        if spec.startswith("obj:"):
            return st.alloc(Obj(spec[4:], {}))
        if spec.startswith("opaque:"):
            return Opaque(spec[len("opaque:"):])
        if spec.startswith("seq["):
            s = bm.SSeq(spec[4:-1], base=base)
            st.assume(s.n >= 0)
            return s
        return fresh(spec, base)


# ---------------------------------------------------------------------------
# spec builtins: functions of contracts/specs.py with a direct SMT rendering
# ---------------------------------------------------------------------------
def _sb_pad(ex, st, args, kwargs):
    n, w = args
    if is_sym(w):
        raise Unsupported("pad with symbolic width")
    if not is_sym(n):
        yield st, format(n, f"0{w}d")
    else:
        yield st, SV("str", bm.pad_int(st, lift(n, "int"), w))


def _sb_matches(ex, st, args, kwargs):
    from .regex import to_z3

    s0, pat = args
    if is_sym(pat):
        raise Unsupported("matches with symbolic pattern")
    for st1, s in ex.narrow(st, s0):
        if s is None:
            yield ex.raise_(st1, "TypeError")
        elif not is_sym(s):
            import re

            yield st1, re.fullmatch(pat, s) is not None
        else:
            yield st1, SV("bool", z3.InRe(s.t, to_z3(pat)))


def _sb_nat(ex, st, args, kwargs):
    (s,) = args
    if not is_sym(s):
        yield st, (int(s) if s.isascii() and s.isdigit() else -1)
    else:
        yield st, SV("int", z3.StrToInt(s.t))


def _sb_key_at(ex, st, args, kwargs):
    d, j = st.deref(args[0]), args[1]
    if isinstance(d, PDict):
        yield st, list(d.items.keys())[j]
    else:
        yield st, SV(d.ksort, d.key_at[lift(j, "int")])


def _sb_pos_of(ex, st, args, kwargs):
    d, k = st.deref(args[0]), args[1]
    if isinstance(d, PDict):
        yield st, list(d.items.keys()).index(k)
    else:
        yield st, SV("int", d.pos[lift(k, d.ksort)])


def _sb_val_at(ex, st, args, kwargs):
    d, j = st.deref(args[0]), args[1]
    if isinstance(d, PDict):
        yield st, list(d.items.values())[j]
    else:
        yield st, SV(d.vsort, d.val[d.key_at[lift(j, "int")]])


def _sb_same_dict(ex, st, args, kwargs):
    """Same keys, same values, same insertion order."""
    a, b = st.deref(args[0]), st.deref(args[1])
    if isinstance(a, PDict) and isinstance(b, PDict):
        yield st, list(a.items.items()) == list(b.items.items())
        return
    if isinstance(a, PDict):
        a = bm.pdict_to_sdict(a, b.ksort, b.vsort)
    if isinstance(b, PDict):
        b = bm.pdict_to_sdict(b, a.ksort, a.vsort)
    yield st, SV("bool", bm.sdict_equal(a, b, ordered=True))


def _sb_strip_unique(ex, st, args, kwargs):
    s, a, r, b = [bm.sstr(x) for x in args]
    yield st, SV("bool", bm.strip_unique_instance(s, a, r, b))


def _tokens(args):
    """(value, pattern|None) pairs -> (canonical concat value, [z3 membership facts], first pat, last pat)."""
    if len(args) % 2:
        raise Unsupported("token list must alternate value, pattern")
    vals, facts, pats = [], [], []
    from .regex import to_z3

    for i in range(0, len(args), 2):
        v, pat = args[i], args[i + 1]
        vals.append(v)
        if pat is None:
            if is_sym(v):
                raise Unsupported("a token without pattern must be a literal")
            pats.append(("lit", v))
        else:
            facts.append(z3.InRe(bm.sstr(v), to_z3(pat)))
            pats.append(("re", pat))
    return vals, facts, pats


def _pat_text(pats):
    import re

    return "".join(re.escape(p) if k == "lit" else f"(?:{p})" for k, p in pats)


def _sb_int_padded(ex, st, args, kwargs):
    """int_padded(...): as strip_padded, for the whitespace int() skips (C isspace on ASCII, Unicode spaces
    beyond): conclusion py_int_strip(s) == tok1 + tok2 + ..."""
    yield from _padded(ex, st, args, "int")


def _sb_strip_padded(ex, st, args, kwargs):
    yield from _padded(ex, st, args, "str")


def _padded(ex, st, args, flavor):
    """strip_padded(s, w1, ws_pattern, w2, tok1, pat1, tok2, pat2, ...)

    s == w1 + tok1 + tok2 + ... + w2, w1/w2 in L(ws_pattern) (only whitespace), tok_i in L(pat_i) (a
    literal when pat_i is None), and the token sequence can neither be empty nor start/end with
    whitespace  =>  s.strip() == tok1 + tok2 + ...      [trusted fact about str.strip]
    The antecedent is built from the same canonical terms the ``requires`` clauses produce."""
    from .regex import MAXCODE, ends_exclude, to_z3, _fl
    import re as _re

    s, w1, wspat, w2 = args[:4]
    if is_sym(wspat):
        raise Unsupported("strip_padded needs a literal whitespace pattern")
    # the padding pattern may only produce python whitespace
    from .regex import only_chars

    ws_ranges = bm.PY_WS if flavor == "str" else bm.INT_WS
    if not only_chars(wspat, lambda c: any(lo <= ord(c) <= hi for lo, hi in ws_ranges)):
        raise Unsupported(f"strip_padded: {wspat!r} is not a whitespace-only pattern for flavor {flavor}")
    vals, facts, pats = _tokens(list(args[4:]))
    if not ends_exclude(_pat_text(pats), ws_ranges):
        raise Unsupported(f"strip_padded: tokens {_pat_text(pats)!r} may be empty or start/end with whitespace")
    whole = bm.str_concat([w1] + vals + [w2])
    core = bm.str_concat(vals)
    ws = to_z3(wspat)
    ante = [bm.sstr(s) == bm.sstr(whole), z3.InRe(bm.sstr(w1), ws), z3.InRe(bm.sstr(w2), ws)] + facts
    fn = bm.PY_STRIP if flavor == "str" else bm.PY_INT_STRIP
    yield st, SV("bool", z3.Implies(z3.And(*ante), fn(bm.sstr(s)) == bm.sstr(core)))


def _sb_strip_core(ex, st, args, kwargs):
    """strip_core(s, w1, ws_pattern, w2, core): s == w1 + core + w2, w1/w2 whitespace only, core non-empty
    and already stripped (core.strip() == core)  =>  s.strip() == core.   [trusted fact about str.strip]"""
    from .regex import only_chars, to_z3

    s, w1, wspat, w2, core = args
    if is_sym(wspat) or not only_chars(wspat, lambda c: any(lo <= ord(c) <= hi for lo, hi in bm.PY_WS)):
        raise Unsupported(f"strip_core: {wspat!r} is not a literal whitespace-only pattern")
    whole = bm.str_concat([w1, core, w2])
    ws = to_z3(wspat)
    c = bm.sstr(bm.str_concat([core]))
    ante = [bm.sstr(s) == bm.sstr(whole), z3.InRe(bm.sstr(w1), ws), z3.InRe(bm.sstr(w2), ws),
            bm.strip_term(c) == c, z3.Length(c) > 0]
    yield st, SV("bool", z3.Implies(z3.And(*ante), bm.PY_STRIP(bm.sstr(s)) == c))


def _sb_cut_at(ex, st, args, kwargs):
    """cut_at(a, sep, b): sep (one character) does not occur in a  =>  for s = a+sep+b: s.find(sep) == len(a),
    s[:len(a)] == a, s[len(a)+1:] == b   (so partition/split cut exactly there)."""
    a, sep, b = args
    if is_sym(sep) or len(sep) != 1:
        raise Unsupported("cut_at needs a literal one-character separator")
    s = bm.sstr(bm.str_concat([a, sep, b]))
    a, b = bm.sstr(a), bm.sstr(b)
    sp = z3.StringVal(sep)
    yield st, SV("bool", z3.Implies(z3.Not(z3.Contains(a, sp)),
                                    z3.And(z3.IndexOf(s, sp, 0) == z3.Length(a),
                                           z3.SubString(s, 0, z3.Length(a)) == a,
                                           z3.SubString(s, z3.Length(a) + 1, z3.Length(s) - z3.Length(a) - 1) == b)))


def _sb_int_of_digits(ex, st, args, kwargs):
    """int_of_digits(d): d consists of ASCII digits  =>  int(d) succeeds with the positional value of d
    (and int()'s whitespace skipping leaves d unchanged).   [trusted fact about int()]"""
    (d,) = args
    t = bm.sstr(d)
    c = bm.strip_term(t, "int")
    yield st, SV("bool", z3.Implies(z3.InRe(t, bm.RE_DIGITS),
                                    z3.And(c == t, bm.PY_INT_OK(c), bm.PY_INT_VAL(c) == z3.StrToInt(t))))


def _sb_substr_at(ex, st, args, kwargs):
    """substr_at(s, a, tok, b): s == a + tok + b  =>  s[len(a):len(a)+len(tok)] == tok, and the characters of
    tok sit at positions len(a).. of s.   [fact about concatenation and slicing]"""
    s, a, tok, b = args
    S = bm.sstr(s)
    whole = bm.sstr(bm.str_concat([a, tok, b]))
    A, T = bm.sstr(a), bm.sstr(tok)
    yield st, SV("bool", z3.Implies(S == whole, z3.And(z3.SubString(S, z3.Length(A), z3.Length(T)) == T,
                                                       z3.Length(S) == z3.Length(A) + z3.Length(T) + z3.Length(bm.sstr(b)))))


def _sb_py_int(ex, st, args, kwargs):
    """py_int(s): the value int(s) returns when it succeeds (uninterpreted outside ASCII numerals)."""
    (v,) = args
    if not is_sym(v):
        yield st, int(v)
    else:
        yield st, SV("int", bm.PY_INT_VAL(bm.strip_term(v.t, "int")))


def _sb_py_int_ok(ex, st, args, kwargs):
    (v,) = args
    if not is_sym(v):
        try:
            int(v)
            yield st, True
        except ValueError:
            yield st, False
    else:
        c = bm.strip_term(v.t, "int")
        bm.axiom(z3.Implies(z3.InRe(c, bm.RE_SIGNED), bm.PY_INT_OK(c)))
        yield st, SV("bool", bm.PY_INT_OK(c))


def _sb_nat_shift(ex, st, args, kwargs):
    """nat_shift(d, z): for a digit string d, the numeral d followed by z zeros denotes nat(d) * 10**z."""
    d, zc = args
    if is_sym(zc) or not (0 <= zc <= 12):
        raise Unsupported("nat_shift needs a literal shift 0..12")
    t = bm.sstr(d)
    shifted = bm.sstr(bm.str_concat([d, "0" * zc]))
    yield st, SV("bool", z3.Implies(z3.InRe(t, bm.RE_DIGITS),
                                    z3.And(z3.InRe(shifted, bm.RE_DIGITS), z3.StrToInt(shifted) == z3.StrToInt(t) * (10 ** zc))))


def _sb_char_at(ex, st, args, kwargs):
    """char_at(s, a, c, b): s == a + c + b with c a single character  =>  s[len(a)] is c."""
    s, a, c, b = args
    S, A, C = bm.sstr(s), bm.sstr(a), bm.sstr(c)
    whole = bm.sstr(bm.str_concat([a, c, b]))
    yield st, SV("bool", z3.Implies(z3.And(S == whole, z3.Length(C) == 1), z3.SubString(S, z3.Length(A), 1) == C))


def _sb_leading_zeros(ex, st, args, kwargs):
    """leading_zeros(d, n): d is a numeral of exactly n <= 9 ASCII digits  =>  with r = d.lstrip('0'):
    nat(d) == nat(r) (0 for empty r) and nat(d) < 10**len(r)  — i.e. j leading zeros bound the value by 10**(n-j)."""
    d, n = args
    if is_sym(n) or not (1 <= n <= 9):
        raise Unsupported("leading_zeros needs a literal width 1..9")
    t = bm.sstr(d)
    r = bm.lstrip_term(t, "0")
    bound = z3.IntVal(1)
    for k in range(1, n + 1):
        bound = z3.If(z3.Length(r) == k, z3.IntVal(10 ** k), bound)
    if z3.is_app(t) and t.decl().name() == "py_pad" and z3.is_int_value(t.arg(1)) and t.arg(1).as_long() == n:
        # d is format(x, '0nd') itself: state the bound on x directly (no regex / str.to_int atoms for the solver)
        x = t.arg(0)
        yield st, SV("bool", z3.Implies(z3.And(x >= 0, x < 10 ** n),
                                        z3.And(x < bound, z3.Length(r) <= n, z3.Length(r) >= 0, z3.Implies(z3.Length(r) == n, r == t))))
        return
    yield st, SV("bool", z3.Implies(z3.And(z3.InRe(t, bm.RE_DIGITS), z3.Length(t) == n),
                                    z3.And(z3.StrToInt(t) < bound, z3.Length(r) <= n, z3.Length(r) >= 0,
                                           z3.Implies(z3.Length(r) == n, r == t))))


def _sb_digit_chars(ex, st, args, kwargs):
    """digit_chars(d, n): a numeral of exactly n <= 9 ASCII digits  =>  each of its n characters is in '0'..'9'
    and the numeral is the concatenation of those characters."""
    d, n = args
    if is_sym(n) or not (1 <= n <= 9):
        raise Unsupported("digit_chars needs a literal width 1..9")
    t = bm.sstr(d)
    cs = [z3.SubString(t, i, 1) for i in range(n)]
    facts = [z3.InRe(c, bm.RE_DIGIT) for c in cs] + [z3.Length(c) == 1 for c in cs] + [z3.Not(z3.InRe(c, bm.RE_WS)) for c in (cs[0], cs[-1])]
    facts.append(t == (z3.Concat(*cs) if n > 1 else cs[0]))
    yield st, SV("bool", z3.Implies(z3.And(z3.InRe(t, bm.RE_DIGITS), z3.Length(t) == n), z3.And(facts)))


def _sb_chars_at(ex, st, args, kwargs):
    """chars_at(s, a, tok, n, b): s == a + tok + b with len(tok) == n (literal)  =>  s[len(a) + i] is tok[i], i < n."""
    s, a, tok, n, b = args
    if is_sym(n) or not (1 <= n <= 12):
        raise Unsupported("chars_at needs a literal width 1..12")
    S, A, T = bm.sstr(s), bm.sstr(a), bm.sstr(tok)
    whole = bm.sstr(bm.str_concat([a, tok, b]))
    facts = [z3.SubString(S, z3.Length(A) + i, 1) == z3.SubString(T, i, 1) for i in range(n)]
    yield st, SV("bool", z3.Implies(z3.And(S == whole, z3.Length(T) == n), z3.And(facts)))


def _sb_split_first(ex, st, args, kwargs):
    """split_first(s): s == s[0:1] + s[1:] (and s[0:1] has at most one character)."""
    (s,) = args
    t = bm.sstr(s)
    n = z3.Length(t)
    first = z3.SubString(t, 0, z3.If(n < 1, n, z3.IntVal(1)))
    alt = z3.SubString(t, 0, 1)
    yield st, SV("bool", z3.And(t == z3.Concat(bm.sstr(bm.str_slice(s, 0, 1, st)), bm.sstr(bm.str_slice(s, 1, None, st))),
                                first == alt, z3.Length(alt) <= 1, z3.Implies(n > 0, z3.Length(alt) == 1)))


def _sb_last_of(ex, st, args, kwargs):
    """last_of(pre, a): a is non-empty  =>  the last character of pre + a is the last character of a."""
    pre, a = args
    A = bm.sstr(a)
    S = bm.sstr(bm.str_concat([pre, a]))
    yield st, SV("bool", z3.Implies(z3.Length(A) > 0, z3.And(z3.SubString(S, z3.Length(S) - 1, 1) == z3.SubString(A, z3.Length(A) - 1, 1),
                                                             z3.Length(S) > 0)))


def _sb_strip_noop(ex, st, args, kwargs):
    """strip_noop(c): c is non-empty and neither its first nor its last character is whitespace  =>  c.strip() == c."""
    (c,) = args
    C = bm.sstr(bm.str_concat([c]))
    first, last = z3.SubString(C, 0, 1), z3.SubString(C, z3.Length(C) - 1, 1)
    ws = bm.RE_WS
    yield st, SV("bool", z3.Implies(z3.And(z3.Length(C) > 0, z3.Not(z3.InRe(first, ws)), z3.Not(z3.InRe(last, ws))),
                                    bm.strip_term(C) == C))


def _find_in(args, last):
    ch, pieces = args[0], list(args[1:])
    if is_sym(ch) or len(ch) != 1 or not pieces:
        raise Unsupported("find_in/rfind_in need a literal one-character needle and at least one piece")
    c = z3.StringVal(ch)
    S = bm.sstr(bm.str_concat(pieces))
    terms = [bm.sstr(p) for p in pieces]
    op = (lambda t: z3.LastIndexOf(t, c)) if last else (lambda t: z3.IndexOf(t, c, 0))
    offs, acc = [], z3.IntVal(0)
    for t in terms:
        offs.append(acc)
        acc = acc + z3.Length(t)
    order = list(range(len(terms)))
    if not last:
        order.reverse()
    res = z3.IntVal(-1)
    for j in order:  # innermost = the piece looked at last
        res = z3.If(op(terms[j]) >= 0, offs[j] + op(terms[j]), res)
    return z3.And(op(S) == res, z3.Length(S) == acc)


def _sb_find_in(ex, st, args, kwargs):
    """find_in(ch, p1, ..., pn): (p1+...+pn).find(ch) is the offset of the first piece containing the character
    ch plus its position in that piece, or -1."""
    yield st, SV("bool", _find_in(args, False))


def _sb_rfind_in(ex, st, args, kwargs):
    """rfind_in(ch, p1, ..., pn): (p1+...+pn).rfind(ch) is the offset of the last piece containing ch plus its
    last position in that piece, or -1."""
    yield st, SV("bool", _find_in(args, True))


def _sb_char_of_slice(ex, st, args, kwargs):
    """char_of_slice(s, lo, n, j): for literal 0 <= j < n and lo >= 0 with lo + n <= len(s): s[lo:lo+n][j] is s[lo+j]."""
    s, lo, n, j = args
    if any(is_sym(x) for x in (lo, n, j)) or not (0 <= j < n and lo >= 0):
        raise Unsupported("char_of_slice needs literal lo >= 0, n, 0 <= j < n")
    S = bm.sstr(s)
    yield st, SV("bool", z3.Implies(z3.Length(S) >= lo + n,
                                    z3.SubString(z3.SubString(S, lo, n), j, 1) == z3.SubString(S, lo + j, 1)))


def _sb_digit_at(ex, st, args, kwargs):
    """digit_at(d, i): d is a non-empty string of ASCII digits and 0 <= i < len(d)  =>  d[i] is one ASCII digit
    (and str.isdigit() of it is true)."""
    d, i = args
    D = bm.sstr(d)
    I = lift(i, "int")
    c = z3.SubString(D, I, 1)
    yield st, SV("bool", z3.Implies(z3.And(z3.InRe(D, bm.RE_DIGITS), I >= 0, I < z3.Length(D)),
                                    z3.And(z3.InRe(c, bm.RE_DIGIT), z3.Length(c) == 1, z3.Not(z3.InRe(c, bm.RE_WS)),
                                           z3.StrToCode(c) >= 48, z3.StrToCode(c) <= 57)))


def _sb_char_in_token(ex, st, args, kwargs):
    """char_in_token(s, a, tok, b, i): s == a + tok + b and 0 <= i < len(tok)  =>  s[len(a) + i] is tok[i]."""
    s, a, tok, b, i = args
    S, A, T = bm.sstr(s), bm.sstr(a), bm.sstr(tok)
    I = lift(i, "int")
    whole = bm.sstr(bm.str_concat([a, tok, b]))
    yield st, SV("bool", z3.Implies(z3.And(S == whole, I >= 0, I < z3.Length(T)),
                                    z3.SubString(S, z3.Length(A) + I, 1) == z3.SubString(T, I, 1)))


def _sb_lstrip_noop(ex, st, args, kwargs):
    """lstrip_noop(d, ch): d does not start with the character ch  =>  d.lstrip(ch) == d."""
    d, ch = args
    if is_sym(ch) or len(ch) != 1:
        raise Unsupported("lstrip_noop needs a literal character")
    D = bm.sstr(d)
    yield st, SV("bool", z3.Implies(z3.SubString(D, 0, 1) != z3.StringVal(ch), bm.lstrip_term(D, ch) == D))


def _sb_digits_only(ex, st, args, kwargs):
    """digits_only(d, ch): a numeral of ASCII digits does not contain the (non-digit) character ch."""
    d, ch = args
    if is_sym(ch) or len(ch) != 1 or ch.isdigit():
        raise Unsupported("digits_only needs a literal non-digit character")
    t = bm.sstr(d)
    c = z3.StringVal(ch)
    yield st, SV("bool", z3.Implies(z3.InRe(t, bm.RE_DIGITS),
                                    z3.And(z3.Not(z3.Contains(t, c)), z3.IndexOf(t, c, 0) == -1, z3.LastIndexOf(t, c) == -1,
                                           z3.Not(z3.PrefixOf(c, t)), z3.SubString(t, 0, 1) != c)))


def _sb_head_of(ex, st, args, kwargs):
    """head_of(a, rest): a is non-empty  =>  (a + rest)[0] is a[0]."""
    a, rest = args
    A = bm.sstr(a)
    S = bm.sstr(bm.str_concat([a, rest]))
    yield st, SV("bool", z3.Implies(z3.Length(A) > 0, z3.And(z3.SubString(S, 0, 1) == z3.SubString(A, 0, 1), z3.Length(S) > 0)))


def _sb_excludes(ex, st, args, kwargs):
    """excludes(v, pattern, ch): no string of L(pattern) contains ch (decided on the regex)  =>  ch not in v."""
    from .regex import alphabet_excludes, to_z3

    v, pat, ch = args
    if is_sym(pat) or is_sym(ch) or len(ch) != 1:
        raise Unsupported("excludes needs a literal pattern and a single character")
    if not alphabet_excludes(pat, ch):
        raise Unsupported(f"excludes: strings of {pat!r} may contain {ch!r}")
    t = bm.sstr(v)
    yield st, SV("bool", z3.Implies(z3.InRe(t, to_z3(pat)), z3.Not(z3.Contains(t, z3.StringVal(ch)))))


def _sb_index_at(ex, st, args, kwargs):
    """index_at(a, pattern_a, sep, b): a in L(pattern_a), no string of which contains sep[0]  =>
    for s = a+sep+b: s.find(sep) == len(a), s[:len(a)] == a and s[len(a)+len(sep):] == b."""
    from .regex import alphabet_excludes, to_z3

    a, pat, sep, b = args
    if is_sym(pat) or is_sym(sep) or not sep:
        raise Unsupported("index_at needs literal separator and pattern")
    if not alphabet_excludes(pat, sep[0]):
        raise Unsupported(f"index_at: strings of {pat!r} may contain {sep[0]!r}")
    s = bm.sstr(bm.str_concat([a, sep, b]))
    a, b = bm.sstr(a), bm.sstr(b)
    sp = z3.StringVal(sep)
    yield st, SV("bool", z3.Implies(z3.InRe(a, to_z3(pat)),
                                    z3.And(z3.IndexOf(s, sp, 0) == z3.Length(a),
                                           z3.SubString(s, 0, z3.Length(a)) == a,
                                           z3.SubString(s, z3.Length(a) + len(sep), z3.Length(s) - z3.Length(a) - len(sep)) == b)))


def _sb_int_of_signed(ex, st, args, kwargs):
    c, sg, d = [bm.sstr(x) for x in args]
    yield st, SV("bool", bm.int_of_signed_instance(c, sg, d))


def _sb_py_isalpha(ex, st, args, kwargs):
    from .builtins_calls import _m_isalpha

    yield from _m_isalpha(ex, st, args[0], [], {})


def _sb_py_isdigit(ex, st, args, kwargs):
    from .builtins_calls import _m_isdigit

    yield from _m_isdigit(ex, st, args[0], [], {})


def _sb_unmodified(ex, st, args, kwargs):
    """No mutating collaborator call on the (opaque) object was recorded on this path."""
    (o,) = args
    hit = False
    for ev in st.trace:
        if ev[0] == "mutate":
            m = ev[1]
            if isinstance(m, Opaque) and isinstance(o, Opaque):
                if m.kind != o.kind:
                    continue  # objects of different abstract kinds are different objects
                if m.t.eq(o.t):
                    hit = True
                else:
                    raise Unsupported("unmodified(): two abstract objects of the same kind may alias")
            elif m == o:
                hit = True
    yield st, not hit


def _sb_uf(ex, st, args, kwargs):
    """uf('name', sort, args...): an uninterpreted function of the arguments (a value determined by
    the arguments alone)."""
    name, sort = args[0], args[1]
    yield st, pure_result(ex, st, name, sort, list(args[2:]))


def _sb_called(ex, st, args, kwargs):
    """called('Kind.meth'): number of recorded calls of that collaborator method on this path."""
    (name,) = args
    yield st, sum(1 for ev in st.trace if ev[0] == "call" and ev[1] == name)


def _sb_call_arg(ex, st, args, kwargs):
    """call_arg('Kind.meth', i): i-th argument of the (single) recorded call of that collaborator."""
    name, i = args[0], args[1]
    calls = [ev for ev in st.trace if ev[0] == "call" and ev[1] == name]
    if len(args) > 2:  # call_arg('Kind.meth', i, nth): of the nth recorded call
        if not (0 <= args[2] < len(calls)):
            raise Unsupported(f"call_arg: {len(calls)} recorded calls of {name}, asked for call {args[2]}")
        yield st, calls[args[2]][3][i]
        return
    if len(calls) != 1:
        raise Unsupported(f"call_arg: {len(calls)} recorded calls of {name}")
    yield st, calls[0][3][i]


def _sb_call_result(ex, st, args, kwargs):
    """call_result('Kind.meth'): what the (single) recorded call of that function under contract returned."""
    name = args[0]
    rets = [ev for ev in st.trace if ev[0] == "ret" and ev[1] == name]
    if len(args) > 1:  # call_result('Kind.meth', nth)
        if not (0 <= args[1] < len(rets)):
            raise Unsupported(f"call_result: {len(rets)} recorded returns of {name}, asked for return {args[1]}")
        yield st, rets[args[1]][2]
        return
    if len(rets) != 1:
        raise Unsupported(f"call_result: {len(rets)} recorded returns of {name}")
    yield st, rets[0][2]


def _sb_returned(ex, st, args, kwargs):
    """returned('F'): number of recorded calls of the function under contract F that returned normally on this path (a
    call that raised is recorded by called() but not here)."""
    (name,) = args
    yield st, sum(1 for ev in st.trace if ev[0] == "ret" and ev[1] == name)


def _sb_yielded(ex, st, args, kwargs):
    """yielded(): what the generator under contract yielded since the last loop cut (in a step clause: during this
    iteration), as a tuple."""
    buf = st.fr.env.get("$yield")
    items = list(st.deref(buf).items) if isinstance(buf, Ref) else []
    for i in range(len(items) - 1, -1, -1):
        if isinstance(items[i], Opaque) and items[i].kind == "YieldedFrom":
            items = items[i + 1:]
            break
    yield st, tuple(items)


def _sb_call_recv(ex, st, args, kwargs):
    """call_recv('Kind.meth'): the receiver of the (single) recorded call of that collaborator method."""
    (name,) = args
    calls = [ev for ev in st.trace if ev[0] == "call" and ev[1] == name]
    if len(calls) != 1:
        raise Unsupported(f"call_recv: {len(calls)} recorded calls of {name}")
    yield st, calls[0][2]


def _sb_strip_blank(ex, st, args, kwargs):
    """strip_blank(s): a whitespace-only string strips to '' (trusted fact about str.strip)."""
    (s,) = args
    t = bm.sstr(s)
    yield st, SV("bool", z3.Implies(z3.InRe(t, z3.Star(bm.RE_WS)), bm.PY_STRIP(t) == z3.StringVal("")))


def _sb_some(ex, st, args, kwargs):
    """some(x): the payload of an optional value (meaningful where x is known not to be None)."""
    (v,) = args
    if isinstance(v, SV) and isinstance(v.sort, tuple) and v.sort[0] == "opt":
        yield st, SV(v.sort[1], z3sort(v.sort).val(v.t))
    else:
        yield st, v


def _sb_call_kwarg(ex, st, args, kwargs):
    """call_kwarg('Kind.meth', 'name'): keyword argument of the single recorded call."""
    name, key = args
    calls = [ev for ev in st.trace if ev[0] == "call" and ev[1] == name]
    if len(calls) != 1:
        raise Unsupported(f"call_kwarg: {len(calls)} recorded calls of {name}")
    kw = dict(calls[0][4])
    if key not in kw:
        raise Unsupported(f"call_kwarg: {name} was not called with keyword {key}")
    yield st, kw[key]


def _comp_filter(st):
    """The single recorded filtering comprehension; when there is none (or several) an arbitrary element and an
    arbitrary condition are returned - clauses guard with comp_filter_count() == 1."""
    evs = [ev for ev in st.trace if ev[0] == "comp-filter"]
    if len(evs) != 1:
        return ("comp-filter", 0, Opaque("Any"), fresh("bool", "nofilter"))
    return evs[0]


def _sb_comp_filter_count(ex, st, args, kwargs):
    """comp_filter_count(): number of filtering comprehensions over abstract collections executed on this path."""
    yield st, sum(1 for ev in st.trace if ev[0] == "comp-filter")


def _sb_comp_filter_element(ex, st, args, kwargs):
    """comp_filter_element(): the arbitrary element for which the (single) filtering comprehension on this path
    evaluated its condition."""
    yield st, _comp_filter(st)[2]


def _sb_comp_filter_condition(ex, st, args, kwargs):
    """comp_filter_condition(): that condition, as a truth value."""
    yield st, _comp_filter(st)[3]


def _sb_called_before(ex, st, args, kwargs):
    """called_before('A.f', 'B.g'): both were called exactly once on this path, f before g."""
    a, b = args
    ia = [i for i, ev in enumerate(st.trace) if ev[0] == "call" and ev[1] == a]
    ib = [i for i, ev in enumerate(st.trace) if ev[0] == "call" and ev[1] == b]
    yield st, len(ia) == 1 and len(ib) == 1 and ia[0] < ib[0]


def _sb_call_kwarg_names(ex, st, args, kwargs):
    """call_kwarg_names('name'): the (sorted) keyword names of the single recorded call."""
    (name,) = args
    calls = [ev for ev in st.trace if ev[0] == "call" and ev[1] == name]
    if len(calls) != 1:
        raise Unsupported(f"call_kwarg_names: {len(calls)} recorded calls of {name}")
    yield st, tuple(sorted(k for k, _ in calls[0][4]))


def _sb_loops_exhausted(ex, st, args, kwargs):
    """Every (invariant-cut) loop on this path ended because its iterable was exhausted, not by break."""
    yield st, all(done for _, done in st.ghost.get("loops", ()))


def _sb_py_repr(ex, st, args, kwargs):
    from .builtins_calls import _repr

    yield from _repr(ex, st, list(args), {})


def _sb_py_strip(ex, st, args, kwargs):
    (s,) = args
    for st1, w in ex.narrow(st, s):
        if w is None:
            yield ex.raise_(st1, "AttributeError")
        else:
            yield st1, bm.model_strip(ex, st1, w)


def _sb_py_int_strip(ex, st, args, kwargs):
    (s,) = args
    yield st, (SV("str", bm.strip_term(bm.sstr(s), "int")) if is_sym(s) else s.strip(" \t\n\x0b\x0c\r"))


SPEC_BUILTINS = {"returned": _sb_returned, "yielded": _sb_yielded, "call_recv": _sb_call_recv, "call_result": _sb_call_result, "called_before": _sb_called_before, "comp_filter_count": _sb_comp_filter_count, "comp_filter_element": _sb_comp_filter_element, "comp_filter_condition": _sb_comp_filter_condition, "call_kwarg_names": _sb_call_kwarg_names, "digit_at": _sb_digit_at, "char_in_token": _sb_char_in_token, "lstrip_noop": _sb_lstrip_noop, "char_of_slice": _sb_char_of_slice, "find_in": _sb_find_in, "rfind_in": _sb_rfind_in, "split_first": _sb_split_first, "last_of": _sb_last_of, "strip_noop": _sb_strip_noop, "chars_at": _sb_chars_at, "digit_chars": _sb_digit_chars, "leading_zeros": _sb_leading_zeros, "digits_only": _sb_digits_only, "head_of": _sb_head_of, "py_int": _sb_py_int, "py_int_ok": _sb_py_int_ok, "nat_shift": _sb_nat_shift, "char_at": _sb_char_at, "int_of_digits": _sb_int_of_digits, "substr_at": _sb_substr_at, "strip_core": _sb_strip_core, "cut_at": _sb_cut_at, "excludes": _sb_excludes, "int_padded": _sb_int_padded, "py_int_strip": _sb_py_int_strip, "py_repr": _sb_py_repr, "loops_exhausted": _sb_loops_exhausted, "call_kwarg": _sb_call_kwarg, "some": _sb_some, "index_at": _sb_index_at, "strip_blank": _sb_strip_blank, "pos_of": _sb_pos_of, "call_arg": _sb_call_arg, "unmodified": _sb_unmodified, "uf": _sb_uf, "called": _sb_called, "py_isalpha": _sb_py_isalpha, "py_isdigit": _sb_py_isdigit, "int_of_signed": _sb_int_of_signed, "strip_padded": _sb_strip_padded, "strip_unique": _sb_strip_unique, "py_strip": _sb_py_strip, "pad": _sb_pad, "matches": _sb_matches, "nat": _sb_nat, "key_at": _sb_key_at, "val_at": _sb_val_at,
                 "same_dict": _sb_same_dict}


def bm_split(s):
    from .values import _split_top

    parts = _split_top(s)
    if len(parts) != 2:
        raise ValueError(f"dict sort needs two components: {s}")
    return parts[0].strip(), parts[1].strip()


def assume_method(db, kind, meth, returns=None, raises=(), mutates=False, pure=False, custom=None):
    """Declare the ASSUMED contract of a method of an abstract collaborator (opaque kind).

    returns : sort spec of the result (None -> returns None); with ``pure`` the result is a
              deterministic uninterpreted function of (receiver, scalar arguments)
    raises  : exception class names the call may raise (always possible)
    mutates : the call is recorded as a mutation of the receiver on the ghost trace
    """
    db.opaque_attrs[(kind, meth)] = ("method", None)

    def handler(ex, st, recv, args, kwargs):
        st.trace.append(("call", f"{kind}.{meth}", recv, tuple(args), tuple(sorted(kwargs.items(), key=lambda kv: kv[0]))))
        if mutates:
            st.trace.append(("mutate", recv))
        for e in raises:
            st_e = st.fork()
            yield ex.raise_(st_e, e)
        if custom is not None:
            yield from custom(ex, st, recv, args, kwargs)
            return
        if returns is None:
            yield st, None
            return
        if pure:
            kw = dict(kwargs)
            if "**" in kw:
                inner = kw.pop("**")
                if inner.open:
                    raise Unsupported(f"pure collaborator call {kind}.{meth} with open **kwargs")
                kw = {**inner.known, **kw}
            extra = []
            for k in sorted(kw):
                extra += [k, kw[k]]
            r = pure_result(ex, st, f"{kind}.{meth}", returns, [recv] + list(args) + extra)
        else:
            r = db.make_value(ex, st, returns, f"{kind}_{meth}")
        st.trace.append(("ret", f"{kind}.{meth}", r))  # call_result('Kind.meth') of a collaborator method
        yield st, r

    db.opaque_methods[(kind, meth)] = handler
    db.assumed_collaborators.add(f"{kind}.{meth}")


def pure_result(ex, st, name, returns, args):
    """Deterministic result: uninterpreted function(s) of the scalar/opaque arguments."""
    zargs = []
    for a in args:
        a = st.deref(a)
        if isinstance(a, SV) and a.sort in ("int", "str", "bool"):
            # scalars are passed in their optional sort, so a narrowed and an un-narrowed view of the
            # same value reach the same uninterpreted function
            zargs.append(lift(a, ("opt", a.sort)))
        elif isinstance(a, (SV, Opaque)):
            zargs.append(a.t)
        elif isinstance(a, bm.SSeq):
            zargs += [a.n, a.arr]
        elif isinstance(a, (bool, int, str)):
            zargs.append(lift(a, ("opt", natural_sort(a))))
        elif a is None:
            zargs.append(z3.IntVal(-1))  # marker for an explicit None argument
        elif isinstance(a, SDict):
            zargs += [a.n, a.key_at, a.has, a.val]
        else:
            raise Unsupported(f"pure collaborator call {name} with argument {a!r}")
    returns = returns.strip()
    if returns.startswith("seq["):
        es = parse_sort(returns[4:-1])
        fn = ex.uf(name + ".n", *[z.sort() for z in zargs], z3.IntSort())
        fa = ex.uf(name + ".a", *[z.sort() for z in zargs], z3.ArraySort(z3.IntSort(), z3sort(es)))
        n = fn(*zargs) if zargs else fn()
        bm.axiom(n >= 0)
        return bm.SSeq(es, n, fa(*zargs) if zargs else fa())
    rs = parse_sort(returns)
    f = ex.uf(name, *[z.sort() for z in zargs], z3sort(rs))
    return SV(rs, f(*zargs) if zargs else f())


class Maker:
    def __init__(self, ex, st, db):
        self.ex, self.st, self.db = ex, st, db
        self.exports = {}  # extra names usable in the contract clauses (ghost handles on parts of a value)

    def value(self, spec, base="p"):
        return self.db.make_value(self.ex, self.st, spec, base)

    def obj(self, cls, fields=None, open_fields=None, raw=None, **flags):
        o = Obj(cls, {k: (self.value(v, k) if isinstance(v, str) or callable(v) else v) for k, v in (fields or {}).items()})
        o.fields.update(raw or {})  # concrete field values (no sort-spec interpretation)
        o.open_fields = open_fields
        o.closed = open_fields is None  # reading an undeclared field => undecided, never silently a value
        for k, v in flags.items():
            setattr(o, k, v)
        return self.st.alloc(o)

    def plist(self, items):
        return self.st.alloc(PList(items))

    def kwargs(self, known, open_=False):
        return bm.Kwargs({k: (self.value(v, k) if isinstance(v, str) else v) for k, v in known.items()}, open_)

    def assume(self, t):
        self.st.assume(t)


# ---------------------------------------------------------------------------
# contract expression evaluation
# ---------------------------------------------------------------------------
def _parse(expr: str):
    return ast.parse(expr.strip(), mode="eval").body


def eval_spec(ex: Exec, st: State, expr, env: dict, what=""):
    """Evaluate a contract clause (python expression string) to a z3 Bool / concrete bool.

    The clause is evaluated by the same symbolic evaluator in a frame of the spec module whose
    locals are ``env``.  Forking inside a clause is merged back into one formula.
    """
    if callable(expr):
        return expr(SpecCtx(ex, st, env))
    node = _parse(expr)
    fr = Frame(ex.db.spec_module, dict(env), qualname="<spec>")
    st0 = st.fork()
    base = len(st0.pc)
    st0.push_frame(fr)
    disj = []
    ex.spec_mode += 1
    try:
        for st1, v in ex.ev(node, st0):
            if isinstance(v, Exc):
                if not ex.feasible(st1.pc) or not ex.feasible(st1.pc, deep=True):
                    continue
                raise Unsupported(f"contract clause {what or expr!r} raises {v.exc.cls}")
            t = ex.truthy(st1, v)
            delta = st1.pc[base:]
            tt = bm._z(t)
            disj.append(z3.And(*delta, tt) if delta else tt)
    finally:
        ex.spec_mode -= 1
    if not disj:
        return z3.BoolVal(False)
    return disj[0] if len(disj) == 1 else z3.Or(*disj)


def eval_term(ex: Exec, st: State, expr: str, env: dict):
    """Evaluate a contract expression to a single value (must not fork)."""
    node = _parse(expr)
    st0 = st.fork()
    st0.push_frame(Frame(ex.db.spec_module, dict(env), qualname="<spec>"))
    res = [(s1, v) for s1, v in ex.ev(node, st0)]
    if len(res) != 1 or isinstance(res[0][1], Exc):
        raise Unsupported(f"contract term {expr!r} forks or raises")
    return res[0][1]


class SpecCtx:
    def __init__(self, ex, st, env):
        self.ex, self.st, self.env = ex, st, env


# --- special forms usable inside clauses ------------------------------------
def _sf_old(ex, st, node):
    """old(e): value of e in the pre-state of the function under verification / callee."""
    if st.old is None:
        raise Unsupported("old() outside a post-condition")
    old_heap, old_env = st.old
    tmp = State()
    tmp.pc = list(st.pc)
    tmp.heap = {a: o.clone() for a, o in old_heap.items()}
    tmp.push_frame(Frame(ex.db.spec_module, dict(old_env), qualname="<old>"))
    tmp.old = None
    res = list(ex.ev(node.args[0], tmp))
    if len(res) != 1 or isinstance(res[0][1], Exc):
        raise Unsupported("old(...) forks or raises")
    st_o, v = res[0]
    yield st, st.import_value(v, st_o.heap)


def _sf_implies(ex, st, node):
    a, b = node.args
    for st1, va in ex.ev(a, st):
        if isinstance(va, Exc):
            yield st1, va
            continue
        for st2, ba in ex.branch(st1, ex.truthy(st1, va)):
            if not ba:
                yield st2, True
            else:
                try:
                    yield from ex.ev(b, st2)
                except Unsupported:
                    # the consequent cannot be evaluated: harmless if the antecedent is impossible here
                    if ex.feasible(st2.pc) and ex.feasible(st2.pc, deep=True):
                        raise


def _quant(is_forall):
    def h(ex, st, node):
        # forall("int", lambda j: body)  /  forall(("opt","str"), lambda k: body)
        sort_node, lam = node.args
        sort = ast.literal_eval(sort_node)
        if not isinstance(lam, ast.Lambda):
            raise Unsupported("quantifier needs a lambda")
        names = [a.arg for a in lam.args.args]
        sorts = sort if isinstance(sort, list) else [sort] * len(names)
        bound = [fresh(s, n) for s, n in zip(sorts, names)]
        st0 = st.fork()
        base = len(st0.pc)
        st0.push_frame(Frame(st.fr.modname, dict(zip(names, bound)), parent=st.frames[-1], qualname="<quant>"))
        pos, neg = [], []
        for st1, v in ex.ev(lam.body, st0):
            if isinstance(v, Exc):
                if not ex.feasible(st1.pc) or not ex.feasible(st1.pc, deep=True):
                    continue
                raise Unsupported(f"quantifier body raises {v.exc.cls}")
            t = bm._z(ex.truthy(st1, v))
            delta = st1.pc[base:]
            pos.append(z3.And(*delta, t) if delta else t)
        body = z3.Or(*pos) if len(pos) != 1 else pos[0]
        vars_ = [b.t for b in bound]
        yield st, SV("bool", z3.ForAll(vars_, body) if is_forall else z3.Exists(vars_, body))

    return h


def _sf_ite(ex, st, node):
    """ite(c, a, b): a single If-term when both arms are scalars of one sort, else a fork."""
    c, a, b = node.args
    if ex.spec_mode:
        try:
            cf = ex.merge_bool(c, st)
            sa = st.fork()
            sa.pc.append(cf)
            sb = st.fork()
            sb.pc.append(z3.Not(cf))
            ra = [(s1, v) for s1, v in ex.ev(a, sa)]
            rb = [(s1, v) for s1, v in ex.ev(b, sb)]
            if len(ra) == 1 and len(rb) == 1 and not isinstance(ra[0][1], Exc) and not isinstance(rb[0][1], Exc):
                va, vb = ra[0][1], rb[0][1]
                if len(ra[0][0].pc) == len(sa.pc) and len(rb[0][0].pc) == len(sb.pc):
                    so = None
                    na, nb = natural_sort(va), natural_sort(vb)
                    if na is not None and na == nb:
                        so = na
                    elif {na, nb} <= {"int", "bool"} and None not in (na, nb):
                        so = "int"
                    elif va is None and isinstance(nb, (str, tuple)) and nb is not None:
                        so = nb if (isinstance(nb, tuple) and nb[0] == "opt") else ("opt", nb)
                    elif vb is None and na is not None:
                        so = na if (isinstance(na, tuple) and na[0] == "opt") else ("opt", na)
                    if so is not None and not (isinstance(so, tuple) and so[0] == "u"):
                        yield st, SV(so, z3.If(cf, lift(va, so), lift(vb, so)))
                        return
        except (Unsupported, TypeError):
            pass
    for st1, vc in ex.ev(c, st):
        for st2, bc in ex.branch(st1, ex.truthy(st1, vc)):
            yield from ex.ev(a if bc else b, st2)


bm.SYNTAX_FORMS.update({"old": _sf_old, "implies": _sf_implies, "forall": _quant(True), "exists": _quant(False), "ite": _sf_ite})


# ---------------------------------------------------------------------------
# loops
# ---------------------------------------------------------------------------
def _loop_spec(ex: Exec, node):
    c = ex.cur_fn_contract(node)
    return c


def assigned_names(body):
    """Local names (re)bound and ``name.attr`` fields assigned somewhere in ``body``."""
    names, attrs = set(), set()

    def target(t):
        if isinstance(t, ast.Name):
            names.add(t.id)
        elif isinstance(t, (ast.Tuple, ast.List)):
            for e in t.elts:
                target(e.value if isinstance(e, ast.Starred) else e)
        elif isinstance(t, ast.Attribute) and isinstance(t.value, ast.Name):
            attrs.add((t.value.id, t.attr))
        # subscript targets mutate a heap object: covered by the loop frame check

    for n in body:
        for sub in ast.walk(n):
            if isinstance(sub, (ast.FunctionDef, ast.Lambda)):
                continue
            if isinstance(sub, ast.Assign):
                for t in sub.targets:
                    target(t)
            elif isinstance(sub, (ast.AugAssign, ast.AnnAssign, ast.For)):
                target(sub.target)
            elif isinstance(sub, ast.NamedExpr):
                target(sub.target)
            elif isinstance(sub, ast.ExceptHandler) and sub.name:
                names.add(sub.name)
            elif isinstance(sub, ast.With):
                for it in sub.items:
                    if it.optional_vars is not None:
                        target(it.optional_vars)
    return names, attrs


def _havoc(ex, st, names, attrs, spec: Loop):
    env = st.fr.env
    for nm in sorted(names):
        cur = env.get(nm)
        sort = spec.vars.get(nm) or natural_sort(cur)
        if sort is None:
            if nm not in env:
                continue  # assigned before use inside the loop
            if cur is None:
                # a local that is None at the loop head and assigned in the body: after an arbitrary number of
                # iterations it holds None or some value nothing is known about
                env[nm] = fresh(parse_sort("u:Any|None"), nm)
                continue
            raise Unsupported(f"loop: cannot infer sort of modified variable {nm}; declare it in Loop.vars")
        env[nm] = ex.db.make_value(ex, st, sort, nm) if isinstance(sort, str) else fresh(sort, nm)
    for base, attr in sorted(attrs):
        ref = env.get(base)
        if base not in env:
            continue  # the object is created inside the loop body (a local assigned before its attribute is)
        o = st.deref(ref)
        if not isinstance(o, Obj):
            raise Unsupported(f"loop modifies attribute of non-object {base}")
        cur = o.fields.get(attr)
        sort = spec.vars.get(f"{base}.{attr}") or natural_sort(cur)
        if sort is None:
            raise Unsupported(f"loop: cannot infer sort of {base}.{attr}")
        o.fields[attr] = fresh(sort, attr)


def _check_invs(ex, st, spec: Loop, kind, fname, ordinal, extra_env=None):
    env = {**getattr(ex, "cur_env", {}), **st.fr.env}
    env.update(extra_env or {})
    for i, inv in enumerate(spec.invariants):
        t = eval_spec(ex, st, inv, env, what=f"loop{ordinal}.inv{i}")
        ex.oblige(st, f"{fname}.loop{ordinal}.{kind}.inv{i}", f"loop-{kind}", t, info={"clause": inv})


def _check_steps(ex, st, spec: Loop, fname, ordinal, outcome="normal"):
    env = {**getattr(ex, "cur_env", {}), **st.fr.env}
    env["_outcome"] = outcome  # how this iteration ended: 'normal' | 'continue' | 'break' | 'return'
    for name, clause in spec.step:
        t = eval_spec(ex, st, clause, env, what=f"{fname}.loop{ordinal}.{name}")
        ex.oblige(st, f"{fname}.loop{ordinal}.step.{name}", "loop-step", t, info={"clause": clause})


def _assume_invs(ex, st, spec: Loop, extra_env=None):
    env = {**getattr(ex, "cur_env", {}), **st.fr.env}
    env.update(extra_env or {})
    for inv in spec.invariants:
        st.assume(eval_spec(ex, st, inv, env))
    for h in spec.hints:  # lemma-schema instances at the loop head (e.g. "the character under the cursor is a digit")
        st.assume(eval_spec(ex, st, h, env, what="loop hint"))


def _heap_snapshot(st):
    return {a: o.clone() for a, o in st.heap.items() if not isinstance(o, Frame)}


def _same_val(x, y):
    if x is y:
        return True
    if isinstance(x, (SV, Opaque)) and isinstance(y, (SV, Opaque)):
        return x.t.eq(y.t)
    if isinstance(x, tuple) and isinstance(y, tuple) and len(x) == len(y):
        return all(_same_val(a, b) for a, b in zip(x, y))
    try:
        return bool(x == y)
    except Exception:
        return False


def _heap_changed(before, st, allowed, havocked_fields=None):
    """Addresses of pre-existing heap objects whose content differs (loop frame check)."""
    out = []
    havocked_fields = havocked_fields or {}
    for a, o in before.items():
        n = st.heap.get(a)
        if n is None or a in allowed:
            continue
        if type(n) is not type(o):
            out.append(a)  # e.g. a concrete dict that became symbolic: it was written to
            continue
        if isinstance(o, Obj) and a in havocked_fields:
            skip = havocked_fields[a]
            same = list(o.fields) == list(n.fields) and all(_same_val(o.fields[k], n.fields[k]) for k in o.fields if k not in skip)
            if not same:
                out.append(a)
            continue
        if isinstance(o, PList):
            same = len(o.items) == len(n.items) and all(_same_val(x, y) for x, y in zip(o.items, n.items))
        elif isinstance(o, PDict):
            same = list(o.items) == list(n.items) and all(_same_val(o.items[k], n.items[k]) for k in o.items)
        elif isinstance(o, Obj):
            same = list(o.fields) == list(n.fields) and all(_same_val(o.fields[k], n.fields[k]) for k in o.fields)
        elif isinstance(o, SDict):
            same = all(x.eq(y) for x, y in zip(o.terms(), n.terms()))
        elif type(o).__name__ == "SSet":
            same = o.has.eq(n.has)
        elif type(o).__name__ == "PSet":
            same = o.items == n.items
        else:
            same = True
        if not same:
            out.append(a)
    return out


def _modifies_addrs(st, spec):
    addrs = set()
    for m in spec.modifies:
        base, _, attr = m.partition(".")
        v = st.fr.env.get(base)
        if attr:
            v = st.deref(v).fields.get(attr)
        if isinstance(v, Ref):
            addrs.add(v.addr)
    buf = st.fr.env.get("$yield")
    if isinstance(buf, Ref):
        addrs.add(buf.addr)  # the output of a generator function: every loop of it may yield
    return addrs


def _havoc_heap(ex, st, spec):
    buf = st.fr.env.get("$yield")
    if isinstance(buf, Ref):
        # what earlier iterations yielded is not enumerated: one marker item stands for it (as for `yield from` of an
        # abstract iterable), nothing can be concluded about the generator's items afterwards
        st.deref(buf).items[:] = [Opaque("YieldedFrom")]
    for m in spec.modifies:
        base, _, attr = m.partition(".")
        v = st.fr.env.get(base)
        if attr:
            v = st.deref(v).fields.get(attr)
        o = st.deref(v)
        if isinstance(o, PDict) and m in spec.vars and spec.vars[m].startswith("dict["):
            k, vs = bm_split(spec.vars[m][5:-1])
            o = bm.pdict_to_sdict(o, parse_sort(k), parse_sort(vs))
            st.heap[v.addr] = o
        if isinstance(o, SDict):
            _havoc_dict(st, o)
        elif type(o).__name__ == "SSet":
            o.has = z3.Array(fresh_name("hvset"), z3sort(o.esort), z3.BoolSort())
        elif isinstance(o, Opaque):
            pass
        elif isinstance(o, PList) and not attr:
            # a local list the loop appends to: from here on an abstract list (its mutations go to the ghost trace);
            # aliases held elsewhere keep the old (concrete) object - nothing may be concluded from them afterwards
            st.fr.env[base] = Opaque("PyList")
        else:
            raise Unsupported(f"loop modifies {m}: cannot havoc {o!r} (use a symbolic dict/set)")


def _frame_check(ex, st, before, spec, fname, ordinal, attrs=()):
    hf = {}
    for base, attr in attrs:
        v = st.fr.env.get(base)
        if isinstance(v, Ref):
            hf.setdefault(v.addr, set()).add(attr)
    changed = _heap_changed(before, st, _modifies_addrs(st, spec), hf)
    rest = []
    for a in changed:
        o_old, o_new = before[a], st.heap.get(a)
        if isinstance(o_old, SDict) and isinstance(o_new, SDict):
            # a symbolic dict outside the loop's frame whose terms differ syntactically: "it still has its content from
            # the loop head" is an obligation of the iteration (the solver decides whether the difference is real)
            names = [n for n, v in st.fr.env.items() if isinstance(v, Ref) and v.addr == a] or [f"object@{a}"]
            ex.oblige(st, f"{fname}.loop{ordinal}.frame[{names[0]}]", "frame",
                      z3.And([x == y for x, y in zip(o_new.terms(), o_old.terms())]),
                      info={"clause": f"the dict {names[0]} is not in the loop's 'modifies' and keeps its content across an iteration"})
        else:
            rest.append(a)
    changed = rest
    if changed:
        raise Unsupported(f"{fname}: loop {ordinal} mutates heap objects not listed in Loop.modifies: "
                          f"{[repr(before[a])[:60] for a in changed]}")


def run_while(ex: Exec, node: ast.While, st: State):
    spec, ordinal, fname = ex.loop_spec(node, st)
    if spec is None:
        yield from _unroll_while(ex, node, st, 0)
        return
    if spec.header is not None and spec.header != ast.unparse(node.test):
        raise SourceError(f"{fname}: loop {ordinal} header changed: {ast.unparse(node.test)!r}")
    if spec.unroll:
        yield from _unroll_while(ex, node, st, 0, symbolic=True)
        return
    _check_invs(ex, st, spec, "init", fname, ordinal)
    names, attrs = assigned_names(node.body)
    _havoc(ex, st, names, attrs, spec)
    _havoc_heap(ex, st, spec)
    _assume_invs(ex, st, spec)
    before = _heap_snapshot(st)
    v0 = None
    if spec.decreases:
        v0 = eval_term(ex, st, spec.decreases, {**getattr(ex, "cur_env", {}), **st.fr.env})
    for st1, c in ex.ev(node.test, st):
        if isinstance(c, Exc):
            yield st1, ("raise", c.exc)
            continue
        for st2, b in ex.branch(st1, ex.truthy(st1, c)):
            if not b:
                yield from ex.run_block(node.orelse, st2) if node.orelse else [(st2, ("normal", None))]
                continue
            for st3, out in ex.run_block(node.body, st2):
                _frame_check(ex, st3, before, spec, fname, ordinal, attrs)
                if out[0] in ("normal", "continue"):
                    _check_invs(ex, st3, spec, "preserve", fname, ordinal)
                    if v0 is not None:
                        v1 = eval_term(ex, st3, spec.decreases, {**getattr(ex, "cur_env", {}), **st3.fr.env})
                        ex.oblige(st3, f"{fname}.loop{ordinal}.variant", "loop-variant",
                                  z3.And(lift(v0, "int") >= 0, lift(v1, "int") < lift(v0, "int")),
                                  info={"clause": spec.decreases})
                elif out[0] == "break":
                    yield st3, ("normal", None)
                else:
                    yield st3, out


def _unroll_while(ex, node, st, depth, symbolic=False):
    if depth > 64:
        raise Unsupported("while loop without invariant does not terminate concretely within 64 iterations")
    for st1, c in ex.ev(node.test, st):
        if isinstance(c, Exc):
            yield st1, ("raise", c.exc)
            continue
        t = ex.truthy(st1, c)
        if isinstance(t, SV):
            if not symbolic:
                raise Unsupported(f"while loop with symbolic condition needs an invariant (line {node.lineno})")
            outcomes = list(ex.branch(st1, t))
        else:
            outcomes = [(st1, bool(t))]
        for st1b, b in outcomes:
            if not b:
                yield from ex.run_block(node.orelse, st1b) if node.orelse else [(st1b, ("normal", None))]
                continue
            for st2, out in ex.run_block(node.body, st1b):
                if out[0] in ("normal", "continue"):
                    yield from _unroll_while(ex, node, st2, depth + 1, symbolic)
                elif out[0] == "break":
                    yield st2, ("normal", None)
                else:
                    yield st2, out


def run_for(ex: Exec, node: ast.For, st: State):
    for st0, it in ex.ev(node.iter, st):
        if isinstance(it, Exc):
            yield st0, ("raise", it.exc)
            continue
        items = bm.iter_values(ex, st0, it)
        if items is not None:
            yield from _unroll_for(ex, node, st0, items, 0)
            continue
        dit = st0.deref(it)
        if dit is None or natural_sort(dit) in ("int", "bool", "real"):
            yield st0, ("raise", ExcVal("TypeError"))
            continue
        if isinstance(dit, Opaque) and (dit.kind, "iter") in ex.db.opaque_ops:
            # an abstract kind with declared iteration semantics (what its items are / TypeError when not iterable)
            for st1, sq in ex.db.opaque_ops[(dit.kind, "iter")](ex, st0, dit):
                if isinstance(sq, Exc):
                    yield st1, ("raise", sq.exc)
                else:
                    yield from _cut_for(ex, node, st1, sq)
            continue
        yield from _cut_for(ex, node, st0, dit)


def _unroll_for(ex, node, st, items, i):
    if i == len(items):
        if node.orelse:
            yield from ex.run_block(node.orelse, st)
        else:
            yield st, ("normal", None)
        return
    for st1, r in ex.assign(st, node.target, items[i]):
        if isinstance(r, Exc):
            yield st1, ("raise", r.exc)
            continue
        for st2, out in ex.run_block(node.body, st1):
            if out[0] in ("normal", "continue"):
                yield from _unroll_for(ex, node, st2, items, i + 1)
            elif out[0] == "break":
                yield st2, ("normal", None)
            else:
                yield st2, out


def _cut_for(ex, node, st, it):
    spec, ordinal, fname = ex.loop_spec(node, st)
    if spec is None:
        raise Unsupported(f"for loop over symbolic iterable needs an invariant (line {node.lineno})")
    if spec.header is not None and spec.header != ast.unparse(node.iter):
        raise SourceError(f"{fname}: loop {ordinal} header changed: {ast.unparse(node.iter)!r}")
    # the iterable is evaluated once: snapshot its terms (mutation during iteration is not modelled)
    if isinstance(it, DictView):
        d = st.get(it.d).clone()
        d.frozen = True
        it = DictView(st.alloc(d), it.kind)
    elif isinstance(it, SDict):
        d = it.clone()
        d.frozen = True
        it = DictView(st.alloc(d), "keys")
    _check_invs(ex, st, spec, "init", fname, ordinal, {"_i": 0})
    names, attrs = assigned_names(node.body)
    for x in ast.walk(node.target):
        if isinstance(x, ast.Name):
            names.discard(x.id)
    _havoc(ex, st, names, attrs, spec)
    _havoc_heap(ex, st, spec)
    i = z3.Int(fresh_name("_i"))
    _CUR_ST[0] = st
    n, elem = _sym_iter(ex, it, i)
    st.assume(i >= 0)
    st.assume(i <= n)
    if isinstance(it, DictView):
        # ground instance of the dict's well-formedness for the current entry
        d = st.get(it.d)
        st.assume(z3.Implies(i < n, z3.And(d.has[d.key_at[i]], d.pos[d.key_at[i]] == i)))
    _assume_invs(ex, st, spec, {"_i": SV("int", i)})
    before = _heap_snapshot(st)
    for st1, more in ex.branch(st, SV("bool", i < n)):
        if not more:
            st1.ghost = dict(st1.ghost)
            st1.ghost["loops"] = st1.ghost.get("loops", ()) + ((ordinal, True),)
            if node.orelse:
                yield from ex.run_block(node.orelse, st1)
            else:
                yield st1, ("normal", None)
            continue
        for st2, r in ex.assign(st1, node.target, elem):
            if isinstance(r, Exc):
                yield st2, ("raise", r.exc)
                continue
            for st3, out in ex.run_block(node.body, st2):
                _frame_check(ex, st3, before, spec, fname, ordinal, attrs)
                if out[0] in ("normal", "continue"):
                    _check_steps(ex, st3, spec, fname, ordinal, out[0])
                    _check_invs(ex, st3, spec, "preserve", fname, ordinal, {"_i": SV("int", i + 1)})
                elif out[0] == "break":
                    _check_steps(ex, st3, spec, fname, ordinal, "break")  # an iteration that ends in break is an iteration
                    st3.ghost = dict(st3.ghost)
                    st3.ghost["loops"] = st3.ghost.get("loops", ()) + ((ordinal, False),)
                    yield st3, ("normal", None)
                else:
                    if out[0] == "return":
                        _check_steps(ex, st3, spec, fname, ordinal, "return")  # ... and so is one that ends in return
                    yield st3, out


# ---------------------------------------------------------------------------
# call by contract
# ---------------------------------------------------------------------------
def apply_contract(ex: Exec, st: State, f: FuncRef, node, c: Contract, args, kwargs):
    ghost_bind = {}
    cur = ex.cur_contract
    if cur is not None and c.func in cur.call_variants:
        counts = dict(st.ghost.get("call_counts", {}))
        k = counts.get(c.func, 0)
        plan = cur.call_variants[c.func]
        if k < len(plan):
            variant, ghosts = plan[k]
            c2 = ex.db.contracts.get(f"{c.func}#{variant}")
            if c2 is None:
                raise Unsupported(f"call_variants: no contract {c.func}#{variant}")
            c = c2
            scope = {**getattr(ex, "cur_env", {}), **st.fr.env}
            ghost_bind = {g: eval_term(ex, st, expr, scope) for g, expr in ghosts.items()}
        counts[c.func] = k + 1
        st.ghost = {**st.ghost, "call_counts": counts}
    decos = [ast.unparse(d) for d in node.decorator_list]
    bound = None if "staticmethod" in decos else f.bound
    env = ex.bind_params(st, node, args, kwargs, bound)
    if env is None:
        yield ex.raise_(st, "TypeError")
        return
    env.update(ghost_bind)
    missing = [g for g in c.ghost if g not in env]
    if missing:
        raise Unsupported(f"contract {c.key} used at a call site without instantiating its ghost parameters {missing}")
    caller = ex.cur_name
    kw_seen = ()
    if node.args.kwarg is not None and isinstance(env.get(node.args.kwarg.arg), bm.Kwargs):
        kw_seen = tuple(sorted(env[node.args.kwarg.arg].known.items(), key=lambda kv: kv[0]))  # what **kwargs received
    st.trace.append(("call", c.qualname, None, tuple(env.get(a.arg) for a in node.args.posonlyargs + node.args.args), kw_seen))
    # a contract whose parameter is specialised to a literal (parse_digits#... with digits=2) speaks about calls with
    # that argument only: "the argument is that literal" is an obligation of the caller
    for pname, spec in c.params.items():
        if isinstance(spec, str) or callable(spec) or pname not in env:
            continue
        actual = st.deref(env[pname])
        if spec is None:
            ok = actual is None if not isinstance(actual, SV) else bm.values_equal(ex, st, actual, None)
        else:
            ok = bm.values_equal(ex, st, actual, spec)
        t = ok if not isinstance(ok, bool) else z3.BoolVal(ok)
        if isinstance(t, SV):
            t = t.t
        ex.oblige(st, f"{caller}.call[{c.qualname}].arg[{pname}]", "call-pre", t,
                  info={"clause": f"{pname} == {spec!r} (the callee contract {c.key} is stated for this argument)", "callee": c.key})
        st.assume(t)
    # pre-conditions are obligations of the caller
    for i, r in enumerate(c.requires):
        t = eval_spec(ex, st, r, env, what=f"{c.key}.requires[{i}]")
        ex.oblige(st, f"{caller}.call[{c.qualname}].pre{i}", "call-pre", t, info={"clause": r, "callee": c.key})
        st.assume(t)
    for h in c.hints:
        st.assume(eval_spec(ex, st, h, env, what="hint"))
    # snapshot for old(), then havoc what the callee may modify
    saved_old = st.old
    st.old = ({a: o.clone() for a, o in st.heap.items()}, dict(env))
    for m in c.modifies:
        _havoc_target(ex, st, env, m)
    # exceptional exits
    for exc_name, cond in c.raises.items():
        st_e = st.fork()
        if cond is not True:
            st_e.assume(eval_spec(ex, st_e, cond, env))
        st_e.old = saved_old
        if ex.feasible(st_e.pc):
            yield ex.raise_(st_e, exc_name)
    # normal exit
    if c.returns == "noreturn":
        return
    if not c.returns and any("result" in (e if isinstance(e, str) else "") for _, e in c.ensures + [("", x) for x in (c.call_ensures or [])]):
        raise Unsupported(f"contract {c.key} is used at a call site, mentions 'result', but declares no 'returns' sort")
    view = c.ensures if c.call_ensures is None else [(f"call{i}", e) for i, e in enumerate(c.call_ensures)]
    result = None
    if c.returns:
        # "the result is this function of the arguments": the result IS that term (no fresh symbol + equation), so that
        # identity-based reasoning about the returned object (unmodified(), `is`) sees one object
        for nm, e in list(view):
            m = re.fullmatch(r"\s*result == (uf\(.*\))\s*", e if isinstance(e, str) else "")
            if m and parse_sort(c.returns) == parse_sort(ast.literal_eval(ast.parse(m.group(1), mode="eval").body.args[1])):
                try:
                    result = eval_term(ex, st, m.group(1), env)
                    view = [(n2, e2) for n2, e2 in view if e2 is not e]
                except Unsupported:
                    result = None
                break
        if result is None:
            result = ex.db.make_value(ex, st, c.returns, "ret_" + c.qualname.split(".")[-1])
    env2 = dict(env)
    env2["result"] = result
    for name, e in view:
        t = eval_spec(ex, st, e, env2, what=f"{c.key}.{name}")
        tt = t.t if isinstance(t, SV) else t
        if str(e).strip() != "False" and (tt is False or (not isinstance(tt, bool) and z3.is_false(z3.simplify(tt)))):
            # a post-condition that is literally false at this call site would silently drop the caller's path
            # (a contract that never returns says so with the clause "False")
            raise Unsupported(f"post-condition {name!r} of {c.key} evaluates to False at a call site in {caller} (vacuous continuation)")
        st.assume(t)
    st.old = saved_old
    if ex.feasible(st.pc):
        st.trace.append(("ret", c.qualname, result))
        yield st, result


def _havoc_target(ex, st, env, m):
    """m: 'param' (a symbolic dict / object param) or 'param.field'."""
    if "." in m:
        base, attr = m.split(".", 1)
        o = st.deref(env[base])
        cur = o.fields.get(attr)
        dc = st.deref(cur)
        if isinstance(dc, SDict):
            _havoc_dict(st, dc)
        elif cur is None or isinstance(dc, tuple) or natural_sort(cur) is None:
            # a field holding None / a tuple / an object reference: afterwards it holds "something" that the callee's
            # post-condition has to pin down (e.g. `self.pending_tag is None`)
            o.fields[attr] = fresh(parse_sort("u:Any|None"), attr)
        else:
            o.fields[attr] = fresh(natural_sort(cur), attr)
        return
    o = st.deref(env[m])
    if isinstance(o, SDict):
        _havoc_dict(st, o)
    elif isinstance(o, Opaque):
        st.trace.append(("mutate", o))
    elif type(o).__name__ == "SSet":
        o.has = z3.Array(fresh_name("hvset"), z3sort(o.esort), z3.BoolSort())
    elif (isinstance(o, (PDict, PList)) or type(o).__name__ == "PSet") and isinstance(env[m], Ref):
        # a concrete dict / list / set handed to a callee that may fill it: afterwards an abstract collection (contents unknown)
        st.heap[env[m].addr] = Opaque("PyDict" if isinstance(o, PDict) else ("PyList" if isinstance(o, PList) else "PySet"))
    else:
        raise Unsupported(f"modifies {m}: unsupported target {o!r}")


def _havoc_dict(st, d: SDict):
    nd = SDict(d.ksort, d.vsort, base="hv")
    d.set_terms(nd.terms())
    for a in d.wf():
        st.assume(a)


# ---------------------------------------------------------------------------
# per-function driver
# ---------------------------------------------------------------------------
MAX_PATHS = 600
MAX_OBLIGATIONS = 4000
MAX_SECONDS = 240


class FunctionResult:
    def __init__(self, contract):
        self.contract = contract
        self.obligations: list[Obligation] = []
        self.paths = 0
        self.error = None  # (kind, message) for undecided
        self.inlined = set()
        self.assumed = set()
        self.notes = set()
        self.digest = None
        self.seconds = 0.0
        self.param_values = {}
        self.heap0 = {}


def loop_nodes(fn_node):
    out = []

    def visit(n, top):
        for ch in ast.iter_child_nodes(n):
            if isinstance(ch, (ast.FunctionDef, ast.Lambda)) and not top:
                pass
            if isinstance(ch, (ast.While, ast.For)):
                out.append(ch)
            visit(ch, False)

    visit(fn_node, True)
    return out


def verify_function(db: ContractDB, c: Contract, case=None) -> FunctionResult:
    res = FunctionResult(c)
    t0 = time.time()
    bm.reset_axioms()
    try:
        mod, node = get_def(c.module, c.qualname)
        res.digest = source_digest(c.module, c.qualname)
        ex = Exec(db)
        loops = loop_nodes(node)
        # loop specs are matched by header text when they carry one (robust to added/removed/reordered
        # loops), else by ordinal; a loop without a matching spec is unrolled if concrete, else undecided
        loop_map = {}
        by_header = {sp.header: sp for sp in c.loops if sp.header is not None}
        positional = [sp for sp in c.loops if sp.header is None]
        matched = set()
        for i, n in enumerate(loops):
            hdr = ast.unparse(n.test if isinstance(n, ast.While) else n.iter)
            sp = by_header.get(hdr)
            if sp is None and i < len(c.loops) and c.loops[i].header is None:
                sp = c.loops[i]
            if sp is not None:
                matched.add(id(sp))
            loop_map[id(n)] = (sp, i)
        # a loop whose header text changed: fall back to the spec at the same position (if no other loop claimed it),
        # with the header requirement dropped - the invariants then either still hold or fail as obligations, instead
        # of the whole function becoming undecided
        for i, n in enumerate(loops):
            if loop_map[id(n)][0] is None and i < len(c.loops) and id(c.loops[i]) not in matched:
                sp0 = c.loops[i]
                sp = Loop(invariants=sp0.invariants, decreases=sp0.decreases, vars=sp0.vars, header=None, modifies=sp0.modifies,
                          unroll=sp0.unroll, hints=sp0.hints, step=sp0.step)
                matched.add(id(sp0))
                loop_map[id(n)] = (sp, i)

        def loop_spec(n, st):
            sp = loop_map.get(id(n))
            if sp is not None:
                return sp[0], sp[1], c.qualname
            # a loop of an inlined callee: specs come from that function's (inline) contract
            fr = st.fr
            cc = db.get(f"{fr.modname}:{fr.qualname}")
            if cc is not None and cc.loops:
                hdr = ast.unparse(n.test if isinstance(n, ast.While) else n.iter)
                for i, spx in enumerate(cc.loops):
                    if spx.header == hdr:
                        return spx, i, fr.qualname
            return None, -1, fr.qualname

        ex.loop_spec = loop_spec
        ex.cur_name = c.qualname
        ex.cur_contract = c
        st = State()
        # parameters
        decos = [ast.unparse(d) for d in node.decorator_list]
        env = {}
        a = node.args
        names = [x.arg for x in a.posonlyargs + a.args + a.kwonlyargs]
        fr0 = Frame(c.module, {}, qualname=c.qualname)
        st.push_frame(fr0)
        for nm in names:
            if nm in c.params:
                env[nm] = db.make_value(ex, st, c.params[nm], nm)
            elif nm == "cls" and "classmethod" in decos:
                env[nm] = ClassRef(c.module, c.qualname.rsplit(".", 1)[0])
            else:
                # default value if declared, else error
                idx = names.index(nm)
                pos = a.posonlyargs + a.args
                d = None
                if idx < len(pos):
                    k = idx - (len(pos) - len(a.defaults))
                    if k >= 0:
                        d = a.defaults[k]
                else:
                    d = a.kw_defaults[idx - len(pos)]
                if d is None:
                    raise SourceError(f"{c.key}: parameter {nm} has no sort in the contract")
                env[nm] = list(ex.ev(d, st))[0][1]
        if a.kwarg is not None and c.kwargs and "sdict" in c.kwargs:
            env[a.kwarg.arg] = db.make_value(ex, st, c.kwargs["sdict"], "kwargs")
        elif a.kwarg is not None:
            kw = c.kwargs or {"known": {}, "open": False}
            env[a.kwarg.arg] = bm.Kwargs({k: db.make_value(ex, st, v, k) if isinstance(v, str) else v
                                          for k, v in kw["known"].items()}, kw.get("open", False))
        if a.vararg is not None:
            raise Unsupported("*args in function under contract")
        extra = set(c.params) - set(names)
        if extra:
            raise SourceError(f"{c.key}: contract declares unknown parameters {sorted(extra)}")
        fr0.env.update(env)
        ghost_env = {g: db.make_value(ex, st, srt, g) for g, srt in c.ghost.items()}
        ghost_env.update(db.exports)
        db.exports = {}
        env = {**ghost_env, **env}
        res.param_values = dict(env)
        res.ghost_names = sorted(ghost_env)
        ex.cur_env = dict(env)
        for r in c.requires + (list(case[1]) if case else []):
            st.assume(eval_spec(ex, st, r, env, what="requires"))
        if c.ghost_pre:
            c.ghost_pre(ex, st, env)
        # vacuity guard: the pre-condition must be satisfiable
        chk = z3.Solver()
        chk.set("timeout", 10000)
        chk.add(*st.pc)
        r = chk.check()
        ex.obligations.append(Obligation(f"{c.qualname}.requires-satisfiable", "vacuity", [], z3.BoolVal(r != z3.unsat),
                                         info={"clause": " and ".join(c.requires) or "True"}))
        for h in c.hints + c.assumes:
            st.assume(eval_spec(ex, st, h, env, what="hint"))
        # lemmas: valid facts over the parameters, proved on their own and then assumed
        for i, lem in enumerate(c.lemmas):
            t = eval_spec(ex, st, lem, env, what=f"lemma{i}")
            ex.oblige(st, f"{c.qualname}.lemma{i}", "lemma", t, info={"clause": lem})
            st.assume(t)
        st.old = ({a_: o.clone() for a_, o in st.heap.items()}, dict(env))
        res.heap0 = {a_: o.clone() for a_, o in st.heap.items()}
        is_gen = any(isinstance(n, (ast.Yield, ast.YieldFrom)) for n in ast.walk(node))
        if is_gen:
            st.fr.env["$yield"] = st.alloc(PList([]))
        for st1, out in ex.run_block(node.body, st):
            res.paths += 1
            if res.paths > MAX_PATHS or len(ex.obligations) > MAX_OBLIGATIONS or time.time() - t0 > MAX_SECONDS:
                raise Unsupported(f"path explosion: more than {MAX_PATHS} paths / {MAX_OBLIGATIONS} obligations / {MAX_SECONDS}s")
            kind, val = out
            res.notes.update(st1.notes)
            if kind == "raise":
                _check_raise(ex, st1, c, val, env)
            else:
                if is_gen:
                    val = bm.EagerGen(st1.get(st1.fr.env["$yield"]).items)
                elif kind != "return":
                    val = None
                _check_ensures(ex, st1, c, val, env)
        if c.ensures and not any(o.kind == "ensures" for o in ex.obligations) and c.returns != "noreturn" \
                and not any(n == "never-returns" for n, _ in c.ensures):
            # vacuity guard: a contract with post-conditions must have at least one returning path
            ex.obligations.append(Obligation(f"{c.qualname}.has-a-returning-path", "vacuity", [], z3.BoolVal(False),
                                             info={"clause": "some path of the function returns normally under the pre-condition"}))
        res.obligations = ex.obligations
        res.inlined = ex.inlined
        res.assumed = ex.assumed_calls
    except SourceError as e:
        res.error = ("source", str(e))
    except NeedsContract as e:
        res.error = ("needs-contract", str(e))
    except Unsupported as e:
        res.error = ("unsupported", str(e))
    res.seconds = time.time() - t0
    return res


def _post_env(st, env, result):
    e = dict(env)
    # parameters are evaluated in the *current* frame for objects (Refs stay valid), scalars keep entry values
    e["result"] = result
    return e


def _check_frame(ex, st, c: Contract, env):
    """Frame obligation: every field of a parameter object that the body assigned and that
    ``modifies`` does not list must end up with its entry value (callers only see the contract and
    keep their facts about everything outside the frame)."""
    if st.old is None:
        return
    old_heap = st.old[0]
    declared = set(c.modifies)
    # objects a declared 'param.field' points to (before or after the call) may change: aliases of them are in the frame
    allowed = set()
    for m in declared:
        if "." in m:
            base, attr = m.split(".", 1)
            b = env.get(base)
            if isinstance(b, Ref):
                for heap in (old_heap, st.heap):
                    o = heap.get(b.addr)
                    fv = o.fields.get(attr) if isinstance(o, Obj) else None
                    if isinstance(fv, Ref):
                        allowed.add(fv.addr)
        elif isinstance(env.get(m), Ref):
            allowed.add(env[m].addr)
    for name, v in env.items():
        if not isinstance(v, Ref) or name in declared or v.addr in allowed:
            continue
        o_new, o_old = st.heap.get(v.addr), old_heap.get(v.addr)
        if isinstance(o_new, Obj) and isinstance(o_old, Obj):
            for f in o_new.fields:
                if f not in o_old.fields or f"{name}.{f}" in declared:
                    continue
                x, y = o_new.fields[f], o_old.fields[f]
                if _same_val(x, y):
                    continue
                if isinstance(x, (SV, Opaque)) and isinstance(y, (SV, Opaque)) and x.t.sort() == y.t.sort():
                    t = x.t == y.t
                else:
                    t = z3.BoolVal(False)
                ex.oblige(st, f"{c.qualname}.frame[{name}.{f}]", "frame", t,
                          info={"clause": f"{name}.{f} is not in 'modifies' and keeps its entry value"})
        elif isinstance(o_new, SDict) and isinstance(o_old, SDict):
            pairs = list(zip(o_new.terms(), o_old.terms()))
            if not all(x.eq(y) for x, y in pairs):
                ex.oblige(st, f"{c.qualname}.frame[{name}]", "frame", z3.And([x == y for x, y in pairs]),
                          info={"clause": f"the dict {name} is not in 'modifies' and keeps its entry content"})
        elif o_old is not None and type(o_new) is not type(o_old):
            ex.oblige(st, f"{c.qualname}.frame[{name}]", "frame", z3.BoolVal(False),
                      info={"clause": f"{name} is not in 'modifies' and keeps its entry content"})


def _check_ensures(ex, st, c: Contract, result, env):
    _check_frame(ex, st, c, env)
    e = _post_env(st, env, result)
    for name, clause in c.ensures:
        t = eval_spec(ex, st, clause, e, what=f"{c.key}.{name}")
        ex.oblige(st, f"{c.qualname}.ensures.{name}", "ensures", t, info={"clause": clause, "result": result})
    # what callers assume instead of ``ensures`` must hold of the body as well; only "the result is a
    # function of these arguments" (result == uf(...)) is taken as the purity assumption it is
    for i, clause in enumerate(c.call_ensures or []):
        if re.match(r"\s*result(\[\d+\])? == uf\(", clause):
            continue
        t = eval_spec(ex, st, clause, e, what=f"{c.key}.call-view{i}")
        ex.oblige(st, f"{c.qualname}.ensures.call-view{i}", "ensures", t, info={"clause": clause, "result": result})


def _check_raise(ex, st, c: Contract, exc: ExcVal, env):
    allowed = None
    for name in c.raises:
        if is_exc_subclass(exc.cls, name):
            allowed = name
            break
    if allowed is None:
        ex.oblige(st, f"{c.qualname}.raises-only[{exc.cls}]", "raises", z3.BoolVal(False),
                  info={"clause": f"raises only {sorted(c.raises)}", "raised": exc.cls, "where": getattr(exc, "where", None)})
        return
    cond = c.raises[allowed]
    if cond is True:
        ex.oblige(st, f"{c.qualname}.raises[{allowed}]", "raises", z3.BoolVal(True), info={"clause": "True", "raised": exc.cls})
        return
    e = _post_env(st, env, None)
    t = eval_spec(ex, st, cond, e, what=f"{c.key}.raises[{allowed}]")
    ex.oblige(st, f"{c.qualname}.raises[{allowed}]", "raises", t, info={"clause": cond, "raised": exc.cls})
