"""Development driver: verify every contract of a contracts module and print the verdicts."""
import importlib
import sys
import time

import z3

from .contracts import ContractDB, verify_function


def solve(ob, timeout_ms=20000):
    s = z3.Solver()
    s.set("timeout", timeout_ms)
    from . import builtins_model as bm
    s.add(*bm.AXIOMS)
    s.add(*ob.pc)
    s.add(z3.Not(ob.goal))
    t0 = time.time()
    from .engine import hard_check
    r = hard_check(s, timeout_ms / 1000.0)
    return r, time.time() - t0, (s.model() if r == z3.sat else None)


def main():
    sys.path.insert(0, "/verif")
    db = ContractDB()
    db.inline.add("calendar:isleap")
    for m in sys.argv[1:]:
        importlib.import_module("contracts." + m).register(db)
    for key, c in db.contracts.items():
        if c.trusted or c.inline:
            continue
        res = verify_function(db, c)
        print(f"== {key}: paths={res.paths} obligations={len(res.obligations)} t={res.seconds:.2f}s error={res.error}")
        for ob in res.obligations:
            from .check import solve_obligation
            r, solver, dt, model, _ = solve_obligation(ob, 20, "/tmp", "dev")
            r = r + "/" + solver
            print(f"   {ob.name:60s} {str(r):18s} {dt:.2f}s  {ob.info.get('clause','')[:60]}")
            if model is not None:
                print("      model:", {str(d): model[d] for d in model.decls()[:12]})


if __name__ == "__main__":
    main()
