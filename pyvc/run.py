"""Development driver: python -m pyvc.run <substring of contract key | property id> ... [-v] [-s]

Verifies the matching contracts with the same worker as ``check`` (one fresh process per function, 16 at a
time) and prints every obligation that is not discharged (-v: all of them; -s: serial, in-process)."""
import multiprocessing as mp
import sys


def main():
    sys.path.insert(0, "/verif")
    from .check import build_db, worker

    db = build_db()
    pats = [a for a in sys.argv[1:] if not a.startswith("-")]
    verbose = "-v" in sys.argv
    keys = [k for k, c in db.contracts.items()
            if not c.trusted and not c.inline and any(p in k or p in c.properties for p in pats)]
    tasks = [(k, "quick", 20.0, None, None) for k in keys]
    if "-s" in sys.argv:
        outs = map(worker, tasks)
    else:
        pool = mp.Pool(min(16, len(tasks) or 1), maxtasksperchild=1)
        outs = pool.imap(worker, tasks)
    for out in outs:
        obs = out["obligations"]
        bad = [o for o in obs if o["status"] != "unsat"]
        print(f"== {out['key']}: paths={out['paths']} obligations={len(obs)} not-discharged={len(bad)} "
              f"t={out['seconds']:.1f}s error={out['error']}", flush=True)
        for o in (obs if verbose else bad):
            print(f"   {o['name']:62s} {o['status']}/{o['solver']:14s} {o['time']:.2f}s  {str(o.get('clause', ''))[-110:]}")
            if o.get("model") and o["status"] == "sat":
                print("      model:", str(o["model"])[:300])


if __name__ == "__main__":
    main()
