"""Development driver: python -m pyvc.run <substring of contract key> ... (verifies matching contracts)."""
import sys
import time

import z3


def main():
    sys.path.insert(0, "/verif")
    from .check import build_db, solve_obligation
    from .contracts import verify_function

    db = build_db()
    pats = sys.argv[1:]
    for key, c in db.contracts.items():
        if c.trusted or c.inline or not any(p in key or p in c.properties for p in pats):
            continue
        res = verify_function(db, c)
        print(f"== {key}: paths={res.paths} obligations={len(res.obligations)} t={res.seconds:.2f}s error={res.error}")
        for ob in res.obligations:
            r, solver, dt, model, _ = solve_obligation(ob, 20, "/tmp", "dev")
            if r != "unsat" or "-v" in pats:
                print(f"   {ob.name:60s} {r + '/' + solver:18s} {dt:.2f}s  {ob.info.get('clause','')[:70]}")
                if model is not None:
                    from .check import value_from_model
                    try:
                        print("      model:", {k: value_from_model(model, res.heap0, v) for k, v in res.param_values.items()})
                    except Exception as e:
                        print("      model error", e)


if __name__ == "__main__":
    main()
