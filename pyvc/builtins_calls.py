"""Dispatch of builtin functions, methods of builtin types, constructors, comprehensions."""
from __future__ import annotations

import ast

import z3

from . import builtins_model as bm
from .builtins_model import (
    DictViewBase,
    EagerGen,
    GenThunk,
    Kwargs,
    SSeq,
    _wrap_bool,
    _z,
    sstr,
    values_equal,
)
from .source import is_exc_subclass, load_module
from .values import (
    SV,
    BuiltinRef,
    ClassRef,
    Closure,
    Exc,
    ExcVal,
    EnumMember,
    Frame,
    FuncRef,
    ModuleRef,
    Obj,
    Opaque,
    PDict,
    PList,
    PSet,
    Ref,
    SDict,
    SSet,
    TypeRef,
    fresh,
    fresh_name,
    is_sym,
    lift,
    natural_sort,
    parse_sort,
    z3sort,
)


def U(msg):
    from .engine import Unsupported

    return Unsupported(msg)


DictView = DictViewBase


# ---------------------------------------------------------------------------
def dispatch(ex, st, f: BuiltinRef, args, kwargs):
    name = f.name
    if name.startswith("opaque:"):
        yield from call_opaque_method(ex, st, f, args, kwargs)
        return
    if "." in name and f.bound is not None:
        tp, meth = name.split(".", 1)
        h = METHODS.get((tp, meth))
        if h is None:
            ex.give_up(st, f"method {name}")
            return
        yield from h(ex, st, f.bound, args, kwargs)
        return
    h = FUNCS.get(name)
    if h is None:
        raise U(f"builtin {name}")
    yield from h(ex, st, args, kwargs)


# ---------------------------------------------------------------------------
# functions
# ---------------------------------------------------------------------------
def _len(ex, st, args, kwargs):
    (v,) = args
    for st1, w in ex.narrow(st, v):
        w = st1.deref(w)
        if isinstance(w, Obj) and w.tuple_fields is not None:
            yield st1, len(w.tuple_fields)
            continue
        s = natural_sort(w)
        if s == "str":
            yield st1, (len(w) if isinstance(w, str) else SV("int", z3.Length(w.t)))
        elif isinstance(w, (PList, EagerGen)):
            yield st1, len(w.items)
        elif isinstance(w, (tuple,)):
            yield st1, len(w)
        elif isinstance(w, (PDict, PSet)):
            yield st1, len(w.items)
        elif isinstance(w, SDict):
            yield st1, SV("int", w.n)
        elif isinstance(w, SSeq):
            yield st1, SV("int", w.n)
        elif isinstance(w, SV) and isinstance(w.sort, tuple) and w.sort[0] == "tuple":
            yield st1, len(w.sort) - 1
        elif w is None or s in ("int", "bool", "real"):
            yield ex.raise_(st1, "TypeError")
        elif isinstance(w, Opaque):
            fn = ex.uf("len_" + w.kind, z3sort(("u", w.kind)), z3.IntSort())
            bm.axiom(fn(w.t) >= 0)
            yield st1, SV("int", fn(w.t))
        else:
            raise U(f"len of {w!r}")


def _int(ex, st, args, kwargs):
    if len(args) != 1:
        raise U("int() arity")
    for st1, w in ex.narrow(st, args[0]):
        s = natural_sort(w)
        if s == "int":
            yield st1, w
        elif s == "bool":
            yield st1, (int(w) if isinstance(w, bool) else SV("int", lift(w, "int")))
        elif s == "str":
            yield from bm.model_int_of_str(ex, st1, w)
        elif s == "real":
            if isinstance(w, float):
                yield st1, int(w)
            else:
                # truncation towards zero of a real
                t = w.t
                yield st1, SV("int", z3.If(t >= 0, z3.ToInt(t), -z3.ToInt(-t)))
        elif w is None or isinstance(w, (Ref, tuple)):
            yield ex.raise_(st1, "TypeError")
        else:
            raise U(f"int of {w!r}")


def _str(ex, st, args, kwargs):
    if not args:
        yield st, ""
        return
    yield from bm.to_str(ex, st, args[0])


def _bool(ex, st, args, kwargs):
    yield st, (ex.truthy(st, args[0]) if args else False)


def _divmod(ex, st, args, kwargs):
    a, b = args
    for st1, q in ex.binop(st, ast.FloorDiv, a, b):
        if isinstance(q, Exc):
            yield st1, q
            continue
        for st2, r in ex.binop(st1, ast.Mod, a, b):
            yield st2, (r if isinstance(r, Exc) else (q, r))


def _quantify(ex, st, thunk: GenThunk, want_any: bool):
    """any/all over a generator expression."""
    node = thunk.node
    if len(node.generators) != 1:
        raise U("any/all with nested generators")
    g = node.generators[0]
    res = list(_ev_in_frame(ex, st, g.iter, thunk.frame))
    if len(res) != 1:
        raise U("any/all iterable forks")
    st, it = res[0]
    if isinstance(it, Exc):
        yield st, it
        return
    it = st.deref(it)
    items = bm.iter_values(ex, st, it)
    if items is not None:
        def go(i, st):
            if i == len(items):
                yield st, (not want_any)
                return
            for st1, r in _bind_and_eval(ex, st, thunk.frame, g, node.elt, items[i]):
                if isinstance(r, Exc):
                    yield st1, r
                    continue
                if r is _SKIP:
                    yield from go(i + 1, st1)
                    continue
                for st2, b in ex.branch(st1, ex.truthy(st1, r)):
                    if b == want_any:
                        yield st2, want_any
                    else:
                        yield from go(i + 1, st2)

        yield from go(0, st)
        return
    # symbolic collection: build a quantified formula
    j = z3.Int(fresh_name("q"))
    _CUR_ST[0] = st
    n, elem = _sym_iter(ex, it, j)
    sub = st.fork()
    base = len(sub.pc)
    disj = []
    for st1, r in _bind_and_eval(ex, sub, thunk.frame, g, node.elt, elem):
        if isinstance(r, Exc):
            raise U("any/all element may raise")
        delta = st1.pc[base:]
        if r is _SKIP:
            continue
        t = ex.truthy(st1, r)
        disj.append(z3.And(*delta, _z(t)) if delta else _z(t))
    body = z3.Or(*disj) if disj else z3.BoolVal(False)
    if want_any:
        yield st, SV("bool", z3.Exists([j], z3.And(0 <= j, j < n, body)))
    else:
        # all: every in-range j whose filters pass satisfies elt; paths partition the space
        neg = []
        sub2 = st.fork()
        for st1, r in _bind_and_eval(ex, sub2, thunk.frame, g, node.elt, elem):
            delta = st1.pc[base:]
            if r is _SKIP:
                continue
            t = ex.truthy(st1, r)
            neg.append(z3.And(*delta, z3.Not(_z(t))) if delta else z3.Not(_z(t)))
        viol = z3.Or(*neg) if neg else z3.BoolVal(False)
        yield st, SV("bool", z3.ForAll([j], z3.Implies(z3.And(0 <= j, j < n), z3.Not(viol))))


_SKIP = object()


_CUR_ST = [None]


def ex_st_deref(v):
    return _CUR_ST[0].deref(v)


def _sym_iter(ex, it, j):
    """(length term, element value at index j) of a symbolic iterable."""
    it = ex_st_deref(it)
    if isinstance(it, DictView):
        d = _CUR_ST[0].get(it.d)
        k = SV(d.ksort, d.key_at[j])
        v = SV(d.vsort, d.val[d.key_at[j]])
        return d.n, {"items": (k, v), "keys": k, "values": v}[it.kind]
    if isinstance(it, SDict):
        return it.n, SV(it.ksort, it.key_at[j])
    if isinstance(it, SSeq):
        return it.n, it.at(j)
    if isinstance(it, SV) and it.sort == "str":
        return z3.Length(it.t), SV("str", z3.SubString(it.t, j, 1), char=True)
    if isinstance(it, Opaque):
        # iterating an abstract collection: its items are a deterministic sequence of abstract values
        from .contracts import pure_result

        seq = pure_result(ex, _CUR_ST[0], f"iter_{it.kind}", "seq[u:Any]", [it])
        return seq.n, seq.at(j)
    raise U(f"symbolic iteration over {it!r}")


def _ev_in_frame(ex, st, node, frame):
    """Evaluate node with the frame ``frame`` (a Ref) as the current frame."""
    st.frames.append(frame)
    for st1, v in ex.ev(node, st):
        st1.frames.pop()
        yield st1, v


def _bind_and_eval(ex, st, frame, g, elt, item):
    sub = Frame(st.get(frame).modname, {}, parent=frame, qualname="<genexpr>")
    st.push_frame(sub)
    for st1, r in ex.assign(st, g.target, item):
        if isinstance(r, Exc):
            st1.pop_frame()
            yield st1, r
            continue

        def conds(i, st):
            if i == len(g.ifs):
                for st3, v in ex.ev(elt, st) if elt is not None else [(st, None)]:
                    yield st3, v
                return
            for st2, c in ex.ev(g.ifs[i], st):
                if isinstance(c, Exc):
                    yield st2, c
                    continue
                for st3, b in ex.branch(st2, ex.truthy(st2, c)):
                    if b:
                        yield from conds(i + 1, st3)
                    else:
                        yield st3, _SKIP

        for st2, v in conds(0, st1):
            st2.pop_frame()
            yield st2, v


def _any(ex, st, args, kwargs):
    (a,) = args
    if isinstance(a, GenThunk):
        yield from _quantify(ex, st, a, True)
        return
    items = bm.iter_values(ex, st, a)
    if items is None:
        raise U("any over symbolic iterable")

    def go(i, st):
        if i == len(items):
            yield st, False
            return
        for st1, b in ex.branch(st, ex.truthy(st, items[i])):
            if b:
                yield st1, True
            else:
                yield from go(i + 1, st1)

    yield from go(0, st)


def _all(ex, st, args, kwargs):
    (a,) = args
    if isinstance(a, GenThunk):
        yield from _quantify(ex, st, a, False)
        return
    items = bm.iter_values(ex, st, a)
    if items is None:
        raise U("all over symbolic iterable")

    def go(i, st):
        if i == len(items):
            yield st, True
            return
        for st1, b in ex.branch(st, ex.truthy(st, items[i])):
            if not b:
                yield st1, False
            else:
                yield from go(i + 1, st1)

    yield from go(0, st)


def _callable(ex, st, args, kwargs):
    (v,) = args
    if isinstance(v, (FuncRef, Closure, ClassRef, BuiltinRef, TypeRef)):
        yield st, True
    elif isinstance(v, Opaque):
        spec = ex.db.opaque_isinstance(v.kind, "Callable")
        if isinstance(spec, bool):
            yield st, spec
        else:
            fn = ex.uf("callable_" + v.kind, z3sort(("u", v.kind)), z3.BoolSort())
            yield st, SV("bool", fn(v.t))
    else:
        yield st, False


def _type(ex, st, args, kwargs):
    (v,) = args
    for st1, w in ex.narrow(st, v):
        w = st1.deref(w)
        s = natural_sort(w)
        if isinstance(w, EnumMember):
            yield st1, w.cls
        elif s in ("int", "bool", "str"):
            yield st1, TypeRef(s)
        elif s == "real":
            yield st1, TypeRef("float")
        elif w is None:
            yield st1, TypeRef("NoneType")
        elif isinstance(w, Obj):
            yield st1, ClassRef(*w.cls.split(":"))
        elif isinstance(w, PList):
            yield st1, TypeRef("list")
        elif isinstance(w, tuple):
            yield st1, TypeRef("tuple")
        elif isinstance(w, (PDict, SDict)):
            yield st1, TypeRef("dict")
        elif isinstance(w, ExcVal):
            yield st1, ClassRef("builtins", w.cls)
        elif isinstance(w, Opaque):
            fn = ex.uf("type_" + w.kind, z3sort(("u", w.kind)), z3sort(("u", "type")))
            yield st1, Opaque("type", fn(w.t))
        else:
            raise U(f"type() of {w!r}")


def _minmax(which):
    def h(ex, st, args, kwargs):
        vals = args
        if len(args) == 1:
            vals = bm.iter_values(ex, st, args[0])
            if vals is None:
                raise U("min/max of symbolic iterable")
        if not vals:
            yield ex.raise_(st, "ValueError")
            return
        if all(not is_sym(v) for v in vals):
            yield st, (min if which == "min" else max)(vals)
            return
        acc = lift(vals[0], "int")
        for v in vals[1:]:
            t = lift(v, "int")
            acc = z3.If(t < acc, t, acc) if which == "min" else z3.If(t > acc, t, acc)
        yield st, SV("int", acc)

    return h


def _abs(ex, st, args, kwargs):
    (v,) = args
    if not is_sym(v):
        yield st, abs(v)
    else:
        yield st, SV(v.sort, z3.If(v.t < 0, -v.t, v.t))


def _chr(ex, st, args, kwargs):
    (v,) = args
    if not is_sym(v):
        yield st, chr(v)
    else:
        yield st, SV("str", z3.StrFromCode(lift(v, "int")), char=True)


def _ord(ex, st, args, kwargs):
    (v,) = args
    if isinstance(v, str):
        if len(v) != 1:
            yield ex.raise_(st, "TypeError")
        else:
            yield st, ord(v)
        return
    if v.char:
        yield st, SV("int", z3.StrToCode(v.t))
        return
    for st1, ok in ex.branch(st, _wrap_bool(z3.Length(v.t) == 1)):
        if ok:
            yield st1, SV("int", z3.StrToCode(v.t))
        else:
            yield ex.raise_(st1, "TypeError")


def _list(ex, st, args, kwargs):
    if not args:
        yield st, st.alloc(PList([]))
        return
    a = st.deref(args[0])
    if isinstance(a, GenThunk):
        yield from comprehension_thunk(ex, st, a, "list")
        return
    items = bm.iter_values(ex, st, a)
    if items is None:
        if isinstance(a, SSeq):
            s = SSeq(a.sort, a.n, a.arr)
            s.pytype = "list"
            yield st, s
            return
        if isinstance(a, Opaque):
            yield st, Opaque("PyList")  # an abstract collection copied into a list: contents unknown
            return
        raise U(f"list() of {a!r}")
    yield st, st.alloc(PList(items))


def _tuple(ex, st, args, kwargs):
    if not args:
        yield st, ()
        return
    a = args[0]
    if isinstance(a, GenThunk):
        for st1, v in comprehension_thunk(ex, st, a, "list"):
            yield st1, (v if isinstance(v, Exc) else tuple(st1.deref(v).items))
        return
    items = bm.iter_values(ex, st, a)
    if items is None:
        if isinstance(a, Opaque):
            yield st, Opaque("PyTuple")  # an abstract collection copied into a tuple: contents unknown
            return
        raise U(f"tuple() of {a!r}")
    yield st, tuple(items)


def _dict(ex, st, args, kwargs):
    if not args:
        yield st, st.alloc(PDict(dict(kwargs)))
        return
    a = st.deref(args[0])
    if isinstance(a, SV) and isinstance(a.sort, tuple) and a.sort[0] == "opt":
        for st1, w in ex.narrow(st, a):
            yield from _dict(ex, st1, [w] + list(args[1:]), kwargs)
        return
    if isinstance(a, PDict):
        yield st, st.alloc(PDict({**a.items, **kwargs}))
    elif isinstance(a, SDict) and not kwargs:
        c = a.clone()
        c.frozen = False
        yield st, st.alloc(c)
    elif isinstance(a, Opaque) and (a.kind, "dict") in ex.db.opaque_ops:
        yield from ex.db.opaque_ops[(a.kind, "dict")](ex, st, a)
    elif isinstance(a, GenThunk):
        raise U("dict(genexpr)")
    elif a is None or natural_sort(a) in ("int", "bool", "real"):
        yield ex.raise_(st, "TypeError")
    elif natural_sort(a) == "str":
        raise U("dict(str)")
    else:
        raise U(f"dict() of {a!r}")


def _set(ex, st, args, kwargs):
    if not args:
        yield st, st.alloc(PSet())
        return
    a0 = st.deref(args[0])
    if isinstance(a0, DictView) or isinstance(a0, Opaque):
        # abstract set: a deterministic function of the collection
        from .contracts import pure_result

        src = st.get(a0.d) if isinstance(a0, DictView) else a0
        if isinstance(src, SDict):
            f = ex.uf("set_of_dict_" + a0.kind, z3.IntSort(), src.key_at.sort(), src.has.sort(), z3sort(("u", "Set")))
            yield st, Opaque("Set", f(src.n, src.key_at, src.has))
        else:
            yield st, pure_result(ex, st, "set_of_" + src.kind, "u:Set", [src])
        return
    items = bm.iter_values(ex, st, args[0])
    if items is None or any(is_sym(i) for i in items):
        raise U("set() of symbolic")
    yield st, st.alloc(PSet(items))


def _enumerate(ex, st, args, kwargs):
    items = bm.iter_values(ex, st, args[0])
    if items is None:
        src = st.deref(args[0])
        if isinstance(src, Opaque) and (src.kind, "iter") in ex.db.opaque_ops:
            got = [x for x in ex.db.opaque_ops[(src.kind, "iter")](ex, st, src) if not isinstance(x[1], Exc)]
            if len(got) == 1:
                st, src = got[0]
        if isinstance(src, SSeq) and len(args) == 1 and not kwargs:
            # enumerate over a sequence of unknown length: the sequence of (index, item) pairs
            ts = ("tuple", "int", src.sort)
            Z = z3sort(ts)
            j = z3.Int(fresh_name("enj"))
            pairs = SSeq(ts, src.n, z3.Lambda([j], Z.constructor(0)(j, src.arr[j])))
            yield st, pairs
            return
        raise U("enumerate of symbolic iterable")
    start = args[1] if len(args) > 1 else kwargs.get("start", 0)
    yield st, st.alloc(PList([(start + i, x) for i, x in enumerate(items)]))


def _zip(ex, st, args, kwargs):
    lists = [bm.iter_values(ex, st, a) for a in args]
    if any(x is None for x in lists):
        raise U("zip of symbolic iterable")
    yield st, st.alloc(PList(list(zip(*lists))))


def _map(ex, st, args, kwargs):
    fn = args[0]
    lists = [bm.iter_values(ex, st, a) for a in args[1:]]
    if any(x is None for x in lists):
        raise U("map over symbolic iterable")
    rows = list(zip(*lists))

    def go(i, st, acc):
        if i == len(rows):
            yield st, st.alloc(PList(acc))
            return
        for st1, v in ex.call(st, fn, list(rows[i]), {}):
            if isinstance(v, Exc):
                yield st1, v
            else:
                yield from go(i + 1, st1, acc + [v])

    yield from go(0, st, [])


def _filter(ex, st, args, kwargs):
    fn, it = args
    items = bm.iter_values(ex, st, it)
    if items is None and isinstance(it, SV) and it.sort == "str":
        # character filter of a symbolic string: an uninterpreted subsequence of it
        from .contracts import pure_result

        seq = pure_result(ex, st, "py_filter_chars_" + (fn.name if isinstance(fn, BuiltinRef) else "fn"), "seq[str]", [it])
        yield st, seq
        return
    if items is None:
        raise U("filter over symbolic iterable")

    def go(i, st, acc):
        if i == len(items):
            yield st, st.alloc(PList(acc))
            return
        for st1, v in (ex.call(st, fn, [items[i]], {}) if fn is not None else [(st, items[i])]):
            if isinstance(v, Exc):
                yield st1, v
                continue
            for st2, b in ex.branch(st1, ex.truthy(st1, v)):
                yield from go(i + 1, st2, acc + ([items[i]] if b else []))

    yield from go(0, st, [])


def _getattr(ex, st, args, kwargs):
    o, name = args[0], args[1]
    if is_sym(name) and isinstance(o, Opaque):
        # attribute chosen at run time on an abstract object: a function of (object, name); a missing
        # attribute falls back to the default when one is given
        from .contracts import pure_result

        if o.kind in ex.db.total_getattr:
            pass  # every requested attribute exists on objects of this kind (assumed, listed)
        elif len(args) > 2:
            st2 = st.fork()
            yield st2, args[2]
        else:
            st2 = st.fork()
            yield ex.raise_(st2, "AttributeError")
        yield st, pure_result(ex, st, "getattr_" + o.kind, "u:object", [o, name])
        return
    if is_sym(name):
        raise U("getattr with symbolic name")
    for st1, v in ex.getattr(st, o, name):
        if isinstance(v, Exc) and v.exc.cls == "AttributeError" and len(args) > 2:
            yield st1, args[2]
        else:
            yield st1, v


def _hasattr(ex, st, args, kwargs):
    o, name = args
    d = st.deref(o)
    if isinstance(d, Obj) and d.tuple_fields is not None and name == "_fields":
        yield st, True
        return
    proto = None
    if isinstance(d, PList):
        proto = []
    elif isinstance(d, tuple):
        proto = ()
    elif isinstance(d, (PDict, SDict)):
        proto = {}
    elif natural_sort(d) is not None and not isinstance(natural_sort(d), tuple):
        proto = {"str": "", "int": 0, "bool": True, "real": 0.0}[natural_sort(d)]
    if proto is not None:
        yield st, hasattr(proto, name)
        return
    for st1, v in ex.getattr(st, o, name):
        yield st1, not (isinstance(v, Exc) and v.exc.cls == "AttributeError")


def _range(ex, st, args, kwargs):
    if any(is_sym(a) for a in args):
        raise U("symbolic range")
    yield st, st.alloc(PList(list(range(*args))))


def _intern(ex, st, args, kwargs):
    yield st, args[0]


def _cast(ex, st, args, kwargs):
    yield st, args[1]


def _issubclass(ex, st, args, kwargs):
    a, b = args
    if any(isinstance(x, SV) and isinstance(x.sort, tuple) and x.sort[0] == "opt" for x in (a, b)):
        for st1, a1 in ex.narrow(st, a):
            for st2, b1 in ex.narrow(st1, b):
                if a1 is None or b1 is None:
                    yield ex.raise_(st2, "TypeError")
                else:
                    yield from _issubclass(ex, st2, [a1, b1], kwargs)
        return
    if isinstance(a, Opaque) and isinstance(b, Opaque):
        f = ex.uf(f"issubclass_{a.kind}_{b.kind}", z3sort(("u", a.kind)), z3sort(("u", b.kind)), z3.BoolSort())
        yield st, SV("bool", f(a.t, b.t))
        return
    if isinstance(a, ClassRef) and isinstance(b, ClassRef):
        names = [c.qualname for c in bm.class_mro(ex, a)] + bm.class_base_names(ex, a)
        yield st, b.qualname.split(".")[-1] in [n.split(".")[-1] for n in names]
        return
    def real(x):
        # builtin / standard-library classes named by the source: the real class objects answer (language facts)
        import builtins
        import datetime as _dt
        import decimal
        from xml.etree.ElementTree import QName as _Q
        known = {"decimal.Decimal": decimal.Decimal, "datetime.datetime": _dt.datetime, "datetime.date": _dt.date, "datetime.time": _dt.time,
                 "xml.etree.ElementTree.QName": _Q}
        if isinstance(x, TypeRef) and isinstance(getattr(builtins, x.name, None), type):
            return getattr(builtins, x.name)
        if isinstance(x, ClassRef):
            return known.get(f"{x.module}.{x.qualname}")
        return None

    if isinstance(b, tuple):
        parts = []
        for bb in b:
            outs = list(_issubclass(ex, st, [a, bb], kwargs))
            if len(outs) != 1 or not isinstance(outs[0][1], bool):
                raise U("issubclass against a tuple with abstract members")
            parts.append(outs[0][1])
        yield st, any(parts)
        return
    ra, rb = real(a), real(b)
    if ra is not None and rb is not None:
        yield st, issubclass(ra, rb)
        return
    if (ra is None) != (rb is None) and all(isinstance(x, (TypeRef, ClassRef)) for x in (a, b)):
        # a class of the repository against a builtin (or the other way round): related only through `object`
        repo, other = (a, rb) if ra is None else (b, ra)
        if ra is None:
            names = [c.qualname.split(".")[-1] for c in bm.class_mro(ex, a)] + [n.split(".")[-1] for n in bm.class_base_names(ex, a)]
            yield st, rb.__name__ in names or rb is object
        else:
            yield st, False
        return
    raise U("issubclass")


def _repr(ex, st, args, kwargs):
    (v,) = args
    if not is_sym(v) and isinstance(v, (int, str, float, bool, type(None), tuple)):
        yield st, repr(v)
        return
    if isinstance(v, SV) and v.sort == "int":
        yield st, SV("str", bm.int_to_str(v.t))
        return
    if isinstance(v, SV) and v.sort == "str":
        fn = ex.uf("repr_str", z3.StringSort(), z3.StringSort())
        yield st, SV("str", fn(v.t))
        return
    if isinstance(v, SV) and v.sort == "real":
        f = ex.uf("py_float_repr", z3.RealSort(), z3.StringSort())
        yield st, SV("str", f(v.t))
        return
    if isinstance(v, Opaque):
        from .contracts import pure_result

        yield st, pure_result(ex, st, "repr_" + v.kind, "str", [v])
        return
    raise U(f"repr of {v!r}")


def _sum(ex, st, args, kwargs):
    if isinstance(args[0], GenThunk):
        for st1, v in comprehension_thunk(ex, st, args[0], "list"):
            if isinstance(v, Exc):
                yield st1, v
            else:
                yield from _sum(ex, st1, [v] + list(args[1:]), kwargs)
        return
    items = bm.iter_values(ex, st, args[0])
    if items is None:
        raise U("sum of symbolic iterable")
    acc = args[1] if len(args) > 1 else 0

    def go(i, st, acc):
        if i == len(items):
            yield st, acc
            return
        for st1, v in ex.binop(st, ast.Add, acc, items[i]):
            if isinstance(v, Exc):
                yield st1, v
            else:
                yield from go(i + 1, st1, v)

    yield from go(0, st, acc)


def _float(ex, st, args, kwargs):
    (v,) = args
    if isinstance(v, str) and v in ("inf", "-inf", "nan"):
        yield st, float(v)
        return
    if isinstance(v, (int, float)) and not isinstance(v, bool):
        yield st, float(v)
        return
    if isinstance(v, SV) and v.sort in ("int", "real"):
        yield st, SV("real", lift(v, "real"))
        return
    if isinstance(v, SV) and isinstance(v.sort, tuple) and v.sort[0] == "opt":
        for st1, w in ex.narrow(st, v):
            if w is None:
                yield ex.raise_(st1, "TypeError")
            else:
                yield from _float(ex, st1, [w], kwargs)
        return
    if isinstance(v, SV) and v.sort == "str":
        # float(text): succeeds on (whitespace-padded) plain decimals [+-]?digits[.digits]; whether any other
        # text parses, and the binary value, are uninterpreted
        ok = ex.uf("py_float_ok", z3.StringSort(), z3.BoolSort())
        val = ex.uf("py_float_val", z3.StringSort(), z3.RealSort())
        c = bm.strip_term(v.t)
        dec = z3.Concat(z3.Option(z3.Union(z3.Re("+"), z3.Re("-"))), bm.RE_DIGITS, z3.Option(z3.Concat(z3.Re("."), z3.Star(bm.RE_DIGIT))))
        bm.axiom(z3.Implies(z3.Or(z3.InRe(c, dec), z3.InRe(v.t, dec)), ok(v.t)))
        for st1, good in ex.branch(st, _wrap_bool(ok(v.t))):
            if good:
                yield st1, SV("real", val(v.t))
            else:
                yield ex.raise_(st1, "ValueError")
        return
    raise U(f"float of {v!r}")


def _sorted(ex, st, args, kwargs):
    items = bm.iter_values(ex, st, args[0])
    if items is not None and len(items) <= 1:
        yield st, st.alloc(PList(items))
        return
    if items is not None and "key" in kwargs and set(kwargs) <= {"key"} and not any(is_sym(i) for i in items):
        # concrete items, key function evaluated by the engine (must give one concrete rank per item): a stable sort
        ranks = []
        for it in items:
            outs = list(ex.call(st, kwargs["key"], [it], {}))
            if len(outs) != 1 or isinstance(outs[0][1], Exc) or is_sym(outs[0][1]):
                raise U("sorted: the key function does not give one concrete rank per item")
            st = outs[0][0]
            ranks.append(outs[0][1])
        order = sorted(range(len(items)), key=lambda i: ranks[i])
        yield st, st.alloc(PList([items[i] for i in order]))
        return
    if items is None or "key" in kwargs or any(is_sym(i) for i in items):
        raise U("sorted of symbolic")
    yield st, st.alloc(PList(sorted(items)))


def _noop(ex, st, args, kwargs):
    yield st, None


def _traced(name):
    def h(ex, st, args, kwargs):
        st.trace.append(("call", name, None, tuple(args), ()))
        yield st, None

    return h


class RegexVal:
    def __init__(self, pattern, flags=0):
        self.pattern = pattern
        self.flags = flags


class MatchVal:
    """A successful match of a repo regex against a (symbolic) subject."""

    def __init__(self, rx, subject, concrete=None):
        self.rx = rx
        self.subject = subject
        self.concrete = concrete  # the real match object when the subject is a concrete string


def _match_groups(ex, st, m, args, kwargs):
    """m.groups(): one value per capturing group; a group that took part in the match holds a string of its own
    sub-pattern's language (trusted fact about re), groups outside optional constructs always take part.
    How the subject is cut into the groups is NOT modelled (the values are uninterpreted functions of the subject)."""
    from .regex import group_patterns

    if m.concrete is not None:
        yield st, tuple(m.concrete.groups())
        return
    from .regex import anchored, decompose

    Z = z3sort(("opt", "str"))
    if all(anchored(m.rx.pattern)) and getattr(m, "kind", "match") in ("match", "fullmatch"):
        try:
            def fresh(base, bool_=False):
                return z3.Bool(fresh_name(base)) if bool_ else z3.String(fresh_name(base))

            cons, groups = decompose(m.rx.pattern, sstr(m.subject), fresh, m.rx.flags)
            n = len(group_patterns(m.rx.pattern, m.rx.flags))
            for c in cons:
                st.assume(c)
            vals = []
            for i in range(1, n + 1):
                cond, piece = groups[i]
                vals.append(SV(("opt", "str"), z3.If(cond, Z.some(piece), Z.none)))
            yield st, tuple(vals)
            return
        except (ValueError, KeyError):
            pass
    out = []
    tag = "".join(f"{ord(c):02x}" for c in m.rx.pattern)[:40] + f"_{len(m.rx.pattern)}"
    for i, (sub, always) in enumerate(group_patterns(m.rx.pattern, m.rx.flags), start=1):
        f = ex.uf(f"re_group_{tag}_{i}", z3.StringSort(), z3sort(("opt", "str")))
        g = f(sstr(m.subject))
        Z = z3sort(("opt", "str"))
        bm.axiom(z3.Implies(Z.is_some(g), z3.InRe(Z.val(g), sub)))
        if always:
            bm.axiom(Z.is_some(g))
        out.append(SV(("opt", "str"), g))
    yield st, tuple(out)


def _re_compile(ex, st, args, kwargs):
    if any(is_sym(a) for a in args):
        raise U("re.compile of symbolic pattern")
    yield st, RegexVal(args[0], args[1] if len(args) > 1 else 0)


def _regex_test(kind):
    def h(ex, st, rx, args, kwargs):
        from .regex import anchored, to_z3

        (s,) = args
        for st1, w in ex.narrow(st, s):
            if natural_sort(w) != "str":
                yield ex.raise_(st1, "TypeError")
                continue
            if not is_sym(w):
                import re

                m = getattr(re.compile(rx.pattern, rx.flags), kind)(w)
                yield st1, (MatchVal(rx, w, m) if m else None)
                continue
            r = to_z3(rx.pattern, rx.flags)
            a_s, a_e = anchored(rx.pattern)
            anych = z3.Star(z3.Range(chr(0), chr(0x2FFFF)))
            if kind == "fullmatch":
                pass
            elif kind == "match":
                if not a_e:
                    r = z3.Concat(r, anych)
            else:  # search
                if not a_s:
                    r = z3.Concat(anych, r)
                if not a_e:
                    r = z3.Concat(r, anych)
            # '$' also matches before a trailing newline
            if a_e and kind != "fullmatch":
                r = z3.Union(r, z3.Concat(r, z3.Re("\n")))
            for st2, ok in ex.branch(st1, _wrap_bool(z3.InRe(w.t, r))):
                yield st2, (MatchVal(rx, w) if ok else None)

    return h


def _match_group(ex, st, m, args, kwargs):
    """m.group(0) / m.group(): the matched text - known when the whole subject is the match (a one-character subject,
    or a concrete match)."""
    if args and args != [0] and tuple(args) != (0,):
        raise U("match.group(n) for n > 0")
    if m.concrete is not None:
        yield st, m.concrete.group(0)
    elif getattr(m, "whole", False):
        yield st, m.subject
    else:
        raise U("match.group(0) of a match inside a longer symbolic subject")


def _regex_sub(ex, st, rx, args, kwargs):
    """pattern.sub(repl, text): concrete text -> the real re; a ONE-CHARACTER symbolic text -> either the character
    matches the pattern (then the replacement - a string or a callable applied to the match - is the result) or the
    text is returned unchanged.  Longer symbolic texts are outside the model."""
    from .regex import to_z3

    repl, text = args[0], args[1]
    if not is_sym(text) and not is_sym(repl) and isinstance(repl, str):
        import re

        yield st, re.sub(rx.pattern, repl, text, flags=rx.flags)
        return
    if not (isinstance(text, SV) and text.sort == "str"):
        raise U("regex.sub of this subject")
    r = to_z3(rx.pattern, rx.flags)
    one = z3.Length(text.t) == 1
    for st1, single in ex.branch(st, _wrap_bool(one)):
        if not single:
            raise U("regex.sub of a symbolic text that is not a single character")
        for st2, hit in ex.branch(st1, _wrap_bool(z3.InRe(text.t, r))):
            if not hit:
                yield st2, text
            elif isinstance(repl, str):
                yield st2, repl
            else:
                m = MatchVal(rx, text)
                m.whole = True
                yield from ex.call(st2, repl, [m], {})


def _re_module_test(kind):
    """re.match / re.fullmatch / re.search(pattern, string) with a literal pattern."""
    def h(ex, st, args, kwargs):
        if is_sym(args[0]):
            raise U(f"re.{kind} with a symbolic pattern")
        rx = RegexVal(args[0], args[2] if len(args) > 2 else kwargs.get("flags", 0))
        yield from _regex_test(kind)(ex, st, rx, [args[1]], {})

    return h


def _operator(op):
    def h(ex, st, args, kwargs):
        a, b = args
        yield from bm.compare(ex, st, op, a, b)

    return h


def _round(ex, st, args, kwargs):
    x = args[0]
    nd = args[1] if len(args) > 1 else kwargs.get("ndigits")
    if not is_sym(x) and not is_sym(nd):
        yield st, round(x, nd) if nd is not None else round(x)
        return
    if natural_sort(x) in ("int", "bool") and nd is None:
        yield st, x
        return
    # float rounding: an uninterpreted function (nothing is known about binary rounding)
    f = ex.uf("py_round", z3.RealSort(), z3.IntSort(), z3.RealSort())
    yield st, SV("real", f(lift(x, "real"), lift(nd if nd is not None else 0, "int")))


def _dataclass_fields(ex, cref):
    """(name, default expr | None) of the annotated fields of a dataclass defined in the repo (MRO order)."""
    out = []
    for c in reversed(bm.class_mro(ex, cref)):
        mod = load_module(c.module)
        if mod is None or c.qualname not in mod.defs:
            continue
        for item in mod.defs[c.qualname].body:
            if isinstance(item, ast.AnnAssign) and isinstance(item.target, ast.Name):
                out = [x for x in out if x[0] != item.target.id] + [(item.target.id, item.value)]
    return out


def _is_dataclass(cref):
    mod = load_module(cref.module)
    if mod is None or cref.qualname not in mod.defs:
        return False
    return any(ast.unparse(d).split("(")[0].split(".")[-1] == "dataclass" for d in mod.defs[cref.qualname].decorator_list)


def _dc_fields(ex, st, args, kwargs):
    (c,) = args
    if isinstance(st.deref(c), Obj):
        c = ClassRef(*st.deref(c).cls.split(":"))
    if not isinstance(c, ClassRef) or not _is_dataclass(c):
        raise U("dataclasses.fields of a non-repo dataclass")
    items = []
    for name, default in _dataclass_fields(ex, c):
        o = Obj("dataclasses:Field", {"name": name, "init": True})
        o.frozen = True
        items.append(st.alloc(o))
    yield st, tuple(items)


def _deepcopy(ex, st, args, kwargs):
    from .contracts import pure_result

    v = st.deref(args[0])
    if isinstance(v, Opaque):
        yield st, pure_result(ex, st, "copy.deepcopy", f"u:{v.kind}", [v])
    elif isinstance(v, (SV, int, str, bool, type(None), tuple)):
        yield st, args[0]
    else:
        c = v.clone()
        c.frozen = False
        yield st, st.alloc(c)


def _isfinite(ex, st, args, kwargs):
    (v,) = args
    if not is_sym(v):
        import math

        yield st, math.isfinite(v)
    else:
        yield st, True  # symbolic floats are modelled as (finite) reals


def _next(ex, st, args, kwargs):
    """next(iterator[, default]) on an eagerly evaluated generator / list iterator with concrete items."""
    it = st.deref(args[0])
    if isinstance(it, GenThunk):
        outs = list(comprehension_thunk(ex, st, it, "list"))
        if len(outs) != 1 or isinstance(outs[0][1], Exc):
            raise U("next() of a generator with several outcomes")
        st, ref = outs[0]
        it = st.deref(ref)
    items = it.items if isinstance(it, (PList, bm.EagerGen)) else (list(it) if isinstance(it, tuple) else None)
    if items is None:
        raise U(f"next() of {it!r}")
    if items:
        yield st, items[0]
    elif len(args) > 1:
        yield st, args[1]
    else:
        yield ex.raise_(st, "StopIteration")


def _math_pred(name):
    """math.isinf / math.isnan: concrete on concrete floats, False on symbolic reals (modelled finite), an uninterpreted
    predicate of an abstract value."""
    def h(ex, st, args, kwargs):
        from .contracts import pure_result

        (v,) = args
        if not is_sym(v) and not isinstance(v, Opaque):
            import math

            yield st, getattr(math, name)(v)
        elif isinstance(v, Opaque):
            yield st, pure_result(ex, st, "math." + name, "bool", [v])
        else:
            yield st, False

    return h


def _dc_replace(ex, st, args, kwargs):
    """dataclasses.replace(obj, **changes) on an abstract object: a new object of the same kind that is a function of
    the original and of exactly the overridden fields (their names are part of the function's name)."""
    from .contracts import pure_result

    o = st.deref(args[0])
    if isinstance(o, Opaque):
        names = sorted(k for k in kwargs if k != "**")
        st.trace.append(("call", "dataclasses.replace", None, (o,), tuple((k, kwargs[k]) for k in names)))
        yield st, pure_result(ex, st, "dataclasses.replace[" + ",".join(names) + "]", f"u:{o.kind}", [o] + [kwargs[k] for k in names])
        return
    raise U(f"dataclasses.replace of {o!r}")


def _get_origin(ex, st, args, kwargs):
    """typing.get_origin(tp): None for a plain class, else the generic's origin - an uninterpreted function of tp."""
    from .contracts import pure_result

    a = st.deref(args[0])
    if a is None:
        yield st, None
        return
    if isinstance(a, Opaque):
        yield st, pure_result(ex, st, "typing.get_origin", "u:TypeOrigin|None", [a])
        return
    raise U(f"typing.get_origin of {a!r}")


def _get_args(ex, st, args, kwargs):
    from .contracts import pure_result

    a = st.deref(args[0])
    if isinstance(a, Opaque):
        yield st, pure_result(ex, st, "typing.get_args", "seq[u:type]", [a])
        return
    raise U(f"typing.get_args of {a!r}")


def _object(ex, st, args, kwargs):
    yield st, Opaque("object")


FUNCS = {
    "next": _next, "math.isfinite": _isfinite, "math.isinf": _math_pred("isinf"), "math.isnan": _math_pred("isnan"), "object": _object,
    "copy.deepcopy": _deepcopy, "copy.copy": _deepcopy,
    "dataclasses.fields": _dc_fields, "dataclasses.replace": _dc_replace,
    "typing.get_origin": _get_origin, "typing.get_args": _get_args,
    "round": _round,
    "operator.eq": _operator(ast.Eq), "operator.ne": _operator(ast.NotEq), "operator.lt": _operator(ast.Lt),
    "operator.le": _operator(ast.LtE), "operator.gt": _operator(ast.Gt), "operator.ge": _operator(ast.GtE),
    "len": _len, "int": _int, "str": _str, "bool": _bool, "divmod": _divmod, "any": _any, "all": _all,
    "callable": _callable, "type": _type, "min": _minmax("min"), "max": _minmax("max"), "abs": _abs,
    "ord": _ord, "chr": _chr, "list": _list, "tuple": _tuple, "dict": _dict, "set": _set, "enumerate": _enumerate,
    "zip": _zip, "frozenset": _set, "map": _map, "filter": _filter, "getattr": _getattr, "hasattr": _hasattr, "range": _range,
    "sys.intern": _intern, "typing.cast": _cast, "issubclass": _issubclass, "repr": _repr, "sum": _sum,
    "float": _float, "sorted": _sorted, "print": _noop, "re.compile": _re_compile,
    "re.match": _re_module_test("match"), "re.fullmatch": _re_module_test("fullmatch"), "re.search": _re_module_test("search"),
    "warnings.warn": _traced("warnings.warn"),
}


# ---------------------------------------------------------------------------
# methods
# ---------------------------------------------------------------------------
def _m_strip(ex, st, s, args, kwargs):
    if args:
        raise U("strip(chars)")
    yield st, bm.model_strip(ex, st, s)


def _m_startswith(ex, st, s, args, kwargs):
    (p,) = args
    if isinstance(p, tuple):
        parts = [z3.PrefixOf(sstr(x), sstr(s)) for x in p]
        yield st, _wrap_bool(z3.Or(*parts))
        return
    if natural_sort(p) != "str":
        yield ex.raise_(st, "TypeError")
        return
    if not is_sym(s) and not is_sym(p):
        yield st, s.startswith(p)
    else:
        yield st, _wrap_bool(z3.PrefixOf(sstr(p), sstr(s)))


def _m_endswith(ex, st, s, args, kwargs):
    (p,) = args
    if natural_sort(p) != "str":
        yield ex.raise_(st, "TypeError")
        return
    if not is_sym(s) and not is_sym(p):
        yield st, s.endswith(p)
    else:
        yield st, _wrap_bool(z3.SuffixOf(sstr(p), sstr(s)))


def _m_find(ex, st, s, args, kwargs):
    if len(args) != 1:
        raise U("find with start")
    (p,) = args
    if not is_sym(s) and not is_sym(p):
        yield st, s.find(p)
    else:
        yield st, SV("int", z3.IndexOf(sstr(s), sstr(p), 0))


def _m_rfind(ex, st, s, args, kwargs):
    (p,) = args
    if not is_sym(s) and not is_sym(p):
        yield st, s.rfind(p)
    else:
        yield st, SV("int", z3.LastIndexOf(sstr(s), sstr(p)))


def _m_partition(ex, st, s, args, kwargs):
    (sep,) = args
    if not is_sym(s) and not is_sym(sep):
        yield st, s.partition(sep)
        return
    if isinstance(sep, str) and not sep:
        yield ex.raise_(st, "ValueError")
        return
    t, p = sstr(s), sstr(sep)
    idx = z3.IndexOf(t, p, 0)
    for st1, found in ex.branch(st, _wrap_bool(idx >= 0)):
        if found:
            left = SV("str", z3.SubString(t, 0, idx))
            right = SV("str", z3.SubString(t, idx + z3.Length(p), z3.Length(t) - idx - z3.Length(p)))
            yield st1, (left, sep, right)
        else:
            yield st1, (s, "", "")


def _m_rpartition(ex, st, s, args, kwargs):
    (sep,) = args
    if not is_sym(s) and not is_sym(sep):
        yield st, s.rpartition(sep)
        return
    if isinstance(sep, str) and not sep:
        yield ex.raise_(st, "ValueError")
        return
    t, p = sstr(s), sstr(sep)
    idx = z3.LastIndexOf(t, p)
    for st1, found in ex.branch(st, _wrap_bool(idx >= 0)):
        if found:
            left = SV("str", z3.SubString(t, 0, idx))
            right = SV("str", z3.SubString(t, idx + z3.Length(p), z3.Length(t) - idx - z3.Length(p)))
            yield st1, (left, sep, right)
        else:
            yield st1, ("", "", s)


def _m_isdigit(ex, st, s, args, kwargs):
    if not is_sym(s):
        yield st, s.isdigit()
        return
    t = s.t
    # exact on ASCII; other code points: an uninterpreted per-character predicate (Unicode digits exist)
    uni = ex.uf("py_isdigit_nonascii", z3.IntSort(), z3.BoolSort())
    one = z3.Length(t) == 1
    code = z3.StrToCode(t)
    r = z3.And(one, z3.Or(z3.And(code >= 48, code <= 57), z3.And(code > 127, uni(code))))
    if st is not None:
        st.notes.append("str.isdigit modelled for single characters only")
    if s.char:
        yield st, _wrap_bool(z3.Or(z3.And(code >= 48, code <= 57), z3.And(code > 127, uni(code))))
        return
    for st1, single in ex.branch(st, _wrap_bool(one)):
        if single:
            yield st1, _wrap_bool(r)
        else:
            for st2, empty in ex.branch(st1, _wrap_bool(z3.Length(t) == 0)):
                if empty:
                    yield st2, False
                else:
                    raise U("isdigit on multi-character symbolic string")


def _m_isalpha(ex, st, s, args, kwargs):
    if not is_sym(s):
        yield st, s.isalpha()
        return
    t = s.t
    uni = ex.uf("py_isalpha_nonascii", z3.IntSort(), z3.BoolSort())
    code = z3.StrToCode(t)
    if s.char:
        yield st, _wrap_bool(z3.Or(z3.And(code >= 65, code <= 90), z3.And(code >= 97, code <= 122), z3.And(code > 127, uni(code))))
        return
    for st1, single in ex.branch(st, _wrap_bool(z3.Length(t) == 1)):
        if single:
            yield st1, _wrap_bool(z3.Or(z3.And(code >= 65, code <= 90), z3.And(code >= 97, code <= 122), z3.And(code > 127, uni(code))))
        else:
            for st2, empty in ex.branch(st1, _wrap_bool(z3.Length(t) == 0)):
                if empty:
                    yield st2, False
                else:
                    raise U("isalpha on multi-character symbolic string")


def _m_lstrip(ex, st, s, args, kwargs):
    if not is_sym(s) and all(not is_sym(a) for a in args):
        yield st, s.lstrip(*args)
        return
    if len(args) == 1 and isinstance(args[0], str) and len(args[0]) == 1:
        yield st, SV("str", bm.lstrip_term(s.t, args[0]))
        return
    raise U("lstrip")


def _m_ljust(ex, st, s, args, kwargs):
    width, fill = args[0], (args[1] if len(args) > 1 else " ")
    if not is_sym(s) and not is_sym(width):
        yield st, s.ljust(width, fill)
        return
    if is_sym(width) or not isinstance(fill, str):
        raise U("ljust symbolic width")
    t = s.t
    res = t
    for k in range(1, width + 1):
        res = z3.If(z3.Length(t) == width - k, z3.Concat(t, z3.StringVal(fill * k)), res)
    yield st, SV("str", res)


def _m_replace(ex, st, s, args, kwargs):
    old, new = args[0], args[1]
    if not is_sym(s) and not is_sym(old) and not is_sym(new):
        yield st, s.replace(old, new)
        return
    t = z3.SeqRef(z3.Z3_mk_seq_replace_all(z3.main_ctx().ref(), sstr(s).as_ast(), sstr(old).as_ast(), sstr(new).as_ast()))
    yield st, SV("str", t)


def _m_join(ex, st, s, args, kwargs):
    (it,) = args
    if isinstance(it, GenThunk):
        for st1, v in comprehension_thunk(ex, st, it, "list"):
            if isinstance(v, Exc):
                yield st1, v
            else:
                yield from _m_join(ex, st1, s, [v], {})
        return
    items = bm.iter_values(ex, st, it)
    if items is None and isinstance(it, SSeq) and it.sort == "str":
        f = ex.uf("py_join_seq", z3.StringSort(), z3.IntSort(), it.arr.sort(), z3.StringSort())
        yield st, SV("str", f(sstr(s), it.n, it.arr))
        return
    if items is None and isinstance(it, SSeq) and it.sort == ("opt", "str"):
        # some element may be None: str.join raises TypeError on it
        st2 = st.fork()
        jn = z3.Int(fresh_name("jnone"))
        st2.assume(z3.And(jn >= 0, jn < it.n, z3sort(("opt", "str")).is_none(it.arr[jn])))
        if ex.feasible(st2.pc, deep=True):
            yield ex.raise_(st2, "TypeError")
        kn = z3.Int(fresh_name("k"))
        st.assume(z3.ForAll([kn], z3.Implies(z3.And(kn >= 0, kn < it.n), z3.Not(z3sort(("opt", "str")).is_none(it.arr[kn])))))
        f = ex.uf("py_join_optseq", z3.StringSort(), z3.IntSort(), it.arr.sort(), z3.StringSort())
        yield st, SV("str", f(sstr(s), it.n, it.arr))
        return
    if items is None:
        raise U("join over symbolic iterable")
    if any(natural_sort(i) != "str" for i in items):
        yield ex.raise_(st, "TypeError")
        return
    if len(items) == 1:
        yield st, items[0]
        return
    parts = []
    for i, x in enumerate(items):
        if i:
            parts.append(s)
        parts.append(x)
    yield st, bm.str_concat(parts)


def _m_split(ex, st, s, args, kwargs):
    if not is_sym(s) and all(not is_sym(a) for a in args):
        yield st, st.alloc(PList(s.split(*args)))
        return
    if not args:
        # whitespace tokenisation of a symbolic string: an uninterpreted token sequence of the text
        from .contracts import pure_result

        seq = pure_result(ex, st, "py_split_ws", "seq[str]", [s])
        seq.pytype = "list"
        yield st, seq
        return
    if len(args) == 1 and isinstance(args[0], str) and args[0]:
        from .contracts import pure_result

        sep = args[0]
        seq = pure_result(ex, st, "py_split_" + "".join(f"{ord(c):02x}" for c in sep), "seq[str]", [s])
        seq.pytype = "list"
        idx = z3.IndexOf(s.t, z3.StringVal(sep), 0)
        bm.axiom(seq.n >= 1)
        bm.axiom(seq.arr[0] == z3.If(idx >= 0, z3.SubString(s.t, 0, idx), s.t))
        bm.axiom((seq.n == 1) == (idx < 0))
        yield st, seq
        return
    raise U("split of symbolic string with separator")


def _m_upper(ex, st, s, args, kwargs):
    if not is_sym(s):
        yield st, s.upper()
        return
    fn = ex.uf("py_upper", z3.StringSort(), z3.StringSort())
    yield st, SV("str", fn(s.t))


def _m_title(ex, st, s, args, kwargs):
    if not is_sym(s):
        yield st, s.title()
        return
    fn = ex.uf("py_title", z3.StringSort(), z3.StringSort())  # a function of the text, nothing else is known
    yield st, SV("str", fn(s.t))


def _m_lower(ex, st, s, args, kwargs):
    if not is_sym(s):
        yield st, s.lower()
        return
    if s.char:
        # exact on ASCII (still one character); other characters: an uninterpreted case mapping whose
        # image may be any string (it can land in ASCII, it can be longer than one character)
        code = z3.StrToCode(s.t)
        fn = ex.uf("py_lower_nonascii", z3.IntSort(), z3.StringSort())
        for st1, ascii_ in ex.branch(st, _wrap_bool(code < 128)):
            if ascii_:
                yield st1, SV("str", z3.If(z3.And(code >= 65, code <= 90), z3.StrFromCode(code + 32), s.t), char=True)
            else:
                yield st1, SV("str", fn(code))
        return
    fn = ex.uf("py_lower", z3.StringSort(), z3.StringSort())
    yield st, SV("str", fn(s.t))


def _m_encode(ex, st, s, args, kwargs):
    from .contracts import pure_result

    yield st, pure_result(ex, st, "str.encode", "u:Bytes", [s] + list(args))


# list
def _l_append(ex, st, l, args, kwargs):
    l = st.deref(l)
    bm._mutable_check(ex, st, l)
    if isinstance(l, PList):
        l.items.append(args[0])
        yield st, None
    else:
        raise U("append on non-concrete list")


def _l_pop(ex, st, l, args, kwargs):
    l = st.deref(l)
    bm._mutable_check(ex, st, l)
    if not isinstance(l, PList):
        raise U("pop on non-concrete list")
    idx = args[0] if args else -1
    if is_sym(idx):
        raise U("pop symbolic index")
    try:
        yield st, l.items.pop(idx)
    except IndexError:
        yield ex.raise_(st, "IndexError")


def _l_insert(ex, st, l, args, kwargs):
    l = st.deref(l)
    bm._mutable_check(ex, st, l)
    if is_sym(args[0]) or not isinstance(l, PList):
        raise U("insert symbolic")
    l.items.insert(args[0], args[1])
    yield st, None


def _l_clear(ex, st, l, args, kwargs):
    l = st.deref(l)
    bm._mutable_check(ex, st, l)
    l.items.clear()
    yield st, None


def _l_extend(ex, st, l, args, kwargs):
    bm.list_extend(ex, st, l, args[0])
    yield st, None


def _l_copy(ex, st, l, args, kwargs):
    l = st.deref(l)
    yield st, st.alloc(PList(l.items))


# dict
def _d_get(ex, st, dref, args, kwargs):
    d = st.deref(dref)
    key = args[0]
    default = args[1] if len(args) > 1 else None
    if isinstance(d, Kwargs):
        if is_sym(key):
            raise U("kwargs.get with symbolic key")
        if key in d.known:
            yield st, d.known[key]
        elif d.open:
            raise U(f"kwargs.get({key!r}) on open kwargs: declare the key")
        else:
            yield st, default
        return
    if isinstance(d, PDict):
        for st1, v in bm.getitem(ex, st, dref, key):
            if isinstance(v, Exc) and v.exc.cls == "KeyError":
                yield st1, default
            else:
                yield st1, v
        return
    if isinstance(d, SDict):
        k = bm.dict_key(d, key)
        if k is None:
            yield st, default
            return
        # result as a single opt value when default is None (keeps paths low)
        if default is None:
            rs = ("opt", d.vsort)
            Z = z3sort(rs)
            yield st, SV(rs, z3.If(d.has[k], Z.some(d.val[k]), Z.none))
            return
        for st1, has in ex.branch(st, _wrap_bool(d.has[k])):
            yield st1, (SV(d.vsort, d.val[k]) if has else default)
        return
    if d is None or natural_sort(d) is not None or isinstance(d, (tuple, PList)):
        yield ex.raise_(st, "AttributeError")
        return
    raise U("dict.get")


def _d_items(ex, st, dref, args, kwargs):
    d = st.deref(dref)
    if isinstance(d, PDict):
        yield st, st.alloc(PList([(k, v) for k, v in d.items.items()]))
    elif isinstance(d, Kwargs) and not d.open:
        yield st, st.alloc(PList(list(d.known.items())))
    else:
        yield st, DictView(dref, "items")


def _d_keys(ex, st, dref, args, kwargs):
    d = st.deref(dref)
    if isinstance(d, PDict):
        yield st, st.alloc(PList(list(d.items.keys())))
    else:
        yield st, DictView(dref, "keys")


def _d_values(ex, st, dref, args, kwargs):
    d = st.deref(dref)
    if isinstance(d, PDict):
        yield st, st.alloc(PList(list(d.items.values())))
    else:
        yield st, DictView(dref, "values")


def _d_copy(ex, st, dref, args, kwargs):
    d = st.deref(dref)
    c = d.clone()
    c.frozen = False
    yield st, st.alloc(c)


def _d_pop(ex, st, dref, args, kwargs):
    d = st.deref(dref)
    bm._mutable_check(ex, st, d)
    key = args[0]
    has_default = len(args) > 1
    if isinstance(d, PDict):
        if is_sym(key):
            raise U("pop symbolic key from concrete dict")
        if key in d.items:
            yield st, d.items.pop(key)
        elif has_default:
            yield st, args[1]
        else:
            yield ex.raise_(st, "KeyError")
        return
    if isinstance(d, Kwargs):
        if key in d.known:
            yield st, d.known.pop(key)
        elif d.open:
            raise U("pop on open kwargs")
        elif has_default:
            yield st, args[1]
        else:
            yield ex.raise_(st, "KeyError")
        return
    k = bm.dict_key(d, key)
    if k is None:
        if has_default:
            yield st, args[1]
        else:
            yield ex.raise_(st, "KeyError")
        return
    for st1, has in ex.branch(st, _wrap_bool(d.has[k])):
        d1 = st1.deref(dref)
        if has:
            v = SV(d1.vsort, d1.val[k])
            bm.sdict_remove(ex, st1, d1, k)
            yield st1, v
        elif has_default:
            yield st1, args[1]
        else:
            yield ex.raise_(st1, "KeyError")


def _d_setdefault(ex, st, d, args, kwargs):
    raise U("setdefault")


def _d_update(ex, st, dref, args, kwargs):
    d = st.deref(dref)
    bm._mutable_check(ex, st, d)
    src = st.deref(args[0]) if args else PDict(kwargs)
    if isinstance(d, PDict) and isinstance(src, PDict):
        d.items.update(src.items)
        yield st, None
    elif isinstance(d, SDict) and isinstance(src, PDict):
        for k, v in src.items.items():
            bm.sdict_store(d, k, v)
        yield st, None
    elif isinstance(src, SDict):
        if isinstance(d, PDict):
            d2 = bm.pdict_to_sdict(d, src.ksort, src.vsort)
            d2.frozen = getattr(d, "frozen", False)
            st.heap[dref.addr if hasattr(dref, "addr") else dref] = d2
            d = st.deref(dref)
        bm.sdict_update(ex, st, d, src)
        yield st, None
    else:
        raise U("dict.update with this kind of source")


def _d_clear(ex, st, dref, args, kwargs):
    d = st.deref(dref)
    bm._mutable_check(ex, st, d)
    if isinstance(d, PDict):
        d.items.clear()
    elif isinstance(d, SDict):
        empty = bm.pdict_to_sdict(PDict({}), d.ksort, d.vsort)
        d.set_terms(empty.terms())
    else:
        raise U(f"dict.clear of {d!r}")
    yield st, None


def _s_contains(ex, st, s, args, kwargs):
    yield from bm.contains(ex, st, s, args[0])


def _s_add(ex, st, s, args, kwargs):
    s = st.deref(s)
    bm._mutable_check(ex, st, s)
    if isinstance(s, SSet):
        s.has = z3.Store(s.has, lift(args[0], s.esort), True)
        yield st, None
        return
    if is_sym(args[0]):
        if s.items:
            ex.give_up(st, "set.add of a symbolic value to a non-empty set")
            return
        s.items.add(args[0])  # a one-element set: no equality question arises
        yield st, None
        return
    s.items.add(args[0])
    yield st, None


def _t_index(ex, st, t, args, kwargs):
    raise U("tuple.index")


METHODS = {
    ("str", "strip"): _m_strip, ("str", "startswith"): _m_startswith, ("str", "endswith"): _m_endswith,
    ("str", "find"): _m_find, ("str", "rpartition"): _m_rpartition, ("str", "rfind"): _m_rfind, ("str", "partition"): _m_partition,
    ("str", "isdigit"): _m_isdigit, ("str", "isalpha"): _m_isalpha, ("str", "lstrip"): _m_lstrip,
    ("str", "ljust"): _m_ljust, ("str", "replace"): _m_replace, ("str", "join"): _m_join,
    ("str", "split"): _m_split, ("str", "encode"): _m_encode, ("str", "upper"): _m_upper, ("str", "title"): _m_title, ("str", "lower"): _m_lower,
    ("list", "append"): _l_append, ("list", "pop"): _l_pop, ("list", "insert"): _l_insert,
    ("list", "clear"): _l_clear, ("list", "extend"): _l_extend, ("list", "copy"): _l_copy,
    ("dict", "get"): _d_get, ("dict", "items"): _d_items, ("dict", "keys"): _d_keys,
    ("dict", "values"): _d_values, ("dict", "copy"): _d_copy, ("dict", "pop"): _d_pop,
    ("dict", "update"): _d_update, ("dict", "clear"): _d_clear, ("set", "__contains__"): _s_contains, ("set", "add"): _s_add,
    ("regex", "search"): _regex_test("search"), ("regex", "match"): _regex_test("match"),
    ("regex", "fullmatch"): _regex_test("fullmatch"), ("match", "groups"): _match_groups, ("match", "group"): _match_group, ("regex", "sub"): _regex_sub,
}


# ---------------------------------------------------------------------------
# opaque collaborators
# ---------------------------------------------------------------------------
def call_opaque_method(ex, st, f: BuiltinRef, args, kwargs):
    kind, meth = f.name[len("opaque:"):].split(".", 1)
    spec = ex.db.opaque_method(kind, meth)
    if spec is None:
        ex.give_up(st, f"opaque method {kind}.{meth} has no assumed contract")
        return
    yield from spec(ex, st, f.bound, args, kwargs)


def call_opaque(ex, st, f: Opaque, args, kwargs):
    if any(isinstance(a, GenThunk) for a in args):
        # a generator expression handed to an abstract callable (a list / tuple factory): whatever consumes it runs its
        # body, so the body is executed here (abstractly for collections of unknown length) - every exception and
        # every contract obligation inside it is seen; the callee then gets the resulting collection
        def force(i, st, acc):
            if i == len(args):
                yield from call_opaque(ex, st, f, acc, kwargs)
                return
            if isinstance(args[i], GenThunk):
                for st1, v in comprehension_thunk(ex, st, args[i], "list"):
                    if isinstance(v, Exc):
                        yield st1, v
                    else:
                        yield from force(i + 1, st1, acc + [v])
            else:
                yield from force(i + 1, st, acc + [args[i]])

        yield from force(0, st, [])
        return
    spec = ex.db.opaque_method(f.kind, "__call__")
    if spec is None and f.kind == "Any":
        # calling an arbitrary value: nothing is known about the result (noted in the evidence)
        st.notes.append("call of an arbitrary value: result unconstrained")
        st.trace.append(("call", "Any.__call__", f, tuple(args), tuple(sorted(kwargs.items(), key=lambda kv: kv[0]))))
        r = Opaque("Any")
        st.trace.append(("ret", "Any.__call__", r))
        yield st, r
        return
    if spec is None:
        raise U(f"call of opaque {f.kind} has no assumed contract")
    yield from spec(ex, st, f, args, kwargs)


# ---------------------------------------------------------------------------
# constructors
# ---------------------------------------------------------------------------
def construct(ex, st, cref: ClassRef, args, kwargs):
    # exceptions
    if cref.module == "builtins":
        yield st, ExcVal(cref.qualname, args)
        return
    names = bm.class_base_names(ex, cref)
    try:
        is_exc = any(n in ("Exception", "ValueError", "Warning", "BaseException", "TypeError") or False for n in names)
    except Exception:
        is_exc = False
    if not is_exc:
        try:
            # exception classes whose base lives outside the repository (click.ClickException): the declared hierarchy
            is_exc = bm.is_exc_subclass(cref.qualname.split(".")[-1], "Exception") and cref.qualname.split(".")[-1] != "Exception"
        except Exception:
            is_exc = False
    if is_exc:
        yield st, ExcVal(cref.qualname, args)
        return
    custom = ex.db.constructor(cref)
    if custom is not None:
        yield from custom(ex, st, cref, args, kwargs)
        return
    mod = load_module(cref.module)
    if mod is None:
        h = EXTERNAL_CTORS.get((cref.module, cref.qualname))
        if h is None:
            raise U(f"constructor of external class {cref.module}.{cref.qualname}")
        yield from h(ex, st, cref, args, kwargs)
        return
    node = mod.defs[cref.qualname]
    if "NamedTuple" in names:
        fields, defaults = [], {}
        for item in node.body:
            if isinstance(item, ast.AnnAssign) and isinstance(item.target, ast.Name):
                fields.append(item.target.id)
                if item.value is not None:
                    defaults[item.target.id] = list(ex.ev(item.value, st))[0][1]
        vals = {}
        if len(args) > len(fields):
            yield ex.raise_(st, "TypeError")
            return
        for nm, a in zip(fields, args):
            vals[nm] = a
        for k, v in kwargs.items():
            if k not in fields or k in vals:
                yield ex.raise_(st, "TypeError")
                return
            vals[k] = v
        for nm in fields:
            if nm not in vals:
                if nm in defaults:
                    vals[nm] = defaults[nm]
                else:
                    yield ex.raise_(st, "TypeError")
                    return
        o = Obj(f"{cref.module}:{cref.qualname}", {nm: vals[nm] for nm in fields})
        o.structural = True
        o.frozen = True
        o.tuple_fields = fields
        yield st, st.alloc(o)
        return
    init = bm.find_method(ex, cref, "__init__")
    if init is None and _is_dataclass(cref):
        fields = _dataclass_fields(ex, cref)
        names = [n for n, _ in fields]
        vals = {}
        if len(args) > len(names):
            yield ex.raise_(st, "TypeError")
            return
        for nm, a in zip(names, args):
            vals[nm] = a
        for k, v in kwargs.items():
            if k not in names or k in vals:
                yield ex.raise_(st, "TypeError")
                return
            vals[k] = v
        for nm, default in fields:
            if nm not in vals:
                if default is None:
                    yield ex.raise_(st, "TypeError")
                    return
                if isinstance(default, ast.Call):
                    ex.give_up(st, f"dataclass field {nm} with field(...) default")
                    return
                vals[nm] = list(ex.ev(default, st))[0][1]
        o = Obj(f"{cref.module}:{cref.qualname}", {nm: vals[nm] for nm in names})
        o.structural = True
        yield st, st.alloc(o)
        return
    o = st.alloc(Obj(f"{cref.module}:{cref.qualname}", {}))
    if init is None:
        if args or kwargs:
            yield ex.raise_(st, "TypeError")
        else:
            yield st, o
        return
    for st1, r in ex.call(st, FuncRef(init.module, init.qualname, bound=o), args, kwargs):
        if isinstance(r, Exc):
            yield st1, r
        else:
            yield st1, o


def _ctor_qname(ex, st, cref, args, kwargs):
    if len(args) == 1:
        text = args[0]
    elif len(args) == 2:
        uri, tag = args
        for st1, b in ex.branch(st, ex.truthy(st, tag)):
            if b:
                text = bm.str_concat(["{", uri, "}", tag])
            else:
                text = uri
            o = Obj("xml.etree.ElementTree:QName", {"text": text})
            o.structural = True
            yield st1, st1.alloc(o)
        return
    else:
        raise U("QName arity")
    o = Obj("xml.etree.ElementTree:QName", {"text": text})
    o.structural = True
    yield st, st.alloc(o)


EXTERNAL_CTORS = {("xml.etree.ElementTree", "QName"): _ctor_qname}


# ---------------------------------------------------------------------------
# comprehensions
# ---------------------------------------------------------------------------
def _merge_element(ex, st, frame, g, elt, item):
    """Evaluate one comprehension element on a copy of the state; if it forks into several pure,
    non-raising paths whose values share a sort, return ONE value (nested If), else None."""
    probe = st.fork()
    base = len(probe.pc)
    heap_before = {a: o for a, o in probe.heap.items()}
    res = list(_bind_and_eval(ex, probe, frame, g, elt, item))
    if len(res) < 2 or len(res) > 16:
        return None
    vals = []
    for st1, r in res:
        if isinstance(r, Exc) or r is _SKIP or isinstance(r, Ref):
            return None
        if st1.trace != probe.trace and len(st1.trace) != len(st.trace):
            return None
        vals.append((st1.pc[base:], r))
    sorts = {repr(natural_sort(v)) for _, v in vals if v is not None}
    if len(sorts) != 1 or any(natural_sort(v) is None for _, v in vals if v is not None):
        return None
    so = natural_sort(next(v for _, v in vals if v is not None))
    if any(v is None for _, v in vals) and not (isinstance(so, tuple) and so[0] == "opt"):
        so = ("opt", so)
    try:
        acc = lift(vals[-1][1], so)
        for delta, v in reversed(vals[:-1]):
            acc = z3.If(z3.And(*delta) if delta else z3.BoolVal(True), lift(v, so), acc)
    except TypeError:
        return None
    return SV(so, acc)


def comprehension_thunk(ex, st, thunk: GenThunk, kind):
    st.frames.append(thunk.frame)
    for st1, v in comprehension(ex, st, thunk.node, kind):
        st1.frames.pop()
        yield st1, v


def _abstract_comprehension(ex, st, node, kind, g, it):
    """Comprehension over a collection of unknown length: the element expression is evaluated once on an
    arbitrary element (every exception any iteration can raise is raised on that path); the result is an
    abstract list.  Only for list/generator comprehensions without conditions."""
    if kind not in ("list", "gen") or len(g.ifs) > 1:
        raise U(f"comprehension over symbolic iterable {it!r}")
    d = st.deref(it)
    if isinstance(d, SV) and isinstance(d.sort, tuple) and d.sort[0] == "opt":
        for st1, w in ex.narrow(st, d):
            if w is None:
                yield ex.raise_(st1, "TypeError")
            else:
                yield from _abstract_comprehension(ex, st1, node, kind, g, w)
        return
    seqs = [(st, d)]
    if isinstance(d, Opaque) and (d.kind, "iter") in ex.db.opaque_ops:
        seqs = list(ex.db.opaque_ops[(d.kind, "iter")](ex, st, d))
    elif isinstance(d, Opaque):
        from .contracts import pure_result

        seqs = [(st, pure_result(ex, st, f"iter_{d.kind}", "seq[u:Any]", [d]))]
    for st0, sq in seqs:
        if isinstance(sq, Exc):
            yield st0, sq
            continue
        if not isinstance(sq, SSeq):
            raise U(f"comprehension over symbolic iterable {sq!r}")
        frame = st0.frames[-1]
        j = z3.Int(fresh_name("j"))
        st_e = st0.fork()
        st_e.assume(z3.And(j >= 0, j < sq.n))
        kinds = set()
        if g.ifs:
            # a filtering comprehension over a collection of unknown length: the condition is evaluated for an
            # arbitrary element and put on the ghost trace (contracts state what selects an element:
            # comp_filter_element() / comp_filter_condition()); the result is an abstract list
            g0 = ast.comprehension(target=g.target, iter=g.iter, ifs=[], is_async=0)
            for st1, c in _bind_and_eval(ex, st_e, frame, g0, g.ifs[0], sq.at(j)):
                if isinstance(c, Exc):
                    yield st1, c
                    continue
                t = ex.truthy(st1, c)
                st0.trace.append(("comp-filter", node.lineno, sq.at(j), t if isinstance(t, SV) else SV("bool", z3.BoolVal(bool(t)))))
            yield st0, Opaque("PyList")
            continue
        if ex.feasible(st_e.pc):
            for st1, r in _bind_and_eval(ex, st_e, frame, g, node.elt, sq.at(j)):
                if isinstance(r, Exc):
                    yield st1, r
                else:
                    rv = st1.deref(r)
                    kinds.add("none" if rv is None else (natural_sort(rv) if natural_sort(rv) in ("str", ("opt", "str")) else "other"))
        # the result: a list of the same length whose elements are arbitrary values of the kinds seen
        if kinds and kinds <= {"str"}:
            yield st0, SSeq("str", sq.n, z3.Array(fresh_name("comp"), z3.IntSort(), z3.StringSort()))
        elif kinds and kinds <= {"str", "none", ("opt", "str")}:
            yield st0, SSeq(("opt", "str"), sq.n, z3.Array(fresh_name("comp"), z3.IntSort(), z3sort(("opt", "str"))))
        else:
            yield st0, Opaque("PyList")


def comprehension(ex, st, node, kind):
    if len(node.generators) != 1:
        # nested generators: supported only in the fully abstract case - the outer iterable is an abstract
        # collection, no conditions, and the element is one of the loop variables (no call, nothing can raise beyond
        # iterating): the result is an abstract collection
        elt = node.key if kind == "dict" else node.elt
        names = {n.id for g in node.generators for n in ast.walk(g.target) if isinstance(n, ast.Name)}
        if kind in ("list", "set", "gen") and not any(g.ifs for g in node.generators) and isinstance(elt, ast.Name) and elt.id in names:
            for st0, it in ex.ev(node.generators[0].iter, st):
                if isinstance(it, Exc):
                    yield st0, it
                elif isinstance(st0.deref(it), Opaque):
                    yield st0, Opaque("PySet" if kind == "set" else "PyList")
                else:
                    raise U("nested comprehension")
            return
        raise U("nested comprehension")
    g = node.generators[0]
    for st0, it in ex.ev(g.iter, st):
        if isinstance(it, Exc):
            yield st0, it
            continue
        items = bm.iter_values(ex, st0, it)
        if items is None:
            yield from _abstract_comprehension(ex, st0, node, kind, g, it)
            continue
        frame = st0.frames[-1]
        elt = node.key if kind == "dict" else node.elt

        def go(i, st, acc):
            if i == len(items):
                if kind in ("list", "gen"):
                    yield st, (st.alloc(PList(acc)) if kind == "list" else EagerGen(acc))
                elif kind == "set":
                    yield st, st.alloc(PSet(acc))
                else:
                    yield st, st.alloc(PDict(dict(acc)))
                return
            if kind != "dict":
                merged = _merge_element(ex, st, frame, g, elt, items[i])
                if merged is not None:
                    yield from go(i + 1, st, acc + [merged])
                    return
            else:
                kprobe = list(_bind_and_eval(ex, st.fork(), frame, g, elt, items[i]))
                if len(kprobe) == 1 and not isinstance(kprobe[0][1], Exc) and kprobe[0][1] is not _SKIP and not is_sym(kprobe[0][1]):
                    g2 = ast.comprehension(target=g.target, iter=g.iter, ifs=[], is_async=0)
                    mv = _merge_element(ex, st, frame, g2, node.value, items[i])
                    if mv is not None:
                        yield from go(i + 1, st, acc + [(kprobe[0][1], mv)])
                        return
            for st1, r in _bind_and_eval(ex, st, frame, g, elt, items[i]):
                if isinstance(r, Exc):
                    yield st1, r
                elif r is _SKIP:
                    yield from go(i + 1, st1, acc)
                elif kind == "dict":
                    # value evaluated in a fresh sub frame binding the same item
                    for st2, v in _bind_and_eval(ex, st1, frame, ast.comprehension(target=g.target, iter=g.iter, ifs=[], is_async=0), node.value, items[i]):
                        if isinstance(v, Exc):
                            yield st2, v
                        else:
                            yield from go(i + 1, st2, acc + [(r, v)])
                else:
                    yield from go(i + 1, st1, acc + [r])

        yield from go(0, st0, [])
