"""String-free abstraction of an obligation: strings become an uninterpreted sort, every string operation an
uninterpreted function (congruence is all that is kept), lengths keep their arithmetic
(len(a ++ b) = len(a) + len(b), len("lit") = n, len >= 0), distinct literals stay distinct.

Any model of the original assertions interprets the uninterpreted symbols by the real operations, so it is a
model of the abstraction: ``unsat`` of the abstraction is ``unsat`` of the original (sound); ``sat`` / ``unknown``
say nothing.  With the lemma-schema hints supplying the string facts an obligation needs, most scanner
obligations are decided here in milliseconds by congruence closure + linear arithmetic, without z3's sequence
solver (whose run time on the same problems varies between 0.1 s and > 60 s with machine load).
"""
from __future__ import annotations

import z3

STR = z3.DeclareSort("StrAbs")
_STRING = z3.StringSort()


class Abs:
    def __init__(self):
        self.cache = {}
        self.side = []
        self.lits = {}
        self.ufs = {}
        self.regexes = {}
        self.lit_ast = {}
        self.n = 0
        self.len_f = z3.Function("len_abs", STR, z3.IntSort())

    def sort(self, s):
        return STR if s == _STRING else s

    def fresh(self, sort, key):
        self.n += 1
        return z3.Const(f"abs_{self.n}", self.sort(sort))

    def uf(self, name, dom, rng):
        k = (name, tuple(str(d) for d in dom), str(rng))
        f = self.ufs.get(k)
        if f is None:
            # SMT-LIB friendly symbol: the abstraction is also handed to cvc5 in the thorough tier
            safe = "".join(ch if ch.isalnum() or ch in "_." else "_" for ch in name.split(":")[0])[:30]
            f = z3.Function(f"{safe}_abs{len(self.ufs)}", *dom, rng)
            self.ufs[k] = f
        return f

    def length(self, x):
        t = self.len_f(x)
        return t

    def tr(self, t):
        key = t.get_id()
        hit = self.cache.get(key)
        if hit is not None:
            return hit[1]
        r = self._tr(t)
        self.cache[key] = (t, r)
        if r.sort() == STR:
            self.side.append(self.len_f(r) >= 0)
        return r

    def closed(self, t):
        """No uninterpreted symbol below ``t`` (then z3's simplifier evaluates it to a literal)."""
        key = ("c", t.get_id())
        hit = self.cache.get(key)
        if hit is not None:
            return hit[1]
        if not z3.is_app(t) or z3.is_quantifier(t):
            r = False
        elif z3.is_string_value(t) or z3.is_int_value(t) or z3.is_true(t) or z3.is_false(t):
            r = True
        elif t.decl().kind() == z3.Z3_OP_UNINTERPRETED or not t.children():
            r = False
        else:
            r = all(self.closed(c) for c in t.children())
        self.cache[key] = (t, r)
        return r

    def _tr(self, t):
        if z3.is_quantifier(t) or z3.is_var(t) or not z3.is_app(t):
            return self.fresh(t.sort(), t)
        if t.children() and not z3.is_re(t) and self.closed(t):
            v = z3.simplify(t)
            if z3.is_string_value(v) or z3.is_int_value(v) or z3.is_true(v) or z3.is_false(v):
                return self.tr(v)
        if z3.is_string_value(t):
            txt = t.as_string()
            c = self.lits.get(txt)
            if c is None:
                c = z3.Const(f"lit_{len(self.lits)}", STR)
                self.lits[txt] = c
                self.lit_ast[txt] = t
                self.side.append(self.len_f(c) == z3.simplify(z3.Length(t)))
            return c
        d = t.decl()
        k = d.kind()
        ch = t.children()
        if not ch:
            if t.sort() == _STRING:
                return z3.Const(d.name() + "_s", STR)
            return t
        if any(z3.is_re(c) or isinstance(c, z3.ReRef) for c in ch):
            if k == z3.Z3_OP_SEQ_IN_RE:
                s = self.tr(ch[0])
                f = self.uf("in_re:" + ch[1].sexpr(), [s.sort()], z3.BoolSort())
                self.regexes[ch[1].sexpr()] = (ch[1], f)
                return f(s)
            return self.fresh(t.sort(), t)
        try:
            cs = [self.tr(c) for c in ch]
        except z3.Z3Exception:
            return self.fresh(t.sort(), t)
        if k in (z3.Z3_OP_EQ, z3.Z3_OP_IFF):
            return cs[0] == cs[1]
        if k == z3.Z3_OP_DISTINCT:
            return z3.Distinct(*cs)
        if k == z3.Z3_OP_ITE:
            return z3.If(cs[0], cs[1], cs[2])
        if k == z3.Z3_OP_SEQ_LENGTH and cs[0].sort() == STR:
            return self.len_f(cs[0])
        if k == z3.Z3_OP_SEQ_CONCAT and all(c.sort() == STR for c in cs):
            f = self.uf("concat", [STR, STR], STR)
            r = cs[-1]
            for c in reversed(cs[:-1]):
                r2 = f(c, r)
                self.side.append(self.len_f(r2) == self.len_f(c) + self.len_f(r))
                self.side.append(self.len_f(r) >= 0)
                r = r2
            return r
        same = all(a.sort() == b.sort() for a, b in zip(cs, ch)) and t.sort() != _STRING
        if same:
            try:
                return d(*cs)
            except z3.Z3Exception:
                return self.fresh(t.sort(), t)
        rng = self.sort(t.sort())
        if rng != t.sort() and rng != STR:
            return self.fresh(t.sort(), t)
        name = d.name() + ":" + ",".join(str(p) for p in _params(d))
        return self.uf(name, [c.sort() for c in cs], rng)(*cs)

    def distinct_lits(self):
        """Literals are pairwise distinct, and membership of every literal in every regex that occurs is evaluated."""
        cs = list(self.lits.values())
        out = [z3.Distinct(*cs)] if len(cs) > 1 else []
        for _, (re, f) in self.regexes.items():
            for txt, c in self.lits.items():
                v = z3.simplify(z3.InRe(self.lit_ast[txt], re))
                if z3.is_true(v):
                    out.append(f(c))
                elif z3.is_false(v):
                    out.append(z3.Not(f(c)))
        return out


def _params(d):
    try:
        return d.params()
    except Exception:
        return []


_SHARED = [None]


def shared_abs():
    """One translation table per worker process: the obligations of a function share almost all of their path
    conditions, so translating a term once is what makes this back end cheap.  (Side constraints only ever state
    valid facts about the fresh symbols, so accumulating them across obligations is sound.)"""
    if _SHARED[0] is None:
        _SHARED[0] = Abs()
    return _SHARED[0]


def abstraction(assertions, a=None):
    """A z3 solver holding the string-free abstraction of the (ground part of the) assertions."""
    a = a or Abs()
    s = z3.Solver()
    for f in assertions:
        if z3.is_quantifier(f):
            continue
        s.add(a.tr(f))
    s.add(*a.side)
    s.add(*a.distinct_lits())
    cf = a.ufs.get(("concat", (str(STR), str(STR)), str(STR)))
    if cf is not None:
        # concatenation is associative and its length is the sum (instantiated by E-matching, modulo the equalities
        # the solver derives: value[:4] + value[6:] with value[:4] == '--' + MM re-associates to the contract's term)
        x, y, z = z3.Consts("x_abs y_abs z_abs", STR)
        s.add(z3.ForAll([x, y, z], cf(cf(x, y), z) == cf(x, cf(y, z)), patterns=[cf(cf(x, y), z)]))
        s.add(z3.ForAll([x, y], a.len_f(cf(x, y)) == a.len_f(x) + a.len_f(y), patterns=[cf(x, y)]))
        empty = a.lits.get("")
        if empty is not None:
            s.add(z3.ForAll([x], cf(empty, x) == x, patterns=[cf(empty, x)]))
            s.add(z3.ForAll([x], cf(x, empty) == x, patterns=[cf(x, empty)]))
    return s


def check_unsat(assertions, rlimit=3_000_000, timeout_ms=4000) -> bool:
    """True iff the string-free abstraction of the (ground part of the) assertions is unsatisfiable."""
    try:
        s = abstraction(assertions, shared_abs())
        s.set("rlimit", rlimit)
        s.set("timeout", timeout_ms)
        s.set("auto_config", False)
        s.set("smt.mbqi", False)  # the quantified axioms are for E-matching only
        return s.check() == z3.unsat
    except z3.Z3Exception:
        return False
