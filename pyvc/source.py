"""Read the real source of /repo on every run: module ASTs, qualified-name lookup,
import tables, constant folding of module/class level constants, exception hierarchy.

Nothing of xsdata is imported; everything is derived from ``ast.parse`` of the files
under ``$VERIF_REPO`` (default /repo).
"""
from __future__ import annotations

import ast
import builtins
import hashlib
import os
from functools import lru_cache
from pathlib import Path

REPO = Path(os.environ.get("VERIF_REPO", "/repo"))


class SourceError(Exception):
    """The source no longer has the shape a contract refers to (=> undecided, exit 2)."""


class Module:
    def __init__(self, name: str, path: Path):
        self.name = name
        self.path = path
        self.text = path.read_text()
        self.tree = ast.parse(self.text)
        self.imports: dict[str, tuple[str, str | None]] = {}  # local -> (module, attr|None)
        self.defs: dict[str, ast.AST] = {}  # qualname -> FunctionDef | ClassDef
        self.assigns: dict[str, ast.expr] = {}  # module/class level constants: qualname -> expr
        self.class_bases: dict[str, list[ast.expr]] = {}
        self._index(self.tree.body, "")

    def _index(self, body, prefix):
        for node in body:
            if isinstance(node, (ast.FunctionDef, ast.AsyncFunctionDef)):
                self.defs[prefix + node.name] = node
            elif isinstance(node, ast.ClassDef):
                self.defs[prefix + node.name] = node
                self.class_bases[prefix + node.name] = node.bases
                self._index(node.body, prefix + node.name + ".")
            elif isinstance(node, ast.Assign):
                for tgt in node.targets:
                    if isinstance(tgt, ast.Name):
                        self.assigns[prefix + tgt.id] = node.value
            elif isinstance(node, ast.AnnAssign) and node.value is not None:
                if isinstance(node.target, ast.Name):
                    self.assigns[prefix + node.target.id] = node.value
            elif isinstance(node, ast.Import) and not prefix:
                for a in node.names:
                    self.imports[(a.asname or a.name).split(".")[0]] = (
                        a.name if a.asname else a.name.split(".")[0],
                        None,
                    )
            elif isinstance(node, ast.ImportFrom) and not prefix:
                mod = node.module or ""
                if node.level:
                    base = self.name.split(".")
                    base = base[: len(base) - node.level]
                    mod = ".".join(base + ([mod] if mod else []))
                for a in node.names:
                    self.imports[a.asname or a.name] = (mod, a.name)
            elif isinstance(node, (ast.If, ast.Try)) and not prefix:
                # e.g. TYPE_CHECKING blocks / optional imports
                for sub in ast.walk(node):
                    if isinstance(sub, ast.ImportFrom):
                        for a in sub.names:
                            self.imports.setdefault(a.asname or a.name, (sub.module or "", a.name))


@lru_cache(maxsize=None)
def load_module(name: str) -> Module | None:
    """Load ``xsdata.x.y`` (or a stdlib module whitelisted below) from source."""
    if name.startswith("xsdata"):
        rel = Path(*name.split("."))
        for cand in (REPO / rel.with_suffix(".py"), REPO / rel / "__init__.py"):
            if cand.exists():
                return Module(name, cand)
        return None
    if name == "verif_specs":
        return Module(name, Path(__file__).resolve().parent.parent / "contracts" / "specs.py")
    if name == "verif_harness":
        return Module(name, Path(__file__).resolve().parent.parent / "contracts" / "harness.py")
    if name == "calendar":
        import calendar

        return Module(name, Path(calendar.__file__))
    return None


def source_digest(modname: str, qualname: str) -> str:
    mod = load_module(modname)
    node = mod.defs.get(qualname) if mod else None
    if node is None:
        raise SourceError(f"{modname}:{qualname} not found in source")
    return hashlib.sha256(ast.dump(node).encode()).hexdigest()[:16]


def get_def(modname: str, qualname: str):
    mod = load_module(modname)
    if mod is None:
        raise SourceError(f"module {modname} not found under {REPO}")
    node = mod.defs.get(qualname)
    if node is None:
        raise SourceError(f"{modname}:{qualname} not found in source")
    return mod, node


def decorators(node) -> list[str]:
    out = []
    for d in getattr(node, "decorator_list", []):
        if isinstance(d, ast.Call):
            d = d.func
        out.append(ast.unparse(d))
    return out


# ---------------------------------------------------------------------------
# exception hierarchy: builtins + classes that are declared in the repo source
# ---------------------------------------------------------------------------
_EXTRA_EXC = {
    # stdlib exceptions the repo code can meet, with their (trusted) bases
    "binascii.Error": ["ValueError"],
    "Error": ["ValueError"],  # binascii.Error caught as ValueError
    "InvalidOperation": ["ArithmeticError"],
    "decimal.InvalidOperation": ["ArithmeticError"],
    "JSONDecodeError": ["ValueError"],
    "ParseError": ["SyntaxError"],
    "XMLSyntaxError": ["SyntaxError"],
    "ClickException": ["Exception"],
    "CodegenError": ["ClickException"],  # xsdata/codegen/exceptions.py: class CodegenError(click.ClickException)
}


@lru_cache(maxsize=None)
def exception_bases(name: str) -> tuple[str, ...]:
    """All (transitive) base class names of exception ``name`` including itself."""
    seen = [name]
    obj = getattr(builtins, name, None)
    if isinstance(obj, type) and issubclass(obj, BaseException):
        return tuple(c.__name__ for c in obj.__mro__ if c is not object)
    if name in _EXTRA_EXC:
        for b in _EXTRA_EXC[name]:
            seen.extend(exception_bases(b))
        return tuple(dict.fromkeys(seen))
    exc_mod = load_module("xsdata.exceptions")
    if exc_mod and name in exc_mod.class_bases:
        for b in exc_mod.class_bases[name]:
            seen.extend(exception_bases(ast.unparse(b)))
        return tuple(dict.fromkeys(seen))
    raise SourceError(f"unknown exception class {name}")


def is_exc_subclass(name: str, base: str) -> bool:
    return base in exception_bases(name)
