"""Symbolic values, sorts and the z3 sort algebra used by the executor."""
from __future__ import annotations

import itertools

import z3

_counter = itertools.count()


def fresh_name(base: str) -> str:
    return f"{base}!{next(_counter)}"


# ---------------------------------------------------------------------------
# sort algebra:  'int' | 'bool' | 'str' | 'real' | ('opt', S) | ('tuple', S1, ...) | ('u', name)
# ---------------------------------------------------------------------------
_sort_cache: dict = {}


def parse_sort(s):
    """'int|None' -> ('opt','int');  'str' -> 'str'; tuples written as ('tuple', ...)."""
    if not isinstance(s, str):
        return s
    s = s.strip()
    if s.endswith("|None"):
        return ("opt", parse_sort(s[: -len("|None")]))
    if s.startswith("opt[") and s.endswith("]"):
        return ("opt", parse_sort(s[4:-1]))
    if s.startswith("tuple[") and s.endswith("]"):
        parts = _split_top(s[6:-1])
        return ("tuple", *[parse_sort(p) for p in parts])
    if s.startswith("u:"):
        return ("u", s[2:])
    return s


def _split_top(s: str) -> list[str]:
    out, depth, cur = [], 0, ""
    for ch in s:
        if ch == "[":
            depth += 1
        elif ch == "]":
            depth -= 1
        if ch == "," and depth == 0:
            out.append(cur)
            cur = ""
        else:
            cur += ch
    if cur.strip():
        out.append(cur)
    return out


def sort_name(s) -> str:
    if isinstance(s, str):
        return s
    return s[0] + "_" + "_".join(sort_name(x) for x in s[1:])


def z3sort(s):
    s = parse_sort(s)
    if s in _sort_cache:
        return _sort_cache[s]
    if s == "int":
        r = z3.IntSort()
    elif s == "bool":
        r = z3.BoolSort()
    elif s == "str":
        r = z3.StringSort()
    elif s == "real":
        r = z3.RealSort()
    elif s[0] == "opt":
        dt = z3.Datatype(sort_name(s))
        dt.declare("none")
        dt.declare("some", ("val", z3sort(s[1])))
        r = dt.create()
    elif s[0] == "tuple":
        dt = z3.Datatype(sort_name(s))
        dt.declare("mk", *[(f"f{i}", z3sort(x)) for i, x in enumerate(s[1:])])
        r = dt.create()
    elif s[0] == "u":
        r = z3.DeclareSort(s[1])
    else:
        raise ValueError(f"unknown sort {s!r}")
    _sort_cache[s] = r
    return r


class SV:
    """A symbolic scalar: z3 term + sort tag."""

    __slots__ = ("sort", "t", "char")

    def __new__(cls, sort, t=None, char=False):
        s = parse_sort(sort)
        if isinstance(s, tuple) and s[0] == "u":
            return Opaque(s[1], t)  # values of uninterpreted sorts are always represented as Opaque
        return object.__new__(cls)

    def __init__(self, sort, t, char=False):
        self.sort = parse_sort(sort)
        self.t = t
        self.char = char  # a str known to have length exactly 1

    def __repr__(self):
        return f"SV<{sort_name(self.sort)}:{self.t}>"


def fresh(sort, base="v") -> SV:
    sort = parse_sort(sort)
    return SV(sort, z3.Const(fresh_name(base), z3sort(sort)))


def lift(v, sort=None):
    """Concrete python scalar or SV -> z3 term of ``sort`` (or its natural sort)."""
    if isinstance(v, Opaque):
        if sort is None or parse_sort(sort) == ("u", v.kind):
            return v.t
        sort = parse_sort(sort)
        if isinstance(sort, tuple) and sort[0] == "opt" and sort[1] == ("u", v.kind):
            return z3sort(sort).some(v.t)
        raise TypeError(f"cannot lift {v} to {sort}")
    if isinstance(v, SV):
        if sort is None or parse_sort(sort) == v.sort:
            return v.t
        sort = parse_sort(sort)
        if isinstance(sort, tuple) and sort[0] == "opt" and sort[1] == v.sort:
            return z3sort(sort).some(v.t)
        if sort == "int" and v.sort == "bool":
            return z3.If(v.t, z3.IntVal(1), z3.IntVal(0))
        if sort == "real" and v.sort == "int":
            return z3.ToReal(v.t)
        if sort == "real" and v.sort == "bool":
            return z3.If(v.t, z3.RealVal(1), z3.RealVal(0))
        raise TypeError(f"cannot lift {v} to {sort}")
    sort = parse_sort(sort) if sort is not None else None
    if v is None:
        if sort is None or not (isinstance(sort, tuple) and sort[0] == "opt"):
            raise TypeError("None needs an opt sort")
        return z3sort(sort).none
    if isinstance(sort, tuple) and sort[0] == "opt":
        return z3sort(sort).some(lift(v, sort[1]))
    if isinstance(v, bool):
        if sort == "int":
            return z3.IntVal(int(v))
        if sort == "real":
            return z3.RealVal(int(v))
        return z3.BoolVal(v)
    if isinstance(v, int):
        if sort == "real":
            return z3.RealVal(v)
        return z3.IntVal(v)
    if isinstance(v, float):
        return z3.RealVal(repr(v))
    if isinstance(v, str):
        return z3.StringVal(v)
    if isinstance(v, tuple) and isinstance(sort, tuple) and sort[0] == "tuple":
        return z3sort(sort).mk(*[lift(x, s) for x, s in zip(v, sort[1:])])
    raise TypeError(f"cannot lift {v!r} to {sort}")


def natural_sort(v):
    if isinstance(v, SV):
        return v.sort
    if isinstance(v, Opaque):
        return ("u", v.kind)
    if isinstance(v, bool):
        return "bool"
    if isinstance(v, int):
        return "int"
    if isinstance(v, float):
        return "real"
    if isinstance(v, str):
        return "str"
    return None


def is_sym(v) -> bool:
    return isinstance(v, SV)


# ---------------------------------------------------------------------------
# heap: mutable objects live in State.heap and are referred to through immutable Refs, so a
# reference taken before a path fork stays valid in every successor state.
# ---------------------------------------------------------------------------
class Ref:
    __slots__ = ("addr",)

    def __init__(self, addr):
        self.addr = addr

    def __repr__(self):
        return f"Ref({self.addr})"

    def __eq__(self, o):
        return isinstance(o, Ref) and o.addr == self.addr

    def __hash__(self):
        return hash(("Ref", self.addr))


_addr = itertools.count(1)


def new_addr():
    return next(_addr)


class HeapObj:
    frozen = False

    def clone(self):
        raise NotImplementedError


class PList(HeapObj):
    """A list with concrete length whose items are values."""

    def __init__(self, items=None):
        self.items = list(items or [])

    def clone(self):
        c = PList(self.items)
        c.frozen = self.frozen
        return c

    def __repr__(self):
        return f"PList{self.items}"


class PDict(HeapObj):
    """A dict with concrete (python-hashable) keys in insertion order."""

    def __init__(self, items=None):
        self.items = dict(items or {})

    def clone(self):
        c = PDict(self.items)
        c.frozen = self.frozen
        return c

    def __repr__(self):
        return f"PDict{self.items}"


class PSet(HeapObj):
    def __init__(self, items=None):
        self.items = set(items or ())

    def clone(self):
        c = PSet(self.items)
        c.frozen = self.frozen
        return c


class SDict(HeapObj):
    """Insertion-ordered symbolic dict.

    n        number of entries
    key_at   Array Int -> K     (entries 0..n-1 in insertion order)
    pos      Array K -> Int     (inverse of key_at on present keys)
    has      Array K -> Bool
    val      Array K -> V
    """

    def __init__(self, ksort, vsort, base="d", terms=None):
        self.ksort = parse_sort(ksort)
        self.vsort = parse_sort(vsort)
        K, V = z3sort(self.ksort), z3sort(self.vsort)
        if terms is None:
            nm = fresh_name(base)
            self.n = z3.Int(nm + ".n")
            self.key_at = z3.Array(nm + ".key_at", z3.IntSort(), K)
            self.pos = z3.Array(nm + ".pos", K, z3.IntSort())
            self.has = z3.Array(nm + ".has", K, z3.BoolSort())
            self.val = z3.Array(nm + ".val", K, V)
        else:
            self.n, self.key_at, self.pos, self.has, self.val = terms

    def terms(self):
        return (self.n, self.key_at, self.pos, self.has, self.val)

    def set_terms(self, terms):
        self.n, self.key_at, self.pos, self.has, self.val = terms

    def wf(self):
        """Well-formedness of a dict whose terms are unconstrained symbols."""
        K = z3sort(self.ksort)
        j = z3.Int(fresh_name("j"))
        k = z3.Const(fresh_name("k"), K)
        return [
            self.n >= 0,
            z3.ForAll(
                [j],
                z3.Implies(
                    z3.And(0 <= j, j < self.n),
                    z3.And(self.has[self.key_at[j]], self.pos[self.key_at[j]] == j),
                ),
                patterns=[self.key_at[j]],
            ),
            z3.ForAll(
                [k],
                z3.Implies(
                    self.has[k],
                    z3.And(0 <= self.pos[k], self.pos[k] < self.n, self.key_at[self.pos[k]] == k),
                ),
                patterns=[self.has[k]],
            ),
        ]

    def clone(self) -> "SDict":
        c = SDict(self.ksort, self.vsort, terms=self.terms())
        c.frozen = self.frozen
        return c

    def __repr__(self):
        return f"SDict<{sort_name(self.ksort)}->{sort_name(self.vsort)} n={self.n}>"


class SSet(HeapObj):
    """Symbolic set of scalars: membership array."""

    def __init__(self, esort, has=None, base="set"):
        self.esort = parse_sort(esort)
        self.has = has if has is not None else z3.Array(fresh_name(base) + ".has", z3sort(self.esort), z3.BoolSort())

    def clone(self):
        c = SSet(self.esort, self.has)
        c.frozen = self.frozen
        return c


class Obj(HeapObj):
    """A record with named fields (an instance of a repo class)."""

    structural = False
    open_fields = None
    tuple_fields = None

    def __init__(self, cls: str, fields=None):
        self.cls = cls
        self.fields = dict(fields or {})

    def clone(self):
        c = Obj(self.cls, self.fields)
        c.__dict__.update({k: v for k, v in self.__dict__.items() if k != "fields"})
        return c

    def __repr__(self):
        return f"Obj<{self.cls}>{self.fields}"


class Frame(HeapObj):
    def __init__(self, modname, env=None, parent=None, qualname=""):
        self.modname = modname
        self.env = env if env is not None else {}
        self.parent = parent  # Ref of the enclosing frame (closures) or None
        self.qualname = qualname

    def clone(self):
        return Frame(self.modname, dict(self.env), self.parent, self.qualname)


class EnumMember:
    """Immutable enum member: class, name, value and the attributes its __init__ set."""

    def __init__(self, cls, name, value, attrs):
        self.cls = cls
        self.name = name
        self.value = value
        self.attrs = attrs

    def __repr__(self):
        return f"EnumMember<{self.cls}.{self.name}>"


class Opaque:
    """A value of an uninterpreted sort (abstract collaborator, arbitrary object)."""

    __slots__ = ("kind", "t")

    def __init__(self, kind: str, t=None):
        self.kind = kind
        self.t = t if t is not None else z3.Const(fresh_name(kind), z3sort(("u", kind)))

    def __repr__(self):
        return f"Opaque<{self.kind}:{self.t}>"

    def clone(self):
        return self  # immutable: may stand in a heap cell (a container that became abstract)


class ExcVal:
    def __init__(self, cls: str, args=()):
        self.cls = cls
        self.args = tuple(args)

    def __repr__(self):
        return f"ExcVal<{self.cls}>"


class Exc:
    """Evaluation result marker: the expression/statement raised."""

    __slots__ = ("exc",)

    def __init__(self, exc: ExcVal):
        self.exc = exc


class ClassRef:
    def __init__(self, module: str, qualname: str):
        self.module = module
        self.qualname = qualname

    def __repr__(self):
        return f"ClassRef<{self.module}:{self.qualname}>"

    def __eq__(self, o):
        return isinstance(o, ClassRef) and (o.module, o.qualname) == (self.module, self.qualname)

    def __hash__(self):
        return hash((self.module, self.qualname))


class FuncRef:
    def __init__(self, module: str, qualname: str, bound=None):
        self.module = module
        self.qualname = qualname
        self.bound = bound  # self / cls for bound methods (a value: Ref, ClassRef, ...)

    def __repr__(self):
        return f"FuncRef<{self.module}:{self.qualname}>"


class BuiltinRef:
    def __init__(self, name: str, bound=None):
        self.name = name
        self.bound = bound

    def __repr__(self):
        return f"BuiltinRef<{self.name}>"


class ModuleRef:
    def __init__(self, name: str):
        self.name = name

    def __repr__(self):
        return f"ModuleRef<{self.name}>"


class Closure:
    def __init__(self, node, frame, module):
        self.node = node
        self.frame = frame  # Ref of the defining frame
        self.module = module


class TypeRef:
    """A builtin type used as a value (int, str, ...)."""

    def __init__(self, name):
        self.name = name

    def __repr__(self):
        return f"TypeRef<{self.name}>"

    def __eq__(self, o):
        return isinstance(o, TypeRef) and o.name == self.name

    def __hash__(self):
        return hash(("TypeRef", self.name))
