from pyvc.contracts import Contract, Loop

XSD_WS = "[ \\t\\n\\r]*"
CONV = "xsdata.formats.converter"


def register(db):
    P = ["C05"]
    register_qname_serialize(db)
    register_bytes_deserialize(db)
    # ------------------------------------------------------------------ bool
    db.add(Contract(
        f"{CONV}:BoolConverter.serialize",
        params={"self": f"obj:{CONV}:BoolConverter", "value": "bool"},
        kwargs={"known": {}, "open": False},
        ensures=[("xsd-boolean-lexical", "result == ite(value, 'true', 'false')")],
        raises={}, returns="str", properties=P,
    ))
    db.add(Contract(
        f"{CONV}:BoolConverter.deserialize", variant="xsd-lexical",
        params={"self": f"obj:{CONV}:BoolConverter", "value": "str"},
        ghost={"w1": "str", "t": "str", "w2": "str"},
        kwargs={"known": {}, "open": False},
        requires=[f"matches(w1, '{XSD_WS}')", f"matches(w2, '{XSD_WS}')", "matches(t, 'true|false|1|0')",
                  "value == w1 + t + w2"],
        hints=[f"strip_padded(value, w1, '{XSD_WS}', w2, t, 'true|false|1|0')"],
        ensures=[("xsd-value", "result == (t == 'true' or t == '1')")],
        raises={}, returns="bool", properties=P + ["C09"],
    ))
    db.add(Contract(
        f"{CONV}:BoolConverter.deserialize", variant="any-str",
        params={"self": f"obj:{CONV}:BoolConverter", "value": "str"},
        kwargs={"known": {}, "open": False},
        ensures=[("only-true-false-literals", "py_strip(value) in ('true', '1', 'false', '0')")],
        raises={"ConverterError": "py_strip(value) not in ('true', '1', 'false', '0')"},
        returns="bool", properties=P + ["C15"],
    ))
    db.add(Contract(
        f"{CONV}:BoolConverter.deserialize", variant="bool",
        params={"self": f"obj:{CONV}:BoolConverter", "value": "bool"},
        kwargs={"known": {}, "open": False},
        ensures=[("identity", "result == value")],
        raises={}, returns="bool", properties=P,
    ))
    db.add(Contract(
        f"{CONV}:BoolConverter.deserialize", variant="other",
        params={"self": f"obj:{CONV}:BoolConverter", "value": "int|None"},
        kwargs={"known": {}, "open": False},
        ensures=[("never-returns", "False")],
        raises={"ConverterError": True},
        properties=P + ["C15"],
    ))
    # ------------------------------------------------------------------ int
    db.add(Contract(
        f"{CONV}:IntConverter.serialize",
        params={"self": f"obj:{CONV}:IntConverter", "value": "int"},
        kwargs={"known": {}, "open": False},
        ensures=[("xsd-integer-lexical", "matches(result, '-?[0-9]+')"),
                 ("denotes-value", "ite(value < 0, result[0] == '-' and nat(result[1:]) == -value, nat(result) == value)")],
        raises={}, returns="str", properties=P,
    ))
    for name, sg in (("plain", ""), ("plus", "+"), ("minus", "-")):
        db.add(Contract(
            f"{CONV}:IntConverter.deserialize", variant=f"xsd-lexical-{name}",
            params={"self": f"obj:{CONV}:IntConverter", "value": "str"},
            ghost={"w1": "str", "d": "str", "w2": "str"},
            kwargs={"known": {}, "open": False},
            requires=[f"matches(w1, '{XSD_WS}')", f"matches(w2, '{XSD_WS}')",
                      "matches(d, '[0-9]+')", f"value == w1 + {sg!r} + d + w2"],
            hints=[(f"int_padded(value, w1, '{XSD_WS}', w2, {sg!r}, None, d, '[0-9]+')" if sg else f"int_padded(value, w1, '{XSD_WS}', w2, d, '[0-9]+')"),
                   f"int_of_signed(py_int_strip(value), {sg!r}, d)"],
            ensures=[("xsd-value", "result == " + ("-nat(d)" if sg == "-" else "nat(d)"))],
            raises={}, returns="int", properties=P + ["C09"],
        ))
    db.add(Contract(
        f"{CONV}:IntConverter.deserialize", variant="any-str",
        params={"self": f"obj:{CONV}:IntConverter", "value": "str"},
        kwargs={"known": {}, "open": False},
        ensures=[("an-int-is-returned-or-it-fails", "result is not None")],
        raises={"ConverterError": True}, returns="int", properties=P + ["C15"],
    ))
    db.add(Contract(
        f"{CONV}:IntConverter.deserialize", variant="none",
        params={"self": f"obj:{CONV}:IntConverter", "value": "int|None"},
        kwargs={"known": {}, "open": False},
        ensures=[("int-identity", "result == value")],
        raises={"ConverterError": "value is None"}, returns="int", properties=["C15"],
    ))
    # ------------------------------------------------------------------ str
    db.add(Contract(
        f"{CONV}:StringConverter.deserialize",
        params={"self": f"obj:{CONV}:StringConverter", "value": "str"},
        kwargs={"known": {}, "open": False},
        ensures=[("identity", "result == value")], raises={}, returns="str", properties=P,
    ))
    db.add(Contract(
        f"{CONV}:StringConverter.serialize",
        params={"self": f"obj:{CONV}:StringConverter", "value": "str"},
        kwargs={"known": {}, "open": False},
        ensures=[("identity", "result == value")], raises={}, returns="str", properties=P,
    ))
    # ------------------------------------------------------------------ xsi:type datatype inference
    E = "xsdata.models.enums"
    db.add(Contract(
        f"{E}:int_datatype",
        params={"value": "int"},
        ensures=[
            ("short", "(result.code == 'short') == (-32768 <= value and value <= 32767)"),
            ("int", "(result.code == 'int') == ((-2147483648 <= value and value <= 2147483647) and not (-32768 <= value and value <= 32767))"),
            ("long", "(result.code == 'long') == ((-9223372036854775808 <= value and value <= 9223372036854775807) and not (-2147483648 <= value and value <= 2147483647))"),
            ("integer-otherwise", "result.code in ('short', 'int', 'long', 'integer')"),
        ],
        raises={}, properties=P, inline_calls=True,
    ))

    # ------------------------------------------------------------------ proxy converter (Xml* types)
    from pyvc.contracts import assume_method
    assume_method(db, "Factory", "__call__", returns="u:Any", raises=["ValueError"], pure=True)

    def proxy(mk, base):
        return mk.obj(f"{CONV}:ProxyConverter", {"factory": "opaque:Factory"})

    db.add(Contract(
        f"{CONV}:ProxyConverter.deserialize",
        params={"self": proxy, "value": "opaque:Any"}, kwargs={"known": {}, "open": False},
        ensures=[("result-of-the-type-factory", "result == uf('Factory.__call__', 'u:Any', self.factory, value)")],
        raises={"ConverterError": True},
        properties=["C05", "C15"],
        note="XmlDate/XmlTime/XmlDateTime.from_string, XmlDuration, XmlPeriod raise only ValueError (decided under C06)",
    ))


def register_qname_serialize(db):
    """QNameConverter.serialize with a prefix map: a namespace-qualified name comes out as `prefix:local` where the
    prefix is bound to the name's namespace in the map afterwards and every binding the map had is kept (so the text of
    QName values written earlier still resolves to what it meant); an unqualified name is its local part; without a
    map the Clark form is returned."""
    from pyvc.contracts import Contract
    CONV = "xsdata.formats.converter"

    def qname_value(mk, base):
        return mk.obj("xml.etree.ElementTree:QName", {"text": "str"})

    NSMAP = "dict[str|None,str]"
    FRAME = "forall('str|None', lambda k: implies(k in old(ns_map), k in ns_map and ns_map[k] == old(ns_map)[k]))"
    db.add(Contract(
        f"{CONV}:QNameConverter.serialize", variant="with-a-prefix-map",
        params={"self": f"obj:{CONV}:QNameConverter", "value": qname_value, "ns_map": NSMAP}, kwargs={"known": {}, "open": False},
        requires=["len(value.text) > 0"],
        ensures=[("unqualified-name-is-its-local-part", "implies(not clark_split(value.text)[0], result == clark_split(value.text)[1] and same_dict(ns_map, old(ns_map)))"),
                 ("qualified-name-uses-a-prefix-bound-to-its-namespace",
                  "implies(clark_split(value.text)[0], exists('str|None', lambda p: p in ns_map and ns_map[p] == clark_split(value.text)[0] and "
                  "result == ite(p is not None and p != '', p + ':' + clark_split(value.text)[1], clark_split(value.text)[1])))"),
                 ("existing-bindings-kept", FRAME)],
        raises={}, returns="str", modifies=["ns_map"], properties=["C05", "C03"],
    ))
    db.add(Contract(
        f"{CONV}:QNameConverter.serialize", variant="without-a-map",
        params={"self": f"obj:{CONV}:QNameConverter", "value": qname_value, "ns_map": None}, kwargs={"known": {}, "open": False},
        ensures=[("clark-form", "result == value.text")], raises={}, returns="str", properties=["C05"],
    ))


def register_bytes_deserialize(db):
    """BytesConverter.deserialize: whatever the text, only ConverterError leaves the converter - the standard-library
    decoders are assumed to raise ValueError (a str with non-ASCII characters) or binascii.Error (anything else that is
    not base16 / base64); white space is removed before decoding; an unknown format is a ConverterError."""
    from pyvc import builtins_calls as bc
    from pyvc.contracts import Contract, pure_result
    from pyvc.values import Opaque
    CONV = "xsdata.formats.converter"

    def decoder(name):
        def h(ex, st, args, kwargs):
            st.trace.append(("call", name, None, tuple(args), tuple(sorted(kwargs.items(), key=lambda kv: kv[0]))))
            for exc in ("ValueError", "binascii.Error"):
                yield ex.raise_(st.fork(), exc)
            yield st, Opaque("bytes")
        return h

    def re_sub(ex, st, args, kwargs):
        pattern, repl, text = args[0], args[1], args[2]
        if bc.is_sym(text) and not bc.is_sym(pattern) and not bc.is_sym(repl):
            yield st, pure_result(ex, st, "re.sub", "str", [pattern, repl, text])
        elif not bc.is_sym(text) and not bc.is_sym(pattern) and not bc.is_sym(repl):
            import re
            yield st, re.sub(pattern, repl, text)
        else:
            raise bc.U("re.sub with a symbolic pattern / replacement")

    bc.FUNCS["binascii.unhexlify"] = decoder("binascii.unhexlify")
    bc.FUNCS["base64.b64decode"] = decoder("base64.b64decode")
    bc.FUNCS.setdefault("re.sub", re_sub)
    db.inline.add(f"{CONV}:Converter.validate_input_type")
    WS_FREE = "uf('re.sub', 'str', '\\\\s+', '', value)"
    for fmt, fn in (("base16", "binascii.unhexlify"), ("base64", "base64.b64decode")):
        db.add(Contract(
            f"{CONV}:BytesConverter.deserialize", variant=fmt,
            params={"self": f"obj:{CONV}:BytesConverter", "value": "str"}, kwargs={"known": {"format": "str|None"}, "open": False},
            requires=[f"kwargs.get('format') == '{fmt}'"],
            ensures=[("decoded-once-after-white-space-is-removed", f"called('{fn}') == 1 and call_arg('{fn}', 0) == {WS_FREE}")],
            raises={"ConverterError": True}, properties=["C05", "C15"],
            note="assumed: the standard-library decoders raise only ValueError / binascii.Error",
        ))
    db.add(Contract(
        f"{CONV}:BytesConverter.deserialize", variant="unknown-format",
        params={"self": f"obj:{CONV}:BytesConverter", "value": "str"}, kwargs={"known": {"format": "str|None"}, "open": False},
        requires=["kwargs.get('format') != 'base16'", "kwargs.get('format') != 'base64'"],
        ensures=[("never-returns", "False")], raises={"ConverterError": True}, returns="noreturn", properties=["C05", "C15"],
    ))
