from pyvc.contracts import Contract, Loop

XSD_WS = "[ \\t\\n\\r]*"
CONV = "xsdata.formats.converter"


def register(db):
    P = ["C05"]
    # ------------------------------------------------------------------ bool
    db.add(Contract(
        f"{CONV}:BoolConverter.serialize",
        params={"self": f"obj:{CONV}:BoolConverter", "value": "bool"},
        kwargs={"known": {}, "open": False},
        ensures=[("xsd-boolean-lexical", "result == ite(value, 'true', 'false')")],
        raises={}, returns="str", properties=P,
    ))
    db.add(Contract(
        f"{CONV}:BoolConverter.deserialize", variant="xsd-lexical",
        params={"self": f"obj:{CONV}:BoolConverter", "value": "str"},
        ghost={"w1": "str", "t": "str", "w2": "str"},
        kwargs={"known": {}, "open": False},
        requires=[f"matches(w1, '{XSD_WS}')", f"matches(w2, '{XSD_WS}')", "matches(t, 'true|false|1|0')",
                  "value == w1 + t + w2"],
        hints=[f"strip_padded(value, w1, '{XSD_WS}', w2, t, 'true|false|1|0')"],
        ensures=[("xsd-value", "result == (t == 'true' or t == '1')")],
        raises={}, returns="bool", properties=P + ["C09"],
    ))
    db.add(Contract(
        f"{CONV}:BoolConverter.deserialize", variant="any-str",
        params={"self": f"obj:{CONV}:BoolConverter", "value": "str"},
        kwargs={"known": {}, "open": False},
        ensures=[("only-true-false-literals", "py_strip(value) in ('true', '1', 'false', '0')")],
        raises={"ConverterError": "py_strip(value) not in ('true', '1', 'false', '0')"},
        returns="bool", properties=P + ["C15"],
    ))
    db.add(Contract(
        f"{CONV}:BoolConverter.deserialize", variant="bool",
        params={"self": f"obj:{CONV}:BoolConverter", "value": "bool"},
        kwargs={"known": {}, "open": False},
        ensures=[("identity", "result == value")],
        raises={}, returns="bool", properties=P,
    ))
    db.add(Contract(
        f"{CONV}:BoolConverter.deserialize", variant="other",
        params={"self": f"obj:{CONV}:BoolConverter", "value": "int|None"},
        kwargs={"known": {}, "open": False},
        ensures=[("never-returns", "False")],
        raises={"ConverterError": True},
        properties=P + ["C15"],
    ))
    # ------------------------------------------------------------------ int
    db.add(Contract(
        f"{CONV}:IntConverter.serialize",
        params={"self": f"obj:{CONV}:IntConverter", "value": "int"},
        kwargs={"known": {}, "open": False},
        ensures=[("xsd-integer-lexical", "matches(result, '-?[0-9]+')"),
                 ("denotes-value", "ite(value < 0, result[0] == '-' and nat(result[1:]) == -value, nat(result) == value)")],
        raises={}, returns="str", properties=P,
    ))
    for name, sg in (("plain", ""), ("plus", "+"), ("minus", "-")):
        db.add(Contract(
            f"{CONV}:IntConverter.deserialize", variant=f"xsd-lexical-{name}",
            params={"self": f"obj:{CONV}:IntConverter", "value": "str"},
            ghost={"w1": "str", "d": "str", "w2": "str"},
            kwargs={"known": {}, "open": False},
            requires=[f"matches(w1, '{XSD_WS}')", f"matches(w2, '{XSD_WS}')",
                      "matches(d, '[0-9]+')", f"value == w1 + {sg!r} + d + w2"],
            hints=[(f"int_padded(value, w1, '{XSD_WS}', w2, {sg!r}, None, d, '[0-9]+')" if sg else f"int_padded(value, w1, '{XSD_WS}', w2, d, '[0-9]+')"),
                   f"int_of_signed(py_int_strip(value), {sg!r}, d)"],
            ensures=[("xsd-value", "result == " + ("-nat(d)" if sg == "-" else "nat(d)"))],
            raises={}, returns="int", properties=P + ["C09"],
        ))
    db.add(Contract(
        f"{CONV}:IntConverter.deserialize", variant="any-str",
        params={"self": f"obj:{CONV}:IntConverter", "value": "str"},
        kwargs={"known": {}, "open": False},
        ensures=[("an-int-is-returned-or-it-fails", "result is not None")],
        raises={"ConverterError": True}, returns="int", properties=P + ["C15"],
    ))
    db.add(Contract(
        f"{CONV}:IntConverter.deserialize", variant="none",
        params={"self": f"obj:{CONV}:IntConverter", "value": "int|None"},
        kwargs={"known": {}, "open": False},
        ensures=[("int-identity", "result == value")],
        raises={"ConverterError": "value is None"}, returns="int", properties=["C15"],
    ))
    # ------------------------------------------------------------------ str
    db.add(Contract(
        f"{CONV}:StringConverter.deserialize",
        params={"self": f"obj:{CONV}:StringConverter", "value": "str"},
        kwargs={"known": {}, "open": False},
        ensures=[("identity", "result == value")], raises={}, returns="str", properties=P,
    ))
    db.add(Contract(
        f"{CONV}:StringConverter.serialize",
        params={"self": f"obj:{CONV}:StringConverter", "value": "str"},
        kwargs={"known": {}, "open": False},
        ensures=[("identity", "result == value")], raises={}, returns="str", properties=P,
    ))
    # ------------------------------------------------------------------ xsi:type datatype inference
    E = "xsdata.models.enums"
    db.add(Contract(
        f"{E}:int_datatype",
        params={"value": "int"},
        ensures=[
            ("short", "(result.code == 'short') == (-32768 <= value and value <= 32767)"),
            ("int", "(result.code == 'int') == ((-2147483648 <= value and value <= 2147483647) and not (-32768 <= value and value <= 32767))"),
            ("long", "(result.code == 'long') == ((-9223372036854775808 <= value and value <= 9223372036854775807) and not (-2147483648 <= value and value <= 2147483647))"),
            ("integer-otherwise", "result.code in ('short', 'int', 'long', 'integer')"),
        ],
        raises={}, properties=P,
    ))

    # ------------------------------------------------------------------ proxy converter (Xml* types)
    from pyvc.contracts import assume_method
    assume_method(db, "Factory", "__call__", returns="u:Any", raises=["ValueError"], pure=True)

    def proxy(mk, base):
        return mk.obj(f"{CONV}:ProxyConverter", {"factory": "opaque:Factory"})

    db.add(Contract(
        f"{CONV}:ProxyConverter.deserialize",
        params={"self": proxy, "value": "opaque:Any"}, kwargs={"known": {}, "open": False},
        ensures=[("result-of-the-type-factory", "result == uf('Factory.__call__', 'u:Any', self.factory, value)")],
        raises={"ConverterError": True},
        properties=["C05", "C15"],
        note="XmlDate/XmlTime/XmlDateTime.from_string, XmlDuration, XmlPeriod raise only ValueError (decided under C06)",
    ))
