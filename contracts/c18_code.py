from pyvc.contracts import Contract, Loop, assume_method
from . import collab

PS = "xsdata.formats.dataclass.serializers.code:PycodeSerializer"
OBJ = "xsdata.utils.objects"


def register(db):
    collab.declare(db)
    P = ["C18"]
    register_write(db)
    # ------------------------------------------------------------------ literals
    def qname(mk, base):
        o = mk.obj("xml.etree.ElementTree:QName", {"text": "str"})
        mk.st.deref(o).structural = True
        return o

    db.add(Contract(
        f"{OBJ}:literal_value", variant="qname", params={"value": qname},
        ensures=[("constructor-call-with-an-escaped-string-literal", "result == 'QName(' + py_repr(value.text) + ')'")],
        raises={}, returns="str", properties=P,
        note="py_repr(s) is the literal Python guarantees to evaluate back to s",
    ))
    db.add(Contract(
        f"{OBJ}:literal_value", variant="finite-float", params={"value": "real"},
        ensures=[("round-tripping-float-literal", "result == py_repr(value)")], raises={}, returns="str", properties=P,
    ))
    for name, lit in (("inf", float("inf")), ("neg-inf", float("-inf")), ("nan", float("nan"))):
        db.add(Contract(
            f"{OBJ}:literal_value", variant=name, params={"value": lit},
            ensures=[("non-finite-float-through-the-float-constructor", f"result == 'float(\"{str(lit)}\")'")],
            raises={}, returns="str", properties=P,
        ))
    db.add(Contract(
        f"{OBJ}:literal_value", variant="text", params={"value": "str"},
        ensures=[("escaped-string-literal", "result == py_repr(value)")], raises={}, returns="str", properties=P,
    ))
    # ------------------------------------------------------------------ imports
    collab.field(db, "type", "__module__", "str")

    def one_type(mk, base):
        from pyvc.values import PSet

        t = mk.value("opaque:type", "tp")
        mk.exports["tp0"] = t
        return mk.st.alloc(PSet({t}))

    db.add(Contract(
        f"{PS}.build_imports", variant="one-type",
        params={"types": one_type},
        ghost={},
        ensures=[
            ("builtins-need-no-import", "implies(tp0.__module__ == 'builtins', result == '')"),
            ("imports-the-top-level-name-of-the-class",
             "implies(tp0.__module__ != 'builtins', result == 'from ' + tp0.__module__ + ' import ' + "
             "ite('.' in tp0.__qualname__, tp0.__qualname__[:tp0.__qualname__.find('.')], tp0.__qualname__) + '\\n')"),
        ],
        raises={}, properties=P,
    ))

    # ------------------------------------------------------------------ collections keep their kind
    def serializer(mk, base):
        return mk.obj(PS, {"context": "opaque:XmlContext"})

    assume_method(db, "PySet", "add", mutates=True)
    db.add(Contract(f"{PS}.repr_object", variant="call-view", trusted=True, call_default=True, params={},
                    returns=lambda mk, base: (mk.value("str", "chunk"),), raises={}, modifies=["types"],
                    call_ensures=["result[0] == uf('rendered', 'str', obj)"],
                    note="call-site view (induction hypothesis of the recursive rendering): one chunk that is a function of the value"))
    KINDS = {
        "list": (lambda mk, base: mk.plist([mk.value("opaque:Any", "item")]), "'[\\n'", "']'"),
        "tuple": (lambda mk, base: (mk.value("opaque:Any", "item"),), "'(\\n'", "')'"),
    }
    for kind, (maker, opening, closing) in KINDS.items():
        db.add(Contract(
            f"{PS}.repr_array", variant=f"{kind}-of-one",
            params={"self": serializer, "obj": maker, "level": 0, "types": "opaque:PySet"},
            ensures=[
                (f"{kind}-literal-brackets", f"result[0] == {opening} and result[-1] == {closing}"),
                ("element-rendered-in-place", "result[2] == uf('rendered', 'str', obj[0]) and result[3] == ',\\n' and len(result) == 5"),
            ],
            raises={}, properties=P,
        ))
    # empty collections render as the literal python prints for them (evaluates to an equal, same-kind collection)
    for kind, empty, text in (("list", lambda mk, base: mk.plist([]), "'[]'"), ("tuple", lambda mk, base: (), "'()'")):
        db.add(Contract(
            f"{PS}.repr_array", variant=f"empty-{kind}",
            params={"self": serializer, "obj": empty, "level": 0, "types": "opaque:PySet"},
            ensures=[("empty-literal-of-the-same-kind", f"len(result) == 1 and result[0] == {text}")],
            raises={}, properties=P,
        ))
    # a value that is no collection, mapping, model or enum member is rendered by literal_value, alone
    for k in ("tuple", "list", "set", "frozenset", "dict", "Generator", "Enum"):
        db.opaque_isinst[("Leaf", k)] = False
    collab.field(db, "Leaf", "__class__", "u:type")
    db.add(Contract("xsdata.utils.objects:literal_value", variant="call-view", trusted=True, call_default=True,
                    params={}, returns="str", raises={}, call_ensures=["result == uf('literal_value', 'str', value)"],
                    note="call-site view: the literal is a function of the value (its content is decided by the verified literal_value contracts)"))
    db.add(Contract(
        f"{PS}.repr_object", variant="leaf-value",
        params={"self": serializer, "obj": "opaque:Leaf", "level": 0, "types": "opaque:PySet"},
        requires=["not uf('ClassType.is_model', 'bool', self.context.class_type, obj)"],
        ensures=[("exactly-the-literal-of-the-value", "len(result) == 1 and result[0] == uf('literal_value', 'str', obj)"),
                 ("type-collected-for-imports", "called('PySet.add') == 1")],
        raises={}, properties=P,
    ))
    # a list / tuple is delegated to repr_array with the same level and the same type collector
    db.add(Contract(f"{PS}.repr_array", variant="call-view", trusted=True, call_default=True, params={},
                    returns=lambda mk, base: (mk.value("str", "chunk"),), raises={}, modifies=["types"],
                    note="call-site view of repr_array: some chunks; the call is recorded on the ghost trace"))
    db.add(Contract(
        f"{PS}.repr_object", variant="list-value",
        params={"self": serializer, "obj": lambda mk, base: mk.plist([mk.value("opaque:Any", "item")]), "level": "int", "types": "opaque:PySet"},
        ensures=[("delegated-to-repr_array-at-the-same-level",
                  "called('PycodeSerializer.repr_array') == 1 and call_arg('PycodeSerializer.repr_array', 1) is obj "
                  "and call_arg('PycodeSerializer.repr_array', 2) == level and call_arg('PycodeSerializer.repr_array', 3) is types"),
                 ("type-collected-for-imports", "called('PySet.add') == 1")],
        raises={}, properties=P,
    ))
    for meth in ("repr_mapping", "repr_model"):
        db.add(Contract(f"{PS}.{meth}", variant="call-view", trusted=True, call_default=True, params={},
                        returns=lambda mk, base: (mk.value("str", "chunk"),), raises={}, modifies=["types"],
                        note=f"call-site view of {meth}: some chunks; the call is recorded on the ghost trace"))
    for k in ("tuple", "list", "set", "frozenset", "Generator"):
        db.opaque_isinst[("ModelObj", k)] = False
    db.opaque_isinst[("ModelObj", "dict")] = False
    DELEG = ("called('PycodeSerializer.{m}') == 1 and call_arg('PycodeSerializer.{m}', 1) is obj "
             "and call_arg('PycodeSerializer.{m}', 2) == level and call_arg('PycodeSerializer.{m}', 3) is types")
    db.add(Contract(
        f"{PS}.repr_object", variant="mapping-value",
        params={"self": serializer, "obj": "dict[str,str]", "level": "int", "types": "opaque:PySet"},
        ensures=[("delegated-to-repr_mapping-at-the-same-level", DELEG.format(m="repr_mapping")),
                 ("type-collected-for-imports", "called('PySet.add') == 1")],
        raises={}, properties=P,
    ))
    db.add(Contract(
        f"{PS}.repr_object", variant="model-value",
        params={"self": serializer, "obj": "opaque:ModelObj", "level": "int", "types": "opaque:PySet"},
        requires=["uf('ClassType.is_model', 'bool', self.context.class_type, obj)"],
        ensures=[("delegated-to-repr_model-at-the-same-level", DELEG.format(m="repr_model")),
                 ("type-collected-for-imports", "called('PySet.add') == 1")],
        raises={}, properties=P,
    ))
    # a mapping: every key and every value goes through repr_object (so enum / QName / Decimal keys are rendered as
    # code and their types are collected for the imports), in key: value order
    def one_entry(mk, base):
        k, v = mk.value("opaque:Any", "key"), mk.value("opaque:Any", "val")
        mk.exports["the_key"], mk.exports["the_val"] = k, v
        return mk.pdict({k: v}) if hasattr(mk, "pdict") else mk.st.alloc(__import__("pyvc.values", fromlist=["PDict"]).PDict({k: v}))

    db.add(Contract(
        f"{PS}.repr_mapping", variant="one-entry",
        params={"self": serializer, "obj": one_entry, "level": 0, "types": "opaque:PySet"},
        ensures=[
            ("key-and-value-are-rendered-as-objects", "len(result) == 7 and result[0] == '{\\n' and result[2] == uf('rendered', 'str', the_key) "
                                                      "and result[3] == ': ' and result[4] == uf('rendered', 'str', the_val) and result[5] == ',\\n' and result[6] == '}'"),
        ],
        raises={}, properties=P,
    ))
    # ------------------------------------------------------------------ enum members are resolvable dotted paths
    for k in ("tuple", "list", "set", "frozenset", "dict", "Generator"):
        db.opaque_isinst[("EnumValue", k)] = False
    db.opaque_isinst[("EnumValue", "Enum")] = True
    # an enum member may at the same time be a str / int / float (IntEnum, StrEnum, class X(str, Enum)): whether it is
    # one is a function of the member; a leaf value may be of any scalar type; a model instance is none of them
    for k in ("str", "bytes", "bool", "int", "float", "Decimal", "QName"):
        db.opaque_isinst[("EnumValue", k)] = "uf"
        db.opaque_isinst[("Leaf", k)] = "uf"
        db.opaque_isinst[("ModelObj", k)] = False
    collab.field(db, "EnumValue", "name", "str")
    collab.field(db, "EnumValue", "__class__", "u:type")
    db.add(Contract(
        f"{PS}.repr_object", variant="enum-member",
        params={"self": serializer, "obj": "opaque:EnumValue", "level": 0, "types": "opaque:PySet"},
        requires=["not uf('ClassType.is_model', 'bool', self.context.class_type, obj)"],
        ensures=[("qualified-dotted-path", "len(result) == 1 and result[0] == obj.__class__.__qualname__ + '.' + obj.name"),
                 ("type-collected-for-imports", "called('PySet.add') == 1")],
        raises={}, properties=P,
    ))

    # ------------------------------------------------------------------ default elision in model rendering
    import z3
    from pyvc.values import Opaque, z3sort

    UNSET = Opaque("object", z3.Const("code_unset", z3sort(("u", "object"))))
    db.const_overrides[("xsdata.formats.dataclass.serializers.code", "unset")] = UNSET
    collab.field(db, "Field", "init", "bool")
    collab.field(db, "Field", "name", "str")
    collab.field(db, "ModelObj", "__class__", "u:type")
    assume_method(db, "ClassType", "default_value", returns="u:object", pure=True)
    assume_method(db, "object", "__call__", returns="u:object", pure=True)
    db.opaque_isinst[("object", "Callable")] = "uf"
    db.total_getattr.add("ModelObj")  # dataclass instances have an attribute for every field

    def one_field(ex, st, recv, args, kwargs):
        if ex.cur_contract is not None and ex.cur_contract.variant == "two-fields":
            yield st, (ex.db.exports_static["fld"], ex.db.exports_static["fld2"])
        else:
            yield st, (ex.db.exports_static["fld"],)

    FLD = Opaque("Field", z3.Const("the_field", z3sort(("u", "Field"))))
    FLD2 = Opaque("Field", z3.Const("the_second_field", z3sort(("u", "Field"))))
    db.exports_static = {"fld": FLD, "fld2": FLD2}
    db.opaque_attrs[("ClassType", "get_fields")] = ("method", None)
    db.opaque_methods[("ClassType", "get_fields")] = one_field

    def model_obj(mk, base):
        mk.exports["fld"] = FLD
        mk.exports["unset"] = UNSET
        return mk.value("opaque:ModelObj", "obj")

    D = "uf('ClassType.default_value', 'u:object', self.context.class_type, fld, 'default', unset)"
    V = "uf('getattr_ModelObj', 'u:object', obj, fld.name)"
    EQ_DEFAULT = (f"({D} is not unset and ((uf('callable_object', 'bool', {D}) and uf('object.__call__', 'u:object', {D}) == {V}) or {D} == {V}))")
    db.add(Contract(
        f"{PS}.repr_model", variant="one-field",
        params={"self": serializer, "obj": model_obj, "level": 0, "types": "opaque:PySet"},
        ensures=[
            ("constructor-call", "result[0] == obj.__class__.__qualname__ + '(\\n' and result[-1] == '\\n)'"),
            ("field-left-out-only-when-it-equals-its-default",
             f"implies(fld.init and not {EQ_DEFAULT}, len(result) == 4 and result[1] == '    ' + fld.name + '=' and result[2] == uf('rendered', 'str', {V}))"),
            ("default-valued-field-elided", f"implies(fld.init and {EQ_DEFAULT}, len(result) == 2)"),
        ],
        raises={}, properties=P,
        note="a model with one field; getattr default (the types set) arises only for a missing attribute and is excluded",
    ))

    def model_obj2(mk, base):
        mk.exports["fld"], mk.exports["fld2"] = FLD, FLD2
        mk.exports["unset"] = UNSET
        return mk.value("opaque:ModelObj", "obj")

    D2, V2 = D.replace("fld,", "fld2,"), V.replace("fld.name", "fld2.name")
    EQ2 = EQ_DEFAULT.replace(D, D2).replace(V, V2)
    SHOWN1, SHOWN2 = f"(fld.init and not {EQ_DEFAULT})", f"(fld2.init and not {EQ2})"
    db.add(Contract(
        f"{PS}.repr_model", variant="two-fields",
        params={"self": serializer, "obj": model_obj2, "level": 0, "types": "opaque:PySet"},
        ensures=[
            ("both-rendered-in-field-order-separated-by-one-comma",
             f"implies({SHOWN1} and {SHOWN2}, len(result) == 6 and result[1] == '    ' + fld.name + '=' and result[2] == uf('rendered', 'str', {V}) "
             f"and result[3] == ',\\n    ' + fld2.name + '=' and result[4] == uf('rendered', 'str', {V2}))"),
            ("no-leading-comma-when-the-first-is-elided",
             f"implies(not {SHOWN1} and {SHOWN2}, len(result) == 4 and result[1] == '    ' + fld2.name + '=' and result[2] == uf('rendered', 'str', {V2}))"),
            ("no-trailing-comma-when-the-second-is-elided",
             f"implies({SHOWN1} and not {SHOWN2}, len(result) == 4 and result[1] == '    ' + fld.name + '=' and result[2] == uf('rendered', 'str', {V}))"),
            ("nothing-when-both-are-elided", f"implies(not {SHOWN1} and not {SHOWN2}, len(result) == 2)"),
            ("constructor-call", "result[0] == obj.__class__.__qualname__ + '(\\n' and result[-1] == '\\n)'"),
        ],
        raises={}, properties=P,
        note="a model with two fields: which fields appear, in which order, and where the separators go",
    ))

    def two_entries(mk, base):
        PD = __import__("pyvc.values", fromlist=["PDict"]).PDict
        k, v, k2, v2 = (mk.value("opaque:Any", n) for n in ("key", "val", "key2", "val2"))
        mk.exports.update(the_key=k, the_val=v, the_key2=k2, the_val2=v2)
        return mk.st.alloc(PD({k: v, k2: v2}))

    db.add(Contract(
        f"{PS}.repr_mapping", variant="two-entries",
        params={"self": serializer, "obj": two_entries, "level": 0, "types": "opaque:PySet"},
        ensures=[
            ("entries-in-order-each-key-colon-value-comma",
             "len(result) == 12 and result[0] == '{\\n' and result[1] == '    ' and result[2] == uf('rendered', 'str', the_key) and result[3] == ': ' "
             "and result[4] == uf('rendered', 'str', the_val) and result[5] == ',\\n' and result[6] == '    ' and result[7] == uf('rendered', 'str', the_key2) "
             "and result[8] == ': ' and result[9] == uf('rendered', 'str', the_val2) and result[10] == ',\\n' and result[11] == '}'"),
        ],
        raises={}, properties=P,
    ))


def register_write(db):
    """PycodeSerializer.write: the emitted text is - the import lines built from exactly the set of types the rendering
    collected, a blank line, `<var_name> = `, the rendering, a newline - in that order, so that executing it binds the
    requested variable and every name the rendering uses has been imported before."""
    from pyvc.contracts import pure_result
    from pyvc.values import Opaque
    PS = "xsdata.formats.dataclass.serializers.code:PycodeSerializer"
    assume_method(db, "StringIO", "write", mutates=True)
    assume_method(db, "StringIO", "getvalue", returns="str")
    assume_method(db, "TextIO", "write", mutates=True)

    def string_io(ex, st, args, kwargs):
        yield st, Opaque("StringIO")

    from pyvc import builtins_calls as bc
    bc.FUNCS["io.StringIO"] = string_io  # an abstract text buffer: writes and getvalue go to the ghost trace
    db.add(Contract(f"{PS}.build_imports", variant="call-view", trusted=True, call_default=True, params={}, returns="str", raises={},
                    note="call-site view (the function itself is verified: top-level names, nothing for builtins)"))

    def serializer(mk, base):
        return mk.obj(PS, {"context": "opaque:XmlContext"})

    RO, BI, W = "PycodeSerializer.repr_object", "PycodeSerializer.build_imports", "TextIO.write"
    db.add(Contract(
        f"{PS}.write", params={"self": serializer, "out": "opaque:TextIO", "obj": "opaque:Any", "var_name": "str"},
        ensures=[("the-object-is-rendered-once-at-the-top-level", f"called('{RO}') == 1 and call_arg('{RO}', 1) is obj and call_arg('{RO}', 2) == 0"),
                 ("imports-are-built-from-the-types-the-rendering-collected", f"called('{BI}') == 1 and call_arg('{BI}', 1) is call_arg('{RO}', 3) and called_before('{RO}', '{BI}')"),
                 ("imports-then-a-blank-line-then-the-assignment-then-a-newline",
                  f"called('{W}') == 5 and call_arg('{W}', 0, 0) == call_result('{BI}') and call_arg('{W}', 0, 1) == '\\n\\n' and "
                  f"call_arg('{W}', 0, 2) == var_name + ' = ' and call_arg('{W}', 0, 3) == call_result('StringIO.getvalue') and call_arg('{W}', 0, 4) == '\\n'"),
                 ("every-chunk-of-the-rendering-goes-to-the-buffer-that-is-emitted",
                  f"called('StringIO.write') == 1 and call_arg('StringIO.write', 0) == call_result('{RO}')[0] and called('StringIO.getvalue') == 1")],
        raises={}, properties=["C18"],
    ))
