"""Replay for the JSON / dictionary decoder contracts (C15).

The refuted obligations of these contracts are about abstract JSON values and abstract binding metadata, so the
solver's model names no concrete document.  The replay looks for a concrete witness of *the same obligation*
in a fixed family of small models and documents: a document on which the real decoder raises an exception
that the contract does not allow, of the class the obligation names (when it names one), with the function under
contract on the traceback.  Exit 1 + REPRODUCED when one is found.
"""
import traceback
from dataclasses import dataclass, field
from typing import Dict, List, Optional


def _models():
    @dataclass
    class B:
        a: Optional[int] = field(default=None, metadata={"type": "Element"})

    @dataclass
    class A:
        x: Optional[int] = field(default=None, metadata={"type": "Element"})
        attrs: Dict[str, str] = field(default_factory=dict, metadata={"type": "Attributes"})
        b: Optional[B] = field(default=None, metadata={"type": "Element"})
        items: List[int] = field(default_factory=list, metadata={"type": "Element"})
        toks: List[int] = field(default_factory=list, metadata={"type": "Element", "tokens": True})

    @dataclass
    class W:
        items: List[int] = field(default_factory=list, metadata={"wrapper": "items", "name": "item", "type": "Element"})

    return {"A": A, "B": B, "W": W}


DOCS = [
    ("A", b"{"), ("A", b"\xff"), ("A", b""), ("A", b"null"), ("A", b'"s"'), ("A", b"5"), ("A", b"true"), ("A", b"[1]"), ("A", b"[]"),
    ("A", b'{"attrs": 5}'), ("A", b'{"attrs": "ab"}'), ("A", b'{"attrs": [1]}'), ("A", b'{"attrs": null}'),
    ("A", b'{"x": {"a": 1}}'), ("A", b'{"b": 5}'), ("A", b'{"b": [1]}'), ("A", b'{"items": [{"a": 1}]}'), ("A", b'{"items": [[1]]}'),
    ("A", b'{"items": [null]}'), ("A", b'{"toks": [1, null]}'), ("A", b'{"toks": [[1], 2]}'), ("A", b'{"toks": [{"a": 1}]}'),
    ("A", b'{"x": {"qname": "a", "type": "t", "value": 5}}'), ("A", b'{"qname": "a", "type": null, "value": 5}'),
    ("A", b'{"qname": "a", "type": "B", "value": 5}'), ("A", b'{"qname": "a", "type": "B", "value": null}'),
    ("A", b'{"qname": "a", "type": "B", "value": [1]}'), ("A", b'{"b": {"qname": "a", "type": null, "value": 5}}'),
    ("A", b'{"b": {"qname": "a", "type": "nope", "value": {"a": 1}}}'), ("A", b'{"x": [1]}'), ("A", b'{"nope": 1}'),
    ("W", b'{"items": {"item": [1, 2]}}'), ("W", b'{"item": [1, 2]}'), ("W", b'{"items": [1, 2]}'), ("W", b'{"items": {"item": 1}}'),
    ("W", b'{"items": null}'), ("W", b'{"items": {"item": null}}'),
    (None, b'{"a": 1}'), (None, b"[]"), (None, b"null"), (None, b"[5]"), (None, b"5"),
]


def run(key, args, kind, clause, raises, ensures, RAISED):
    from xsdata.formats.dataclass.parsers import JsonParser

    models = _models()
    func = key.split(":")[1].split("#")[0].split(".")[-1]
    allowed = set(raises) | {"ParserError", "ConverterError", "XmlContextError"}
    import re

    m = re.search(r"raised at (\S+) line (\d+)", clause or "")
    site = (m.group(1).split(".")[-1], int(m.group(2))) if m else None
    for name, doc in DOCS:
        try:
            JsonParser().from_bytes(doc, models[name] if name else None)
        except BaseException as e:  # noqa
            mro = {c.__name__ for c in type(e).__mro__}
            if mro & allowed:
                continue
            suffix = key.split(":")[0].replace(".", "/") + ".py"
            tb = [f for f in traceback.extract_tb(e.__traceback__) if f.filename.endswith(suffix)]
            if func not in [f.name for f in tb]:
                continue
            if site and not any(f.name == site[0] and f.lineno == site[1] for f in tb):
                continue  # the obligation names the raising statement: the witness must raise there
            if RAISED and RAISED not in mro:
                continue
            print(f"witness: JsonParser().from_bytes({doc!r}, {name}) raised {type(e).__name__}: {str(e)[:100]}")
            print(f"         traceback passes through {func}; allowed are only {sorted(allowed)}")
            print("REPRODUCED")
            return 1
    print("no document of the replay family violates the clause")
    print("NOT-REPRODUCED")
    return 0
