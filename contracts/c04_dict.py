from pyvc.contracts import Contract, Loop, assume_method
from . import collab

SD = "xsdata.formats.dataclass.serializers.dict"
CT = "xsdata.formats.dataclass.compat:ClassType"


def register(db):
    collab.declare(db)
    P = ["C04"]

    # ------------------------------------------------------------------ None-filtering dict factory
    def three_pairs(mk, base):
        ks = [mk.value("str", f"k{i}") for i in range(3)]
        vs = [mk.value("u:Json|None", f"v{i}") for i in range(3)]
        mk.st.fr.env.update({f"k{i}": ks[i] for i in range(3)})
        mk.st.fr.env.update({f"v{i}": vs[i] for i in range(3)})
        return tuple(zip(ks, vs))

    db.add(Contract(
        f"{SD}:filter_none", variant="three-entries",
        params={"x": three_pairs},
        requires=["x[0][0] != x[1][0] and x[0][0] != x[2][0] and x[1][0] != x[2][0]"],
        ensures=[
            (f"entry{i}-kept-iff-not-none", f"(x[{i}][0] in result) == (x[{i}][1] is not None) and "
                                            f"implies(x[{i}][1] is not None, result[x[{i}][0]] == x[{i}][1])") for i in range(3)
        ] + [("nothing-else", "forall('str', lambda k: implies(k in result, k == x[0][0] or k == x[1][0] or k == x[2][0]))")],
        raises={}, properties=P,
        note="bounded in length (3 entries), unbounded in keys and values",
    ))

    # ------------------------------------------------------------------ best-match scoring of decoded candidates
    def class_type(mk, base):
        return mk.obj("xsdata.formats.dataclass.compat:Dataclasses", {})

    FIELD_A = None

    def get_fields(ex, st, recv, args, kwargs):
        from pyvc.values import Obj

        fa = Obj("dataclasses:Field", {"name": "a"})
        fb = Obj("dataclasses:Field", {"name": "b"})
        yield st, (st.alloc(fa), st.alloc(fb))

    collab.field(db, "Model", "a", "int|None")
    collab.field(db, "Model", "b", "str|None")
    db.add(Contract(f"xsdata.formats.dataclass.compat:Dataclasses.is_model", trusted=True, params={}, returns="bool", raises={},
                    call_ensures=["result == uf('is_model', 'bool', obj)"]))
    db.add(Contract(f"xsdata.formats.dataclass.compat:Dataclasses.get_fields", trusted=True, params={}, raises={},
                    returns=lambda mk, base: (mk.obj("dataclasses:Field", raw={"name": "a"}), mk.obj("dataclasses:Field", raw={"name": "b"})),
                    note="assumed for this lemma: a model with one int field 'a' and one str field 'b'"))
    SCORE_A = "ite(uf('Model.a', 'int|None', obj) is not None, 1.5, 0.0)"
    SCORE_B = "ite(uf('Model.b', 'str|None', obj) is not None, 1.0, 0.0)"
    db.add(Contract(
        f"{CT}.score_object", variant="model-with-int-and-str-field",
        params={"self": class_type, "obj": "opaque:Model"},
        requires=["uf('is_model', 'bool', obj)"],
        ensures=[("every-typed-value-counts-even-when-falsy", f"result == {SCORE_A} + {SCORE_B}")],
        raises={}, properties=P,
        note="a bound int value 0 / False must outscore the same text bound as str, otherwise decode(encode(x)) picks the wrong class",
    ))
    db.add(Contract(
        f"{CT}.score_object", variant="nothing-bound",
        params={"self": class_type, "obj": None},
        ensures=[("failed-candidate-scores-lowest", "result == -1.0")], raises={}, properties=P,
    ))

    # ------------------------------------------------------------------ encoded leaves are JSON-native
    DE = f"{SD}:DictEncoder"

    def encoder(mk, base):
        return mk.obj(DE, {"config": "opaque:SerializerConfig", "context": "opaque:XmlContext", "dict_factory": "opaque:Any"})

    collab.field(db, "XmlVar", "local_name", "str")
    db.opaque_isinst[("Any", "Enum")] = "uf"
    for k in ("dict", "int", "float", "str", "bool", "tuple", "list", "set", "frozenset"):
        db.opaque_isinst[("Any", k)] = "uf"
    for name, sort in (("int", "int"), ("str", "str"), ("bool", "bool")):
        db.add(Contract(
            f"{DE}.encode", variant=f"leaf-{name}",
            params={"self": encoder, "value": sort, "var": "opaque:XmlVar", "wrapped": "bool"},
            requires=["not var.wrapper or wrapped", "not uf('ClassType.is_model', 'bool', self.context.class_type, value)"],
            ensures=[("json-native-value-kept", "result == value")],
            raises={"ConverterError": True},
            properties=P,
        ))
    db.add(Contract(
        f"{DE}.encode", variant="none",
        params={"self": encoder, "value": None, "var": "opaque:XmlVar", "wrapped": "bool"},
        ensures=[("none-stays-none", "result is None")], raises={}, properties=P,
    ))
