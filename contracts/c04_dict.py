from pyvc.contracts import Contract, Loop, assume_method
from . import collab

SD = "xsdata.formats.dataclass.serializers.dict"
CT = "xsdata.formats.dataclass.compat:ClassType"


def register(db):
    collab.declare(db)
    P = ["C04"]

    # ------------------------------------------------------------------ None-filtering dict factory
    def three_pairs(mk, base):
        ks = [mk.value("str", f"k{i}") for i in range(3)]
        vs = [mk.value("u:Json|None", f"v{i}") for i in range(3)]
        mk.st.fr.env.update({f"k{i}": ks[i] for i in range(3)})
        mk.st.fr.env.update({f"v{i}": vs[i] for i in range(3)})
        return tuple(zip(ks, vs))

    db.add(Contract(
        f"{SD}:filter_none", variant="three-entries",
        params={"x": three_pairs},
        requires=["x[0][0] != x[1][0] and x[0][0] != x[2][0] and x[1][0] != x[2][0]"],
        ensures=[
            (f"entry{i}-kept-iff-not-none", f"(x[{i}][0] in result) == (x[{i}][1] is not None) and "
                                            f"implies(x[{i}][1] is not None, result[x[{i}][0]] == x[{i}][1])") for i in range(3)
        ] + [("nothing-else", "forall('str', lambda k: implies(k in result, k == x[0][0] or k == x[1][0] or k == x[2][0]))")],
        raises={}, properties=P,
        note="bounded in length (3 entries), unbounded in keys and values",
    ))

    # ------------------------------------------------------------------ best-match scoring of decoded candidates
    def class_type(mk, base):
        return mk.obj("xsdata.formats.dataclass.compat:Dataclasses", {})

    FIELD_A = None

    def get_fields(ex, st, recv, args, kwargs):
        from pyvc.values import Obj

        fa = Obj("dataclasses:Field", {"name": "a"})
        fb = Obj("dataclasses:Field", {"name": "b"})
        yield st, (st.alloc(fa), st.alloc(fb))

    collab.field(db, "Model", "a", "int|None")
    collab.field(db, "Model", "b", "str|None")
    db.add(Contract(f"xsdata.formats.dataclass.compat:Dataclasses.is_model", trusted=True, params={}, returns="bool", raises={},
                    call_ensures=["result == uf('is_model', 'bool', obj)"]))
    db.add(Contract(f"xsdata.formats.dataclass.compat:Dataclasses.get_fields", trusted=True, params={}, raises={},
                    returns=lambda mk, base: (mk.obj("dataclasses:Field", raw={"name": "a"}), mk.obj("dataclasses:Field", raw={"name": "b"})),
                    note="assumed for this lemma: a model with one int field 'a' and one str field 'b'"))
    SCORE_A = "ite(uf('Model.a', 'int|None', obj) is not None, 1.5, 0.0)"
    SCORE_B = "ite(uf('Model.b', 'str|None', obj) is not None, 1.0, 0.0)"
    db.add(Contract(
        f"{CT}.score_object", variant="model-with-int-and-str-field",
        params={"self": class_type, "obj": "opaque:Model"},
        requires=["uf('is_model', 'bool', obj)"],
        ensures=[("every-typed-value-counts-even-when-falsy", f"result == {SCORE_A} + {SCORE_B}")],
        raises={}, properties=P,
        note="a bound int value 0 / False must outscore the same text bound as str, otherwise decode(encode(x)) picks the wrong class",
    ))
    db.add(Contract(
        f"{CT}.score_object", variant="nothing-bound",
        params={"self": class_type, "obj": None},
        ensures=[("failed-candidate-scores-lowest", "result == -1.0")], raises={}, properties=P,
    ))

    # ------------------------------------------------------------------ encoded leaves are JSON-native
    DE = f"{SD}:DictEncoder"

    def encoder(mk, base):
        return mk.obj(DE, {"config": "opaque:SerializerConfig", "context": "opaque:XmlContext", "dict_factory": "opaque:Any"})

    collab.field(db, "XmlVar", "local_name", "str")
    db.opaque_isinst[("Any", "Enum")] = "uf"
    for k in ("dict", "int", "float", "str", "bool", "tuple", "list", "set", "frozenset"):
        db.opaque_isinst[("Any", k)] = "uf"
    for name, sort in (("int", "int"), ("str", "str"), ("bool", "bool")):
        db.add(Contract(
            f"{DE}.encode", variant=f"leaf-{name}",
            params={"self": encoder, "value": sort, "var": "opaque:XmlVar", "wrapped": "bool"},
            requires=["not var.wrapper or wrapped", "not uf('ClassType.is_model', 'bool', self.context.class_type, value)"],
            ensures=[("json-native-value-kept", "result == value")],
            raises={"ConverterError": True},
            properties=P,
        ))
    db.add(Contract(f"{DE}.encode", variant="call-view", trusted=True, call_default=True, params={}, returns="u:Any",
                    raises={"ConverterError": True, "XmlContextError": True},
                    note="call-site view of the recursive call: some JSON value (the call is recorded on the ghost trace)"))
    db.add(Contract(f"{DE}.next_value", variant="call-view", trusted=True, call_default=True, params={}, returns="u:Any",
                    raises={"ConverterError": True, "XmlContextError": True}))
    ENC, NV = "DictEncoder.encode", "DictEncoder.next_value"
    NOT_MODEL = "not uf('ClassType.is_model', 'bool', self.context.class_type, value)"
    db.add(Contract(
        f"{DE}.encode", variant="wrapped-field",
        params={"self": encoder, "value": "opaque:Any", "var": "opaque:XmlVar", "wrapped": False},
        requires=["var.wrapper is not None and len(var.wrapper) > 0"],
        ensures=[("the-value-is-encoded-once-more-as-the-wrapped-item",
                  f"called('{ENC}') == 1 and call_arg('{ENC}', 1) is value and call_arg('{ENC}', 2) is var and call_arg('{ENC}', 3) == True"),
                 ("one-entry-keyed-by-the-item-name", "called('Any.__call__') == 1 and len(call_arg('Any.__call__', 0)) == 1 and "
                                                      f"call_arg('Any.__call__', 0)[0][0] == var.local_name and call_arg('Any.__call__', 0)[0][1] is call_result('{ENC}')")],
        raises={"ConverterError": True, "XmlContextError": True}, properties=P,
    ))
    db.add(Contract(
        f"{DE}.encode", variant="model-value",
        params={"self": encoder, "value": "opaque:Any", "var": "opaque:XmlVar", "wrapped": "bool"},
        requires=["var.wrapper is None or wrapped", "uf('ClassType.is_model', 'bool', self.context.class_type, value)"],
        ensures=[("a-model-becomes-the-dictionary-of-its-fields",
                  f"called('{NV}') == 1 and call_arg('{NV}', 1) is value and called('Any.__call__') == 1 and call_arg('Any.__call__', 0) is call_result('{NV}')")],
        raises={"ConverterError": True, "XmlContextError": True}, properties=P,
    ))
    db.add(Contract(
        f"{DE}.encode", variant="enum-member",
        params={"self": encoder, "value": "opaque:EnumValue", "var": "opaque:XmlVar", "wrapped": "bool"},
        requires=["var.wrapper is None or wrapped", NOT_MODEL],
        ensures=[("an-enum-member-is-encoded-as-its-value",
                  f"implies(not isinstance(value, (dict, int, float, str, bool)), called('{ENC}') == 1 and call_arg('{ENC}', 1) == value.value and "
                  f"call_arg('{ENC}', 2) is var and call_arg('{ENC}', 3) == wrapped and result is call_result('{ENC}'))"),
                 ("a-member-that-is-a-json-native-value-is-kept", "implies(isinstance(value, (dict, int, float, str, bool)), result is value)")],
        raises={"ConverterError": True, "XmlContextError": True}, properties=P,
    ))
    # the fields of a model: every field is emitted once, under its wrapper name when it has one, else under its local
    # name, with its own value encoded for that field; an attribute is left out only when the serializer is told to
    # ignore default attributes and the value is the attribute's default
    collab.field(db, "SerializerConfig", "ignore_default_attributes", "bool")
    collab.field(db, "SerializerConfig", "globalns", "u:Any")
    assume_method(db, "XmlMeta", "get_all_vars", returns="seq[u:XmlVar]", pure=True)
    assume_method(db, "XmlVar", "is_optional", returns="bool", pure=True)
    db.total_getattr.add("ModelObj")
    SHOWN = "(not var.is_attribute or not self.config.ignore_default_attributes or not uf('XmlVar.is_optional', 'bool', var, uf('getattr_ModelObj', 'u:object', obj, var.name)))"
    db.add(Contract(
        f"{DE}.next_value", variant="per-field",
        params={"self": encoder, "obj": "opaque:ModelObj"},
        ensures=[], raises={"ConverterError": True, "XmlContextError": True},
        loops=[Loop(invariants=[], header="meta.get_all_vars()",
                    step=[("a-field-is-left-out-only-as-a-default-valued-attribute", f"len(yielded()) == ite({SHOWN}, 1, 0)"),
                          ("emitted-under-the-wrapper-name-else-the-local-name",
                           f"implies({SHOWN}, yielded()[0][0] == ite(var.wrapper is not None and len(var.wrapper) > 0, var.wrapper, var.local_name))"),
                          ("with-its-own-value-encoded-for-this-field",
                           f"implies({SHOWN}, called('{ENC}') == 1 and call_arg('{ENC}', 1) == uf('getattr_ModelObj', 'u:object', obj, var.name) and "
                           f"call_arg('{ENC}', 2) is var and yielded()[0][1] is call_result('{ENC}'))")])],
        properties=P,
    ))
    db.add(Contract(
        f"{DE}.encode", variant="none",
        params={"self": encoder, "value": None, "var": "opaque:XmlVar", "wrapped": "bool"},
        ensures=[("none-stays-none", "result is None")], raises={}, properties=P,
    ))
