from pyvc.contracts import Contract, Loop

NSMAP = "dict[str|None,str]"
FRAME = "forall('str|None', lambda k: implies(k in old(ns_map), k in ns_map and ns_map[k] == old(ns_map)[k]))"


def register(db):
    db.inline.update({"xsdata.models.enums:Namespace.get_enum"})
    db.add(Contract(
        "xsdata.utils.text:split",
        params={"value": "str", "sep": "str"},
        requires=["len(sep) > 0"],
        ensures=[
            ("partition-once", "result == ite(value.find(sep) >= 0 and value.find(sep) + len(sep) < len(value),"
                               " (value[:value.find(sep)], value[value.find(sep) + len(sep):]),"
                               " (None, ite(value.find(sep) >= 0, value[:value.find(sep)], value)))"),
        ],
        raises={},
        returns="tuple[str|None,str]",
        inline_calls=True,
        properties=["C03", "C05", "C09"],
    ))
    db.add(Contract(
        "xsdata.utils.namespaces:split_qname",
        params={"qname": "str"},
        requires=["len(qname) > 0"],
        ensures=[("clark-split", "result == clark_split(qname)")],
        raises={},
        returns="tuple[str|None,str]",
        properties=["C03", "C09", "C14"],
    ))
    db.add(Contract(
        "xsdata.utils.namespaces:build_qname",
        params={"tag_or_uri": "str|None", "tag": "str|None"},
        ensures=[
            ("qualified", "implies(tag_or_uri and tag, result == clark_build(tag_or_uri, tag))"),
            ("unqualified", "implies(not tag_or_uri, result == tag)"),
            ("uri-only", "implies(tag_or_uri and not tag, result == tag_or_uri)"),
            ("returns-only-for-a-non-empty-name", "bool(tag_or_uri) or bool(tag)"),
        ],
        raises={"ValueError": "not tag_or_uri and not tag"},
        returns="str",
        properties=["C03", "C09", "C14"],
    ))
    db.add(Contract(
        "verif_harness:qname_roundtrip",
        params={"uri": "str", "tag": "str"},
        requires=["len(uri) > 0", "len(tag) > 0", "'}' not in uri"],
        ensures=[("split-inverts-build", "result == (uri, tag)")],
        raises={},
        properties=["C03", "C09"],
    ))
    db.add(Contract(
        "xsdata.utils.namespaces:target_uri",
        params={"qname": "str"},
        requires=["len(qname) > 0"],
        ensures=[("is-uri-part", "result == clark_split(qname)[0]")],
        raises={}, returns="str|None",
        properties=["C03", "C10"],
    ))
    db.add(Contract(
        "xsdata.utils.namespaces:local_name",
        params={"qname": "str"},
        requires=["len(qname) > 0"],
        ensures=[("is-local-part", "result == clark_split(qname)[1]")],
        raises={}, returns="str",
        properties=["C03"],
    ))
    db.add(Contract(
        "xsdata.utils.namespaces:prefix_exists",
        params={"uri": "str", "ns_map": NSMAP},
        ensures=[("iff-some-prefix-bound", "result == exists('str|None', lambda k: k in ns_map and ns_map[k] == uri)"),
                 ("frame", "same_dict(ns_map, old(ns_map))")],
        raises={}, returns="bool",
        properties=["C03"],
    ))
    db.add(Contract(
        "xsdata.utils.namespaces:is_default",
        params={"uri": "str", "ns_map": NSMAP},
        ensures=[("iff-default-bound", "result == ((None in ns_map and ns_map[None] == uri) or ('' in ns_map and ns_map[''] == uri))"),
                 ("frame", "same_dict(ns_map, old(ns_map))")],
        raises={}, returns="bool",
        properties=["C03"],
    ))
    db.add(Contract(
        "xsdata.utils.namespaces:generate_prefix",
        params={"uri": "str", "ns_map": NSMAP},
        requires=["len(uri) > 0"],
        ensures=[
            ("binds-uri", "result in ns_map and ns_map[result] == uri"),
            ("fresh-prefix", "result not in old(ns_map)"),
            ("frame-existing-bindings-kept", FRAME),
            ("non-empty-prefix", "len(result) > 0"),
        ],
        raises={}, returns="str", modifies=["ns_map"],
        loops=[Loop(invariants=["len(prefix) > 0"], header="prefix in ns_map")],
        note="termination of the free-prefix search is not proved (pigeonhole over the finite map)",
        properties=["C03", "C05"],  # C05: QNameConverter.serialize allocates the prefix of a QName value through load_prefix
    ))
    db.add(Contract(
        "xsdata.utils.namespaces:load_prefix",
        params={"uri": "str", "ns_map": NSMAP},
        requires=["len(uri) > 0"],
        ensures=[
            ("binds-uri", "result in ns_map and ns_map[result] == uri"),
            ("frame-existing-bindings-kept", FRAME),
            ("reuses-existing", "implies(exists('str|None', lambda k: k in old(ns_map) and old(ns_map)[k] == uri), same_dict(ns_map, old(ns_map)))"),
        ],
        raises={}, returns="str|None", modifies=["ns_map"],
        loops=[Loop(invariants=["forall('int', lambda j: implies(0 <= j and j < _i, val_at(ns_map, j) != uri))"],
                    header="ns_map.items()")],
        properties=["C03", "C05"],
    ))

    # is_ncname: see c_scanners.py (array-encoded strings)

    # ------------------------------------------------------------------ cleaning of the user supplied prefix map
    NONEMPTY = "k is not None and k != ''"
    XML_NS = "http://www.w3.org/XML/1998/namespace"
    OKPFX = ("uf('is_ncname', 'bool', some(k)) and k != 'xmlns' and ((k == 'xml') == (ns_map[k] == '" + XML_NS + "'))")
    # stated for an arbitrary prefix p (a ghost parameter = universally quantified, ground when negated)
    USABLE = ("implies(p in {m}, uf('is_ncname', 'bool', p) and p != 'xmlns' "
              f"and ((p == 'xml') == ({{m}}[p] == '{XML_NS}')))")
    INV = [
        "forall('str|None', lambda k: implies(k in result, k != '' and result[k] != ''))",
        "forall('str|None', lambda k: implies(k is not None and k in result, k in ns_map and ns_map[k] == result[k]))",
        f"forall('str|None', lambda k: implies({NONEMPTY} and k in ns_map and ns_map[k] != '' and {OKPFX} and pos_of(ns_map, k) < _i, k in result))",
        "implies(None in result, (None in ns_map and result[None] == ns_map[None]) or ('' in ns_map and result[None] == ns_map['']))",
        "same_dict(ns_map, old(ns_map))",
        USABLE.format(m="result"),
        "implies(None in ns_map and ns_map[None] != '' and '' not in ns_map and pos_of(ns_map, None) < _i, None in result and result[None] == ns_map[None])",
    ]
    db.add(Contract(
        "xsdata.utils.namespaces:clean_prefixes",
        params={"ns_map": NSMAP}, ghost={"p": "str"},
        ensures=[
            ("no-empty-prefix-key-no-empty-uri", "forall('str|None', lambda k: implies(k in result, k != '' and result[k] != ''))"),
            ("prefixed-bindings-are-the-user-bindings", "forall('str|None', lambda k: implies(k is not None and k in result, k in ns_map and ns_map[k] == result[k]))"),
            ("every-usable-prefixed-binding-kept", f"forall('str|None', lambda k: implies({NONEMPTY} and k in ns_map and ns_map[k] != '' and {OKPFX}, k in result))"),
            ("default-namespace-comes-from-the-user-map", "implies(None in result, (None in ns_map and result[None] == ns_map[None]) or ('' in ns_map and result[None] == ns_map['']))"),
            ("default-dropped-when-its-uri-also-has-a-prefix", "implies(None in result, not exists('str', lambda k: k != '' and k in result and result[k] == result[None]))"),
            ("user-map-untouched", "same_dict(ns_map, old(ns_map)) and not (result is ns_map)"),
            ("default-namespace-kept-unless-a-prefix-has-its-uri",
             "implies(None in ns_map and ns_map[None] != '' and '' not in ns_map and not exists('str', lambda k: k != '' and k in result and result[k] == ns_map[None]), "
             "None in result and result[None] == ns_map[None])"),
            # Namespaces in XML 1.0: a prefix is an NCName, 'xmlns' can not be declared, 'xml' is bound to one URI
            ("every-prefix-is-usable-in-a-document", USABLE.format(m="result")),
        ],
        raises={}, returns=NSMAP,
        loops=[Loop(invariants=INV, header="ns_map.items()", modifies=["result"], vars={"result": NSMAP})],
        properties=["C03", "C14"],
    ))
