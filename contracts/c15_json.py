"""C15, JSON / dictionary side: whatever JSON value arrives, the decoder returns or raises one of the documented
errors (ParserError, ConverterError, XmlContextError).

A JSON value is an abstract value of kind ``Json`` whose Python type is visible only through ``isinstance``
(uninterpreted, mutually exclusive tags).  Operations that Python defines only for some of the types raise what
CPython raises for the others: ``v.keys()`` -> AttributeError unless dict, ``v[k]`` -> TypeError unless dict/list,
``dict(v)`` -> TypeError/ValueError unless dict.
"""
from pyvc.contracts import Contract, Loop, assume_method, pure_result
from pyvc.values import Opaque, SV
from pyvc import builtins_model as bm
from . import collab

DD = "xsdata.formats.dataclass.parsers.dict:DictDecoder"
JP = "xsdata.formats.dataclass.parsers.json:JsonParser"
DOCUMENTED = {"ParserError": True, "ConverterError": True, "XmlContextError": True}
# the derived-element class of the class type has the fields qname, type, value (DerivedElement; a plug-in class
# type must provide the same): a JSON object whose key set equals ClassType.derived_keys has these three keys
DERIVED = ("implies({d}.keys() == self.context.class_type.derived_keys, uf('Json.has', 'bool', {d}, 'qname') and "
           "uf('Json.has', 'bool', {d}, 'type') and uf('Json.has', 'bool', {d}, 'value'))")


def _is(ex, st, v, name):
    from pyvc.values import TypeRef

    r = bm.isinstance_check(ex, st, v, TypeRef(name))
    return r if isinstance(r, bool) else r


def declare_json(db):
    if getattr(db, "_json_done", False):
        return
    db._json_done = True
    for t in ("dict", "list", "str", "int", "float", "bool", "tuple", "set", "frozenset", "Generator"):
        db.opaque_isinst[("Json", t)] = "uf" if t in ("dict", "list", "str", "int", "float", "bool") else False
    db.exclusive_types["Json"] = ["dict", "list", "str", "float", "int"]

    def dict_only(meth, returns):
        def custom(ex, st, recv, args, kwargs):
            for st1, ok in ex.branch(st, _is(ex, st, recv, "dict")):
                if ok:
                    yield st1, pure_result(ex, st1, f"Json.{meth}", returns, [recv] + list(args))
                else:
                    yield ex.raise_(st1, "AttributeError")
        assume_method(db, "Json", meth, custom=custom)

    dict_only("keys", "u:Keys")
    dict_only("items", "seq[tuple[str,u:Json|None]]")
    dict_only("values", "u:Values")
    dict_only("get", "u:Json|None")

    def has(ex, st, v, key):
        return pure_result(ex, st, "Json.has", "bool", [v, key])

    def getitem(ex, st, v, idx):
        for st1, is_dict in ex.branch(st, _is(ex, st, v, "dict")):
            if is_dict:
                for st2, present in ex.branch(st1, has(ex, st1, v, idx)):
                    if present:
                        yield st2, pure_result(ex, st2, "Json.item", "u:Json|None", [v, idx])
                    else:
                        yield ex.raise_(st2, "KeyError")
                continue
            for st3, is_list in ex.branch(st1, _is(ex, st1, v, "list")):
                if is_list:
                    if bm.natural_sort(idx) not in ("int", "bool"):
                        yield ex.raise_(st3, "TypeError")
                    elif idx == 0 and not bm.is_sym(idx):
                        # a list is truthy iff it has a first element
                        for st4, nonempty in ex.branch(st3, ex.truthy(st3, v)):
                            if nonempty:
                                yield st4, pure_result(ex, st4, "Json.item", "u:Json|None", [v, idx])
                            else:
                                yield ex.raise_(st4, "IndexError")
                    else:
                        st4 = st3.fork()
                        yield ex.raise_(st4, "IndexError")
                        yield st3, pure_result(ex, st3, "Json.item", "u:Json|None", [v, idx])
                else:
                    yield ex.raise_(st3, "TypeError")

    def contains(ex, st, v, item):
        for st1, is_dict in ex.branch(st, _is(ex, st, v, "dict")):
            if is_dict:
                yield st1, has(ex, st1, v, item)
                continue
            for st2, other in ex.branch(st1, SV("bool", __import__("z3").Or(bm._z(_is(ex, st1, v, "list")), bm._z(_is(ex, st1, v, "str"))))):
                if other:
                    yield st2, pure_result(ex, st2, "Json.elem", "bool", [v, item])
                else:
                    yield ex.raise_(st2, "TypeError")

    db.opaque_ops[("Json", "contains")] = contains

    def iterate(ex, st, v):
        """Iterating a JSON value: a list yields its elements, a dict its keys, a string its characters;
        numbers / booleans are not iterable."""
        for st1, is_list in ex.branch(st, _is(ex, st, v, "list")):
            if is_list:
                yield st1, pure_result(ex, st1, "Json.elements", "seq[u:Json|None]", [v])
                continue
            for st2, is_dict in ex.branch(st1, _is(ex, st1, v, "dict")):
                if is_dict:
                    yield st2, pure_result(ex, st2, "Json.keylist", "seq[str]", [v])
                    continue
                for st3, is_str in ex.branch(st2, _is(ex, st2, v, "str")):
                    if is_str:
                        yield st3, pure_result(ex, st3, "Json.chars", "seq[str]", [v])
                    else:
                        yield ex.raise_(st3, "TypeError")

    db.opaque_ops[("Json", "iter")] = iterate
    db.opaque_ops[("Json", "getitem")] = getitem

    def to_dict(ex, st, v):
        for st1, is_dict in ex.branch(st, _is(ex, st, v, "dict")):
            if is_dict:
                yield st1, Opaque("PyDict")
            else:
                st2 = st1.fork()
                yield ex.raise_(st2, "TypeError")
                yield ex.raise_(st1, "ValueError")

    db.opaque_ops[("Json", "dict")] = to_dict


def register(db):
    collab.declare(db)
    declare_json(db)
    P = ["C15"]

    def decoder(mk, base):
        return mk.obj(DD, {"config": "opaque:ParserConfig", "context": "opaque:XmlContext"})

    assume_method(db, "XmlContext", "find_type_by_fields", returns="u:type|None", pure=True)
    db.add(Contract(
        f"{DD}.detect_type",
        params={"self": decoder, "data": "u:Json|None"},
        ensures=[], raises={"ParserError": True}, returns="u:type", properties=P,
        note="no class requested: the class is looked up by the keys of the (first) object of the document",
    ))
    db.add(Contract(
        f"{DD}.verify_type",
        params={"self": decoder, "clazz": "u:type|None", "data": "u:Json|None"},
        ensures=[], raises={"ParserError": True}, returns="u:type", properties=P,
    ))
    db.add(Contract(
        f"{DD}.find_var", variant="wrapper-shape",
        params={"cls": "opaque:type", "xml_vars": "seq[u:XmlVar]", "key": "str", "value": "u:Json|None"},
        ensures=[("a-wrapper-match-has-the-wrapped-value",
                  "implies(result is not None and result.local_name != key, "
                  "result.wrapper == key and isinstance(value, dict) and uf('Json.has', 'bool', some(value), result.local_name))"),
                 # which field a key selects: by its local name when the value's array-ness fits the field
                 ("a-name-match-fits-the-array-ness-of-the-field",
                  "implies(result is not None and result.local_name == key, "
                  "isinstance(value, list) == (result.list_element or result.tokens))"),
                 ("the-selected-field-is-one-of-the-class", "implies(result is not None, exists('int', lambda j: 0 <= j and j < len(xml_vars) and xml_vars[j] is result))"),
                 ("the-first-fitting-field-wins",
                  "implies(result is not None, forall('int', lambda j: implies(0 <= j and j < len(xml_vars) and xml_vars[j].local_name == key and "
                  "isinstance(value, list) == (xml_vars[j].list_element or xml_vars[j].tokens), "
                  "exists('int', lambda i: 0 <= i and i <= j and xml_vars[i] is result))))"),
                 ("no-field-only-if-no-name-match-fits",
                  "implies(result is None, forall('int', lambda j: implies(0 <= j and j < len(xml_vars), "
                  "not (xml_vars[j].local_name == key and isinstance(value, list) == (xml_vars[j].list_element or xml_vars[j].tokens)))))")],
        raises={}, returns="u:XmlVar|None",
        loops=[Loop(invariants=["forall('int', lambda j: implies(0 <= j and j < _i, "
                                "not (xml_vars[j].local_name == key and isinstance(value, list) == (xml_vars[j].list_element or xml_vars[j].tokens))))"],
                    header="xml_vars")],
        call_default=True,
        call_ensures=["result == uf('DictDecoder.find_var', 'u:XmlVar|None', xml_vars, key, value)",
                      "implies(result is not None and result.local_name != key, "
                      "result.wrapper == key and isinstance(value, dict) and uf('Json.has', 'bool', some(value), result.local_name))"],
        properties=P + ["C10"],
        note="the key -> field lookup; callers additionally assume it is a function of its arguments (no state is read)",
    ))
    db.add(Contract(
        f"{DD}.decode",
        params={"self": decoder, "data": "u:Json|None", "clazz": "u:type|None"},
        ensures=[], raises=dict(DOCUMENTED), properties=P,
        note="any JSON document: object, array, string, number, true/false/null",
    ))
    db.add(Contract(
        f"{DD}.decode", variant="object-document",
        params={"self": decoder, "data": "u:Json|None", "clazz": "u:type|None"},
        requires=["not isinstance(data, list)"],
        ensures=[("the-document-is-bound-once-to-the-verified-class",
                  "called('DictDecoder.verify_type') == 1 and called('DictDecoder.bind_dataclass') == 1 and "
                  "call_arg('DictDecoder.bind_dataclass', 1) == data and call_arg('DictDecoder.verify_type', 1) == clazz and "
                  "call_arg('DictDecoder.verify_type', 2) == data")],
        raises=dict(DOCUMENTED), properties=["C04"],
    ))
    # ------------------------------------------------------------------ bind_dataclass: any dict of JSON values
    db.add(Contract(
        f"{DD}.bind_dataclass", variant="documented-errors", call_default=True,
        params={"self": decoder, "data": "u:Json|None", "clazz": "opaque:type"},
        ensures=[], raises=dict(DOCUMENTED), returns="u:Any",
        loops=[Loop(invariants=[], header="data.items()", modifies=["params"], vars={"params": "dict[str,u:Any]"})],
        properties=P,
        note="any JSON value (the annotation says dict; nothing upstream guarantees it)",
    ))
    # what happens to each key of an object document (C04: the decoded object is built from the right pieces)
    FV = "uf('DictDecoder.find_var', 'u:XmlVar|None', xml_vars, key, data[key])"  # (the body re-assigns `value`)
    BV = "DictDecoder.bind_value"
    db.add(Contract(
        f"{DD}.bind_dataclass", variant="per-key",
        params={"self": decoder, "data": "dict[str,u:Json]", "clazz": "opaque:type"},
        requires=["set(data.keys()) != self.context.class_type.derived_keys"],
        ensures=[("the-result-is-the-object-the-class-factory-built",
                  "called('ParserConfig.class_factory') == 1 and returned('ParserConfig.class_factory') == 1 and "
                  "result is call_result('ParserConfig.class_factory') and call_arg('ParserConfig.class_factory', 0) is clazz")],
        raises=dict(DOCUMENTED), returns="u:Any",
        loops=[Loop(invariants=[], header="data.items()", modifies=["params"], vars={"params": "dict[str,u:Any]"},
                    step=[("a-key-is-bound-with-the-field-find_var-selects",
                           f"implies({FV} is not None, called('{BV}') == 1 and call_arg('{BV}', 1) is meta and call_arg('{BV}', 2) is some({FV}))"),
                          ("a-plain-key-binds-its-own-value",
                           f"implies({FV} is not None and (some({FV}).wrapper is None or len(some({FV}).wrapper) == 0 or some({FV}).local_name == key), "
                           f"call_arg('{BV}', 3) == data[key])"),
                          ("a-wrapper-key-binds-the-wrapped-value",
                           f"implies({FV} is not None and some({FV}).wrapper is not None and len(some({FV}).wrapper) > 0 and some({FV}).local_name != key, "
                           f"call_arg('{BV}', 3) == uf('Json.item', 'u:Json|None', data[key], some({FV}).local_name))"),
                          ("the-bound-value-is-stored-under-the-field-name",
                           f"implies({FV} is not None and some({FV}).init, some({FV}).name in params and params[some({FV}).name] is call_result('{BV}'))"),
                          ("a-non-init-field-is-only-checked-against-its-fixed-value",
                           f"implies({FV} is not None and not some({FV}).init, called('ParserUtils.validate_fixed_value') == 1 and "
                           f"call_arg('ParserUtils.validate_fixed_value', 3) is call_result('{BV}'))"),
                          ("an-unknown-key-binds-nothing", f"implies({FV} is None, called('{BV}') == 0)")])],
        properties=["C04", "C10"],
    ))
    assume_method(db, "ClassType", "score_object", returns="real", pure=True)
    assume_method(db, "XmlContext", "local_names_match", returns="bool", pure=True)
    # ------------------------------------------------------------------ values
    VAL = {"self": decoder, "meta": "opaque:XmlMeta", "var": "opaque:XmlVar", "value": "u:Json|None"}
    for m in ("bind_text", "bind_complex_type", "bind_derived_value"):
        pass
    db.add(Contract(
        f"{DD}.bind_value", variant="documented-errors", call_default=True,
        params={**VAL, "recursive": "bool"},
        ensures=[], raises=dict(DOCUMENTED), returns="u:Any", properties=P,
        assumes=["implies(var.list_element, var.factory is not None)"],
        note="any JSON value for any field kind",
    ))
    # dispatch of bind_value: which binder a JSON value of which shape reaches (C04 / C10: the decoded object is built
    # from the right pieces), with the value, field and metadata passed through unchanged
    NOT_ATTRS = ["not var.is_attributes"]
    db.add(Contract(
        f"{DD}.bind_value", variant="scalar-goes-to-bind_text",
        params={**VAL, "recursive": "bool"},
        requires=NOT_ATTRS + ["not isinstance(value, dict)", "recursive or not (var.list_element and isinstance(value, list))"],
        ensures=[("bound-as-text", "called('DictDecoder.bind_text') == 1 and call_arg('DictDecoder.bind_text', 1) is meta and "
                                  "call_arg('DictDecoder.bind_text', 2) is var and call_arg('DictDecoder.bind_text', 3) == value"),
                 ("no-other-binder", "called('DictDecoder.bind_complex_type') == 0 and called('DictDecoder.bind_dataclass') == 0 and "
                                     "called('DictDecoder.bind_derived_value') == 0")],
        raises=dict(DOCUMENTED), returns="u:Any", properties=["C04", "C10"],
    ))
    db.add(Contract(
        f"{DD}.bind_value", variant="item-of-a-repeating-element",
        params={**VAL, "recursive": "bool"},
        requires=["recursive"],
        ensures=[], raises=dict(DOCUMENTED), returns="u:Any", properties=["C04"],
        assumes=["implies(var.list_element, var.factory is not None)"],
        note="used at the call site inside bind_value: an item of a repeating element is bound as ONE value of the field "
             "(recursive=True), so an inner list is a token list and not another repetition",
    ))
    db.add(Contract(
        f"{DD}.bind_value", variant="repeating-element",
        params={**VAL, "recursive": "bool"},
        requires=NOT_ATTRS + ["var.list_element", "isinstance(value, list)", "not recursive"],
        call_variants={f"{DD}.bind_value": [("item-of-a-repeating-element", {})]},
        ensures=[("no-text-binding-of-the-list-itself", "called('DictDecoder.bind_text') == 0")],
        raises=dict(DOCUMENTED), returns="u:Any", properties=["C04"],
        assumes=["implies(var.list_element, var.factory is not None)"],
    ))
    db.add(Contract(
        f"{DD}.bind_value", variant="attributes-field-copies-the-object",
        params={**VAL, "recursive": "bool"},
        requires=["var.is_attributes", "isinstance(value, dict)"],
        ensures=[("no-binder-involved", "called('DictDecoder.bind_text') == 0 and called('DictDecoder.bind_complex_type') == 0 and "
                                        "called('DictDecoder.bind_dataclass') == 0 and called('DictDecoder.bind_derived_value') == 0")],
        raises={}, returns="u:Any", properties=["C04"],
    ))
    db.add(Contract(
        f"{DD}.bind_text", variant="documented-errors", call_default=True,
        params=dict(VAL), ensures=[], raises=dict(DOCUMENTED), returns="u:Any", properties=P,
        call_variants={"xsdata.formats.converter:ConverterFactory.serialize": [("any-json-value", {})]},
    ))
    PV, SER = "ParserUtils.parse_var", "ConverterFactory.serialize"
    db.add(Contract(
        f"{DD}.bind_text", variant="typed-field-goes-through-its-converter",
        params=dict(VAL), requires=["not var.is_elements", "not var.any_type", "not var.is_wildcard"],
        ensures=[("converted-by-the-field-converter-under-the-decoder-options",
                  f"called('{PV}') == 1 and call_arg('{PV}', 1) is meta and call_arg('{PV}', 2) is var and call_arg('{PV}', 3) is self.config"),
                 ("what-is-converted-is-the-lexical-form-of-the-value",
                  f"called('{SER}') == 1 and call_arg('{SER}', 1) == value and call_arg('{PV}', 4) == call_result('{SER}')"),
                 ("result-is-the-conversion-result", f"called('{PV}') == 1 and result is call_result('{PV}')")],
        raises=dict(DOCUMENTED), returns="u:Any", properties=["C10", "C04"],
        call_variants={"xsdata.formats.converter:ConverterFactory.serialize": [("any-json-value", {})]},
        note="every value of a typed field - whatever JSON type it has - is judged by the field's converter, so a value the "
             "converter rejects is a ConverterWarning or (fail_on_converter_warnings) a ParserError, never silently kept",
    ))
    db.add(Contract(
        f"{DD}.bind_complex_type", variant="documented-errors", call_default=True,
        params={"self": decoder, "meta": "opaque:XmlMeta", "var": "opaque:XmlVar", "data": "u:Json"},
        requires=["isinstance(data, dict)"],
        ensures=[], raises=dict(DOCUMENTED), returns="u:Any", properties=P,
    ))
    db.add(Contract(
        f"{DD}.bind_derived_value", variant="documented-errors", call_default=True,
        params={"self": decoder, "meta": "opaque:XmlMeta", "var": "opaque:XmlVar", "data": "u:Json"},
        requires=["isinstance(data, dict)", "data.keys() == self.context.class_type.derived_keys"],
        assumes=[DERIVED.format(d="data")],
        ensures=[], raises=dict(DOCUMENTED), returns="u:Any", properties=P,
    ))
    assume_method(db, "XmlContext", "find_subclass", returns="u:type|None", pure=True)
    XT = "uf('Json.item', 'u:Json|None', data, 'type')"
    FT = "XmlContext.find_type"
    db.add(Contract(
        f"{DD}.bind_derived_value", variant="named-type",
        params={"self": decoder, "meta": "opaque:XmlMeta", "var": "opaque:XmlVar", "data": "u:Json"},
        requires=["isinstance(data, dict)", "data.keys() == self.context.class_type.derived_keys", "not var.elements"],
        assumes=[DERIVED.format(d="data")],
        ensures=[("a-named-type-is-looked-up-in-the-whole-index-whatever-the-field-declares",
                  f"implies(called('DictDecoder.bind_dataclass') == 1 and called('DictDecoder.bind_complex_type') == 0, "
                  f"called('{FT}') == 1 and call_arg('{FT}', 0) == {XT} and called('XmlContext.find_subclass') == 0 and "
                  f"call_arg('DictDecoder.bind_dataclass', 2) is call_result('{FT}'))")],
        raises=dict(DOCUMENTED), returns="u:Any", properties=["C04"],
        note="decode(encode(x)): the encoder writes the class of the value as `type`; the field's declared class must not "
             "narrow the lookup (the value may be of the declared class itself)",
    ))
    db.add(Contract(
        f"{DD}.bind_derived_dataclass", variant="documented-errors", call_default=True,
        params={"self": decoder, "data": "u:Json", "clazz": "opaque:type"},
        requires=["isinstance(data, dict)", "set(data.keys()) == self.context.class_type.derived_keys"],
        assumes=[DERIVED.replace("{d}.keys() ==", "set({d}.keys()) ==").format(d="data")],
        ensures=[], raises=dict(DOCUMENTED), returns="u:Any", properties=P,
    ))
    # a candidate class is tried by a decoder that differs from the caller's only in being strict about conversion
    # failures (so that "5" is not bound to an int candidate as text); every other option of the caller - in
    # particular leniency about unknown properties - and the caller's context apply to the candidates as well
    STRICT = "uf('dataclasses.replace[fail_on_converter_warnings]', 'u:ParserConfig', caller_config, True)"
    db.add(Contract(
        f"{DD}.bind_dataclass", variant="candidate-of-a-best-match",
        params={"self": decoder, "data": "u:Json|None", "clazz": "opaque:type"},
        ghost={"caller_config": "u:ParserConfig", "caller_context": "u:XmlContext"},
        requires=[f"self.config == {STRICT}", "self.context == caller_context"],
        ensures=[], raises={"Exception": True}, returns="u:Any",
        loops=[Loop(invariants=[], header="data.items()", modifies=["params"], vars={"params": "dict[str,u:Any]"})],
        properties=["C04", "C10"],
        note="used at the call site in bind_best_dataclass: its pre-condition is what that caller must establish",
    ))
    db.add(Contract(
        f"{DD}.bind_best_dataclass", variant="documented-errors", call_default=True,
        params={"self": decoder, "data": "u:Json", "classes": "seq[u:type]"},
        requires=["isinstance(data, dict)"],
        call_variants={f"{DD}.bind_dataclass": [("candidate-of-a-best-match", {"caller_config": "self.config", "caller_context": "self.context"})] * 1},
        ensures=[("the-decoder-own-options-are-never-written", "unmodified(self.config)")],
        raises=dict(DOCUMENTED), returns="u:Any", properties=P + ["C04", "C10", "C14"],
        loops=[Loop(invariants=[], header="classes", vars={"obj": "u:Any|None", "max_score": "real", "candidate": "u:Any|None", "score": "real"})],
    ))
    # ------------------------------------------------------------------ JsonParser: bytes -> document -> model
    assume_method(db, "JsonLoader", "__call__", returns="u:Json|None", raises=["ValueError"])
    db.opaque_hasattr = getattr(db, "opaque_hasattr", {})

    def parser(mk, base):
        return mk.obj(JP, {"config": "opaque:ParserConfig", "context": "opaque:XmlContext", "load_factory": "opaque:JsonLoader"})

    db.add(Contract(
        f"{JP}.load_json", variant="stream",
        params={"self": parser, "source": "opaque:Stream"},
        requires=["hasattr(source, 'read')"],
        ensures=[], raises={"ValueError": True}, returns="u:Json|None", call_default=True, properties=P,
        note="json.load (the default load_factory) raises ValueError (JSONDecodeError, UnicodeDecodeError) on bytes that "
             "are not a JSON text: assumed contract of the loader",
    ))
    db.add(Contract(
        f"{JP}.parse", variant="stream",
        params={"self": parser, "source": "opaque:Stream", "clazz": "u:type|None"},
        requires=["hasattr(source, 'read')"],
        ensures=[], raises=dict(DOCUMENTED), properties=P,
    ))
    register_serialize(db)
    for c in list(db.contracts.values()):
        if c.module in (DD.split(":")[0], JP.split(":")[0]) and "C15" in c.properties and not c.trusted and c.replay is None:
            c.replay = "replay_json"


def register_serialize(db):
    """ConverterFactory.serialize on an arbitrary JSON value (what DictDecoder.bind_text passes)."""
    from .c05_factory import F

    def factory(mk, base):
        return mk.obj(F, {"registry": "opaque:PyDict"})

    db.add(Contract(
        f"{F}.serialize", variant="any-json-value",
        params={"self": factory, "value": "u:Json|None"}, kwargs={"known": {}, "open": False},
        ensures=[], raises={"ConverterError": True}, returns="str|None",
        call_variants={f"{F}.serialize": [("any-json-value", {})]},
        properties=["C15"], replay="replay_json",
        note="a list is a token list (recursively); any other value goes to its registered converter",
    ))
