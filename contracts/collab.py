"""Assumed contracts of abstract collaborators (binding metadata, configuration, factories).

Everything declared here is an ASSUMPTION listed in the evidence files: these objects are modelled as
values of uninterpreted sorts whose fields are uninterpreted functions and whose methods are either
deterministic uninterpreted functions of their arguments (``pure``) or return fresh values.
"""
from pyvc.contracts import assume_method


def field(db, kind, name, sort):
    db.opaque_attrs[(kind, name)] = ("field", sort)


def declare(db):
    if getattr(db, "_collab_done", False):
        return
    db._collab_done = True
    # ParserConfig
    for f in ("fail_on_unknown_properties", "fail_on_unknown_attributes", "fail_on_converter_warnings", "load_dtd",
              "process_xinclude"):
        field(db, "ParserConfig", f, "bool")
    assume_method(db, "ParserConfig", "class_factory", returns="u:Any", raises=["TypeError"])
    field(db, "ParserConfig", "base_url", "str|None")
    # XmlVar
    for f in ("is_element", "list_element", "init", "is_wildcard", "is_attributes", "is_elements", "any_type", "mixed",
              "nillable", "tokens", "is_clazz_union", "is_text", "is_attribute"):
        field(db, "XmlVar", f, "bool")
    field(db, "XmlVar", "index", "int")
    field(db, "XmlVar", "name", "str")
    field(db, "XmlVar", "qname", "str")
    field(db, "XmlVar", "local_name", "str")
    field(db, "XmlVar", "wrapper_qname", "str|None")
    field(db, "XmlVar", "wrapper", "str|None")
    field(db, "XmlVar", "format", "str|None")
    field(db, "XmlVar", "default", "u:Any")
    field(db, "XmlVar", "types", "u:Types")
    field(db, "XmlVar", "tokens_factory", "u:Any")
    field(db, "XmlVar", "clazz", "u:type|None")
    field(db, "XmlVar", "factory", "u:Any")
    # XmlMeta
    field(db, "XmlMeta", "qname", "str")
    field(db, "XmlMeta", "clazz", "u:type")
    field(db, "XmlMeta", "nillable", "bool")
    field(db, "XmlMeta", "namespace", "str|None")
    field(db, "XmlMeta", "target_qname", "str|None")
    assume_method(db, "XmlMeta", "find_children", returns="seq[u:XmlVar]", pure=True)
    assume_method(db, "XmlMeta", "find_attribute", returns="u:XmlVar|None", pure=True)
    assume_method(db, "XmlMeta", "find_any_attributes", returns="u:XmlVar|None", pure=True)
    assume_method(db, "XmlMeta", "find_any_wildcard", returns="u:XmlVar|None", pure=True)
    assume_method(db, "XmlMeta", "get_all_vars", returns="seq[u:XmlVar]", pure=True)
    field(db, "type", "__qualname__", "str")
    field(db, "type", "__name__", "str")
    # opaque containers whose mutation is only recorded
    for kind in ("PyDict", "PyList"):
        for m in ("append", "extend", "insert", "clear", "pop", "update", "remove"):
            assume_method(db, kind, m, mutates=True, returns="u:Any" if m == "pop" else None)
    assume_method(db, "PyDict", "setdefault", returns="u:PyList", mutates=True)
    assume_method(db, "PyDict", "get", returns="u:Any|None")
    assume_method(db, "PyDict", "keys", returns="u:Keys", pure=True)
    db.opaque_isinst[("Any", "str")] = "uf"
    db.opaque_isinst[("Any", "float")] = "uf"
    db.opaque_isinst[("Any", "dict")] = "uf"
    db.opaque_isinst[("Any", "list")] = "uf"
    assume_method(db, "NodeQueue", "pop", returns="u:XmlNode", pure=True, mutates=True)  # balanced start/end events assumed
    assume_method(db, "XmlNode", "bind", returns="bool", pure=True, raises=["ParserError", "ConverterError", "XmlContextError"])
    field(db, "Types", "__len__", "int")
    db.opaque_isinst[("Any", "Callable")] = "uf"
    field(db, "XmlContext", "class_type", "u:ClassType")
    field(db, "ClassType", "derived_keys", "u:Any")
    field(db, "ClassType", "any_keys", "u:Any")
    field(db, "ClassType", "derived_element", "u:type")
    field(db, "ClassType", "any_element", "u:type")
    assume_method(db, "XmlContext", "build", returns="u:XmlMeta", pure=True, raises=["XmlContextError"])
    assume_method(db, "XmlContext", "fetch", returns="u:XmlMeta", pure=True, raises=["XmlContextError"])
    assume_method(db, "XmlContext", "find_type", returns="u:type|None", pure=True)
    assume_method(db, "ClassType", "is_model", returns="bool", pure=True)
