"""Run-time half of a replay script: call the real function, evaluate the violated clause."""
import ast
import copy
import importlib
import sys
import traceback


def _resolve(key):
    modname, qual = key.split(":")
    obj = importlib.import_module(modname)
    for part in qual.split("."):
        obj = getattr(obj, part)
    return obj


class _Rewrite(ast.NodeTransformer):
    """old(e) -> evaluation in the pre-state env; implies(a,b) -> lazy."""

    def visit_Call(self, node):
        self.generic_visit(node)
        if isinstance(node.func, ast.Name) and node.func.id == "old":
            return ast.Call(ast.Name("__old__", ast.Load()), [ast.Constant(ast.unparse(node.args[0]))], [])
        if isinstance(node.func, ast.Name) and node.func.id == "implies":
            return ast.BoolOp(ast.Or(), [ast.UnaryOp(ast.Not(), node.args[0]), node.args[1]])
        if isinstance(node.func, ast.Name) and node.func.id == "ite":
            return ast.IfExp(node.args[0], node.args[1], node.args[2])
        return node


def eval_clause(clause, env, old_env):
    import specs

    tree = _Rewrite().visit(ast.parse(clause.strip(), mode="eval"))
    ast.fix_missing_locations(tree)
    g = dict(vars(specs))
    g.update(env)
    g["__old__"] = lambda src: eval(compile(_Rewrite().visit(ast.parse(src, mode="eval")) and ast.fix_missing_locations(_Rewrite().visit(ast.parse(src, mode="eval"))) or ast.parse(src, mode="eval"), "<old>", "eval"), {**vars(specs), **old_env})
    return bool(eval(compile(tree, "<clause>", "eval"), g))


def _materialise(v):
    if isinstance(v, dict) and "__record__" in v:
        cls = _resolve(v["__record__"])
        return cls(**{k: _materialise(x) for k, x in v.items() if k != "__record__"})
    if isinstance(v, dict) and "__kwargs__" in v:
        return v
    if isinstance(v, dict) and "__obj__" in v:
        return v
    if isinstance(v, dict):
        return {k: _materialise(x) for k, x in v.items()}
    if isinstance(v, list):
        return [_materialise(x) for x in v]
    return v


def _seed_pool(obj):
    import specs

    def walk(x):
        if isinstance(x, str) and x not in specs._POOL["str"]:
            specs._POOL["str"].append(x)
        elif isinstance(x, bool):
            pass
        elif isinstance(x, int) and x not in specs._POOL["int"]:
            specs._POOL["int"].append(x)
        elif isinstance(x, dict):
            for k, v in x.items():
                walk(k)
                walk(v)
        elif isinstance(x, (list, tuple)):
            for v in x:
                walk(v)

    walk(obj)


def run(key, args, kind, clause, raises, ensures, RAISED=None, CUSTOM=None):
    try:
        return _run(key, args, kind, clause, raises, ensures, RAISED, CUSTOM)
    except BaseException:  # a replay that cannot be carried out is not a reproduction
        traceback.print_exc()
        print("REPLAY-ERROR")
        return 3


def _run(key, args, kind, clause, raises, ensures, RAISED=None, CUSTOM=None):
    if CUSTOM:
        mod = importlib.import_module(CUSTOM)
        return mod.run(key, args, kind, clause, raises, ensures, RAISED)
    fn = _resolve(key)
    call = {}
    kwargs = {}
    for k, v in args.items():
        if isinstance(v, dict) and "__kwargs__" in v:
            kwargs = {a: b for a, b in v["__kwargs__"].items() if b is not None or True}
        elif k in ("cls",):
            continue
        else:
            call[k] = _materialise(v)
    pre = copy.deepcopy(call)
    _seed_pool(call)
    print("call   :", key, call, kwargs)
    result, raised = None, None
    try:
        result = fn(**call, **kwargs)
        if hasattr(result, "__next__"):
            result = list(result)
    except BaseException as e:  # noqa
        raised = e
    print("result :", repr(result), "raised:", repr(raised))
    env = dict(call)
    env["result"] = result
    _seed_pool(result)
    _seed_pool(call)
    violated = False
    if raised is not None:
        allowed = None
        for name in raises:
            if any(c.__name__ == name for c in type(raised).__mro__):
                allowed = name
                break
        if allowed is None:
            print(f"VIOLATED: raised {type(raised).__name__}, allowed only {sorted(raises)}")
            violated = True
        elif raises[allowed] is not True:
            ok = eval_clause(raises[allowed], env, pre)
            if not ok:
                print(f"VIOLATED: raised {allowed} although its condition does not hold: {raises[allowed]}")
                violated = True
    else:
        for name, cl in ensures:
            try:
                ok = eval_clause(cl, env, pre)
            except Exception:
                traceback.print_exc()
                ok = True
            if not ok:
                print(f"VIOLATED: ensures {name}: {cl}")
                violated = True
    print("REPRODUCED" if violated else "NOT-REPRODUCED")
    return 1 if violated else 0


# ---------------------------------------------------------------------------------------------------------------
# witness search for contracts stated with ghost parameters
# ---------------------------------------------------------------------------------------------------------------
_STR_POOL = ["", "x", "7", "12", "-", "Z", ":", ".", "+", " ", "T", "0", "a:b", "١",
             # a few lexical forms of the XML Schema date / time types (valid and not)
             "--00", "---00", "--00-10", "--05-00", "--02-30", "--13", "---32", "--12-31Z", "2001", "-2001-05:00", "2001-13",
             "2001-02-30", "0000-01-01", "24:00:01", "12:60:00", "23:59:59.1234567891", "2001-01-01T24:00:00.1", " P1D ", "PT", "P"]
_WS_POOL = ["", " ", "\n", "\t ", " \r\n"]


def _sample_regex(rng, pat):
    """A random string of the language of a (simple) regular expression: literals, classes, ranges, \\d \\s \\w,
    groups, alternation, ? * + {m,n} (repetitions capped at 3).  None if the pattern uses anything else."""
    try:
        import re._parser as sp
        import re._constants as sc
    except ImportError:  # pragma: no cover
        import sre_parse as sp
        import sre_constants as sc

    def cls(items):
        pool, neg = [], False
        for op, av in items:
            if op is sc.NEGATE:
                neg = True
            elif op is sc.LITERAL:
                pool.append(chr(av))
            elif op is sc.RANGE:
                lo, hi = av
                pool += [chr(lo), chr(hi), chr(rng.randint(lo, hi))]
            elif op is sc.CATEGORY:
                pool += {sc.CATEGORY_DIGIT: list("059"), sc.CATEGORY_SPACE: list(" \t\n"), sc.CATEGORY_WORD: list("aZ_5")}.get(av, [])
            else:
                raise ValueError
        if neg:
            cands = [c for c in "aZ5 _-:.{}\n" if c not in pool]
            return rng.choice(cands) if cands else "\x7f"
        return rng.choice(pool)

    def seq(items):
        out = []
        for op, av in items:
            if op is sc.LITERAL:
                out.append(chr(av))
            elif op is sc.NOT_LITERAL:
                out.append(rng.choice([c for c in "aZ5 _-" if c != chr(av)]))
            elif op is sc.ANY:
                out.append(rng.choice("aZ5 _-:."))
            elif op is sc.IN:
                out.append(cls(av))
            elif op is sc.SUBPATTERN:
                out.append(seq(av[3]))
            elif op is sc.BRANCH:
                out.append(seq(rng.choice(av[1])))
            elif op in (sc.MAX_REPEAT, sc.MIN_REPEAT):
                lo, hi, sub = av
                hi = lo + 3 if hi is sc.MAXREPEAT or hi > lo + 3 else hi
                out.append("".join(seq(sub) for _ in range(rng.randint(lo, hi))))
            elif op is sc.AT:
                continue
            elif op is sc.CATEGORY:
                out.append(cls([(op, av)]))
            else:
                raise ValueError
        return "".join(out)

    try:
        return seq(sp.parse(pat.encode().decode("unicode_escape") if "\\" in pat else pat))
    except Exception:
        return None


def _bounds(requires, g):
    import re as _re

    lo = hi = None
    for r in requires:
        for m in _re.finditer(rf"(?<![\w.])(-?\d+) <= {g}(?![\w.])", r):
            lo = int(m.group(1)) if lo is None else max(lo, int(m.group(1)))
        for m in _re.finditer(rf"(?<![\w.]){g} <= (-?\d+)", r):
            hi = int(m.group(1)) if hi is None else min(hi, int(m.group(1)))
        for m in _re.finditer(rf"(?<![\w.]){g} < (-?\d+)", r):
            hi = int(m.group(1)) - 1 if hi is None else min(hi, int(m.group(1)) - 1)
    return lo, hi


class _Blank:
    pass


_NOSAMPLE = object()
_KEY_POOL = [None, "", "p", "q", "xml", "xmlns", "1a", "a:b", "ns0", "ns1"]
_URI_POOL = ["", "urn:a", "urn:b", "http://www.w3.org/XML/1998/namespace", "http://www.w3.org/2001/XMLSchema-instance"]


def _sample_sort(rng, spec):
    """A small random value of a parameter sort that no pre-condition defines (strings, ints, prefix maps)."""
    spec = spec.strip()
    if spec == "str":
        return rng.choice(_STR_POOL + _KEY_POOL[2:] + _URI_POOL)
    if spec == "str|None":
        return rng.choice([None] + _STR_POOL + _URI_POOL)
    if spec == "int":
        return rng.choice([0, 1, 2, -1, 7, 59, 60, 1000])
    if spec == "bool":
        return rng.random() < 0.5
    if spec in ("dict[str|None,str]", "dict[str,str]"):
        keys = [k for k in _KEY_POOL if k is not None] if spec == "dict[str,str]" else _KEY_POOL
        return {rng.choice(keys): rng.choice(_URI_POOL) for _ in range(rng.randint(0, 4))}
    return _NOSAMPLE


def search(key, requires, ghost, params, raises, ensures, tries=400, seed=0, first=None):
    """Sample the ghost parameters of a contract, derive the arguments from its defining pre-conditions
    (``<param> == <expression over ghosts>``), keep the samples that satisfy every pre-condition natively, call
    the real function and evaluate the contract.  Exit 1 + REPRODUCED on the first violating sample."""
    try:
        return _search(key, requires, ghost, params, raises, ensures, tries, seed, first)
    except BaseException:
        traceback.print_exc()
        print("REPLAY-ERROR")
        return 3


def _search(key, requires, ghost, params, raises, ensures, tries, seed, first):
    import random
    import re as _re

    import specs

    rng = random.Random(seed)
    fn_key = key.split("#")[0]
    modname, qual = fn_key.split(":")
    owner = _resolve(modname + ":" + qual.rsplit(".", 1)[0]) if "." in qual else None
    fn = _resolve(fn_key)
    satisfied = 0
    for trial in range(tries):
        env = {}
        for g, sort in ghost.items():
            if first and trial == 0 and g in first and not isinstance(first[g], dict):
                env[g] = first[g]
                continue
            if sort == "int":
                lo, hi = _bounds(requires, g)
                lo = -3 if lo is None else lo
                hi = (lo + 20) if hi is None else hi
                env[g] = rng.choice([lo, hi, min(lo + 1, hi), rng.randint(lo, hi), rng.randint(lo, hi)])
            elif sort == "str":
                pat = None
                for r in requires:
                    m = _re.search(rf"matches\({g}, '((?:[^'\\]|\\.)*)'\)", r)
                    if m:
                        pat = m.group(1)
                s = _sample_regex(rng, pat) if pat else None
                env[g] = s if s is not None else rng.choice(_STR_POOL)
            elif sort == "bool":
                env[g] = rng.random() < 0.5
            else:
                env[g] = None
        if first and trial == 0:
            for k, v in first.items():
                if k in params and k not in ghost and k != "self":
                    env[k] = _materialise(v)  # the solver's value for a parameter no pre-condition defines
        obj = None
        if "self" in params:
            obj = _Blank()
            env["self"] = obj
        # defining pre-conditions, in order: bind what is not bound yet (parameters, fields of self, ghost strings)
        g = dict(vars(specs))
        for _ in range(3):
            for r in requires:
                m = _re.fullmatch(r"\s*([A-Za-z_][\w.]*) == (.+)", r)
                if not m:
                    continue
                lhs, rhs = m.group(1), m.group(2)
                try:
                    val = eval(rhs, g, env)
                except Exception:
                    continue
                if lhs.startswith("self.") and obj is not None and lhs.count(".") == 1:
                    if not hasattr(obj, lhs[5:]):
                        setattr(obj, lhs[5:], val)
                elif "." not in lhs and (lhs in params and lhs not in env or (ghost.get(lhs) == "str" and trial % 2 == 0)):
                    env[lhs] = val
        for name, spec in params.items():
            if name not in env and not isinstance(spec, str):
                env[name] = spec  # a literal argument of the variant (digits=2, max_digits=9, ...)
            elif name not in env and isinstance(spec, str):
                v = _sample_sort(rng, spec)
                if v is not _NOSAMPLE:
                    env[name] = v
        try:
            ok = all(eval_clause(r, env, env) for r in requires)
        except Exception:
            ok = False
        if not ok:
            continue
        satisfied += 1
        call = {k: env[k] for k in params if k in env and k not in ("cls",)}
        if any(k not in env for k in params if k != "cls"):
            continue
        if obj is not None:
            real = owner.__new__(owner)
            for k2, v2 in vars(obj).items():
                try:
                    setattr(real, k2, v2)
                except Exception:
                    pass
            for k2 in ("fidx", "flen"):
                if not hasattr(real, k2):
                    setattr(real, k2, 0)
            if not hasattr(real, "format"):
                real.format = ""
            call["self"] = real
        pre = copy.deepcopy({**env, **call})
        result, raised = None, None
        try:
            result = fn(**call)
            if hasattr(result, "__next__"):
                result = list(result)
        except BaseException as e:  # noqa
            raised = e
        post = {**env, **call, "result": result}
        bad = None
        if raised is not None:
            allowed = next((n for n in raises if any(c.__name__ == n for c in type(raised).__mro__)), None)
            if allowed is None:
                bad = f"raised {type(raised).__name__}({raised}), allowed only {sorted(raises)}"
            elif raises[allowed] is not True and not eval_clause(raises[allowed], post, pre):
                bad = f"raised {allowed} although its condition does not hold: {raises[allowed]}"
        else:
            for name, cl in ensures:
                try:
                    if not eval_clause(cl, post, pre):
                        bad = f"ensures {name}: {cl}"
                        break
                except Exception:
                    continue
        if bad:
            shown = {k: (vars(v) if hasattr(v, "__dict__") and not isinstance(v, type) else v) for k, v in call.items()}
            print("witness:", key.split("#")[0], shown, "->", repr(result) if raised is None else f"raised {raised!r}")
            print("ghosts :", {k: env[k] for k in ghost})
            print("VIOLATED:", bad)
            print("REPRODUCED")
            return 1
    print(f"{satisfied} samples satisfied the pre-condition; none violates the contract")
    print("NOT-REPRODUCED")
    return 0
