"""Run-time half of a replay script: call the real function, evaluate the violated clause."""
import ast
import copy
import importlib
import sys
import traceback


def _resolve(key):
    modname, qual = key.split(":")
    obj = importlib.import_module(modname)
    for part in qual.split("."):
        obj = getattr(obj, part)
    return obj


class _Rewrite(ast.NodeTransformer):
    """old(e) -> evaluation in the pre-state env; implies(a,b) -> lazy."""

    def visit_Call(self, node):
        self.generic_visit(node)
        if isinstance(node.func, ast.Name) and node.func.id == "old":
            return ast.Call(ast.Name("__old__", ast.Load()), [ast.Constant(ast.unparse(node.args[0]))], [])
        if isinstance(node.func, ast.Name) and node.func.id == "implies":
            return ast.BoolOp(ast.Or(), [ast.UnaryOp(ast.Not(), node.args[0]), node.args[1]])
        if isinstance(node.func, ast.Name) and node.func.id == "ite":
            return ast.IfExp(node.args[0], node.args[1], node.args[2])
        return node


def eval_clause(clause, env, old_env):
    import specs

    tree = _Rewrite().visit(ast.parse(clause.strip(), mode="eval"))
    ast.fix_missing_locations(tree)
    g = dict(vars(specs))
    g.update(env)
    g["__old__"] = lambda src: eval(compile(_Rewrite().visit(ast.parse(src, mode="eval")) and ast.fix_missing_locations(_Rewrite().visit(ast.parse(src, mode="eval"))) or ast.parse(src, mode="eval"), "<old>", "eval"), {**vars(specs), **old_env})
    return bool(eval(compile(tree, "<clause>", "eval"), g))


def _materialise(v):
    if isinstance(v, dict) and "__record__" in v:
        cls = _resolve(v["__record__"])
        return cls(**{k: _materialise(x) for k, x in v.items() if k != "__record__"})
    if isinstance(v, dict) and "__kwargs__" in v:
        return v
    if isinstance(v, dict) and "__obj__" in v:
        return v
    if isinstance(v, dict):
        return {k: _materialise(x) for k, x in v.items()}
    if isinstance(v, list):
        return [_materialise(x) for x in v]
    return v


def _seed_pool(obj):
    import specs

    def walk(x):
        if isinstance(x, str) and x not in specs._POOL["str"]:
            specs._POOL["str"].append(x)
        elif isinstance(x, bool):
            pass
        elif isinstance(x, int) and x not in specs._POOL["int"]:
            specs._POOL["int"].append(x)
        elif isinstance(x, dict):
            for k, v in x.items():
                walk(k)
                walk(v)
        elif isinstance(x, (list, tuple)):
            for v in x:
                walk(v)

    walk(obj)


def run(key, args, kind, clause, raises, ensures, RAISED=None, CUSTOM=None):
    try:
        return _run(key, args, kind, clause, raises, ensures, RAISED, CUSTOM)
    except BaseException:  # a replay that cannot be carried out is not a reproduction
        traceback.print_exc()
        print("REPLAY-ERROR")
        return 3


def _run(key, args, kind, clause, raises, ensures, RAISED=None, CUSTOM=None):
    if CUSTOM:
        mod = importlib.import_module(CUSTOM)
        return mod.run(key, args, kind, clause, raises, ensures, RAISED)
    fn = _resolve(key)
    call = {}
    kwargs = {}
    for k, v in args.items():
        if isinstance(v, dict) and "__kwargs__" in v:
            kwargs = {a: b for a, b in v["__kwargs__"].items() if b is not None or True}
        elif k in ("cls",):
            continue
        else:
            call[k] = _materialise(v)
    pre = copy.deepcopy(call)
    _seed_pool(call)
    print("call   :", key, call, kwargs)
    result, raised = None, None
    try:
        result = fn(**call, **kwargs)
        if hasattr(result, "__next__"):
            result = list(result)
    except BaseException as e:  # noqa
        raised = e
    print("result :", repr(result), "raised:", repr(raised))
    env = dict(call)
    env["result"] = result
    _seed_pool(result)
    _seed_pool(call)
    violated = False
    if raised is not None:
        allowed = None
        for name in raises:
            if any(c.__name__ == name for c in type(raised).__mro__):
                allowed = name
                break
        if allowed is None:
            print(f"VIOLATED: raised {type(raised).__name__}, allowed only {sorted(raises)}")
            violated = True
        elif raises[allowed] is not True:
            ok = eval_clause(raises[allowed], env, pre)
            if not ok:
                print(f"VIOLATED: raised {allowed} although its condition does not hold: {raises[allowed]}")
                violated = True
    else:
        for name, cl in ensures:
            try:
                ok = eval_clause(cl, env, pre)
            except Exception:
                traceback.print_exc()
                ok = True
            if not ok:
                print(f"VIOLATED: ensures {name}: {cl}")
                violated = True
    print("REPRODUCED" if violated else "NOT-REPRODUCED")
    return 1 if violated else 0
