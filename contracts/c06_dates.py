from pyvc.contracts import Contract, Loop


def register(db):
    P = ["C06"]
    db.add(Contract(
        "xsdata.utils.dates:monthlen",
        params={"year": "int", "month": "int"},
        requires=["1 <= month and month <= 12"],
        ensures=[("is-dim", "result == dim(year, month)")],
        returns="int",
        properties=P,
    ))
    db.add(Contract(
        "xsdata.utils.dates:validate_date",
        params={"year": "int", "month": "int", "day": "int"},
        ensures=[("normal-implies-valid", "valid_date(year, month, day)")],
        raises={"ValueError": "not valid_date(year, month, day)"},
        properties=P + ["C15"],
    ))
    db.add(Contract(
        "xsdata.utils.dates:validate_time",
        params={"hour": "int", "minute": "int", "second": "int", "franctional_second": "int"},
        ensures=[("normal-implies-valid", "valid_time(hour, minute, second, franctional_second)")],
        raises={"ValueError": "not valid_time(hour, minute, second, franctional_second)"},
        properties=P + ["C15"],
    ))

    db.add(Contract(
        "xsdata.utils.dates:format_date",
        params={"year": "int", "month": "int", "day": "int"},
        requires=["valid_date(year, month, day)"],
        ensures=[("is-xsd-date-lexical", "result == lex_date(year, month, day)")],
        raises={},
        returns="str",
        properties=P,
    ))
    db.add(Contract(
        "xsdata.utils.dates:format_time",
        params={"hour": "int", "minute": "int", "second": "int", "fractional_second": "int"},
        requires=["valid_time(hour, minute, second, fractional_second)"],
        ensures=[("is-xsd-time-lexical", "is_lex_time(result, hour, minute, second, fractional_second)")],
        lemmas=["(fractional_second // 1000) // 1000 == fractional_second // 1000000"],
        raises={},
        returns="str",
        properties=P,
    ))
    db.add(Contract(
        "xsdata.utils.dates:format_offset",
        params={"offset": "int|None"},
        requires=["valid_offset(offset)"],
        ensures=[("is-xsd-timezone-lexical", "is_lex_tz(result, offset)")],
        raises={},
        returns="str",
        properties=P,
    ))
