"""Replay for NodeParser.parse#records-into-its-own-map (C14): the prefix map recorded by a parser that has
already parsed another document must equal the one a fresh parser records for the same document."""
from dataclasses import dataclass, field
from typing import Optional


def run(key, args, kind, clause, raises, ensures, RAISED):
    from xsdata.formats.dataclass.parsers import XmlParser
    from xsdata.formats.dataclass.parsers.handlers import XmlEventHandler

    @dataclass
    class A:
        x: Optional[str] = field(default=None, metadata={"type": "Attribute"})

    first = '<A xmlns:p="urn:one" x="1"/>'
    second = '<A xmlns:p="urn:two" xmlns:q="urn:q" x="1"/>'
    used = XmlParser(handler=XmlEventHandler)
    used.from_string(first, A)
    used.from_string(second, A)
    fresh = XmlParser(handler=XmlEventHandler)
    fresh.from_string(second, A)
    print("document        :", second)
    print("used parser map :", used.ns_map, "(after parsing", first, "before)")
    print("fresh parser map:", fresh.ns_map)
    if used.ns_map != fresh.ns_map:
        print("VIOLATED: the recorded prefix map depends on the documents parsed before")
        print("REPRODUCED")
        return 1
    print("NOT-REPRODUCED")
    return 0
