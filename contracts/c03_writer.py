from pyvc.contracts import Contract, Loop
from . import collab

EH = "xsdata.formats.dataclass.serializers.mixins:EventHandler"
NSMAP = "dict[str|None,str]"
ATTRS = "dict[tuple[str|None,str],str|None]"


def handler(depth, pending):
    """EventHandler whose namespace context has ``depth`` open scopes (only the top two are ever read).

    pending: None | 'unqualified' | 'qualified'"""
    def mk_(mk, base):
        maps = [mk.value(NSMAP, f"scope{i}") for i in range(depth)]
        for i, m in enumerate(maps):
            mk.exports[f"scope{i}"] = m  # ghost handles on the scope objects (identity survives old())
        ns_map = maps[-1] if maps else mk.value(NSMAP, "user_map")
        if pending is None:
            tag = None
        else:
            uri = None if pending == "unqualified" else mk.value("str", "tag_uri")
            tag = (uri, mk.value("str", "tag_local"))
            if pending == "qualified":
                import z3

                mk.assume(z3.Length(uri.t) > 0)
        o = mk.obj(EH, {"config": "opaque:SerializerConfig", "ns_map": ns_map, "in_tail": "bool", "tail": "str|None",
                        "attrs": ATTRS, "ns_context": mk.plist(maps), "pending_tag": tag,
                        "pending_prefixes": "opaque:PyList"})
        return o
    return mk_


FRAME = "forall('str|None', lambda k: implies(k in old(self.ns_map), k in self.ns_map and self.ns_map[k] == old(self.ns_map)[k]))"
BOUND = "exists('str|None', lambda k: k in self.ns_map and self.ns_map[k] == {u})"


def register(db):
    collab.declare(db)
    register_end_tag(db)
    register_start_namespaces(db)
    register_set_data(db)
    register_encode_data(db)
    register_set_data_tail(db)
    register_xsi_type_helpers(db)
    register_add_attribute(db)
    register_encode_primitive(db)
    P = ["C03"]
    # abstract SAX callbacks: their calls are recorded on the ghost trace
    for m in ("start_document", "end_document", "start_element", "end_element", "set_characters",
              "start_prefix_mapping", "end_prefix_mapping"):
        db.add(Contract(f"{EH}.{m}", trusted=True, params={}, raises={},
                        note="abstract method of the writer back end (XMLGenerator / lxml): call recorded, no effect on the handler"))

    # ------------------------------------------------------------------ add_namespace
    for depth in (0, 1):
        db.add(Contract(
            f"{EH}.add_namespace", variant=f"depth{depth}", call_default=(depth == 1),
            params={"self": handler(depth, None), "uri": "str|None"},
            ensures=[("namespace-gets-a-prefix", "implies(uri, " + BOUND.format(u="uri") + ")"),
                     ("existing-bindings-kept", FRAME),
                     ("nothing-for-no-namespace", "implies(not uri, same_dict(self.ns_map, old(self.ns_map)))")],
            raises={}, modifies=["self.ns_map"],
            properties=P,
        ))
    # ------------------------------------------------------------------ reset_default_namespace
    for depth in (1, 2):
        db.add(Contract(
            f"{EH}.reset_default_namespace", variant=f"unqualified-depth{depth}",
            params={"self": handler(depth, "unqualified")},
            ensures=[("unqualified-element-has-no-default-namespace-in-scope",
                      "implies(None in old(self.ns_map), self.ns_map[None] == '')"),
                     ("prefixed-bindings-kept", "forall('str|None', lambda k: implies(k is not None and k in old(self.ns_map), "
                                                "k in self.ns_map and self.ns_map[k] == old(self.ns_map)[k]))"),
                     ("no-new-bindings", "forall('str|None', lambda k: (k in self.ns_map) == (k in old(self.ns_map)))")],
            raises={}, modifies=["self.ns_map"],
            properties=P,
        ))
        db.add(Contract(
            f"{EH}.reset_default_namespace", variant=f"qualified-depth{depth}",
            params={"self": handler(depth, "qualified")},
            ensures=[("qualified-element-keeps-scope", "same_dict(self.ns_map, old(self.ns_map))")],
            raises={},
            properties=P,
        ))
    db.add(Contract(
        f"{EH}.reset_default_namespace", variant="call-view", trusted=True, call_default=True, params={}, raises={},
        modifies=["self.ns_map"],
        call_ensures=[
            "implies(self.pending_tag is not None and not self.pending_tag[0] and None in old(self.ns_map), None in self.ns_map and self.ns_map[None] == '')",
            "forall('str|None', lambda k: implies(k is not None and k in old(self.ns_map), k in self.ns_map and self.ns_map[k] == old(self.ns_map)[k]))",
            "forall('str|None', lambda k: (k in self.ns_map) == (k in old(self.ns_map)))",
            "implies(self.pending_tag is None or self.pending_tag[0], same_dict(self.ns_map, old(self.ns_map)))",
        ],
        note="call-site view = conjunction of the four verified variants (the function never reads ns_context, so depth is immaterial)",
    ))
    # ------------------------------------------------------------------ start_tag / end_tag
    db.add(Contract(f"{EH}.flush_start", variant="call-view", trusted=True, call_default=True, params={}, raises={},
                    modifies=["self.ns_map", "self.in_tail", "self.pending_tag"],
                    call_ensures=["self.pending_tag is None", FRAME,
                                  "implies(old(self.pending_tag) is None, same_dict(self.ns_map, old(self.ns_map)) and self.in_tail == old(self.in_tail))",
                                  "implies(old(self.pending_tag) is not None, self.in_tail == False)"],
                    note="call-site view of flush_start: the pending tag is emitted, existing bindings are kept"))
    db.add(Contract(f"{EH}.start_namespaces", variant="call-view", trusted=True, call_default=True, params={}, raises={},
                    note="assumed here: forwards the scope's new bindings to the back end (loop over the map)"))
    for depth in (0, 1):
        db.add(Contract(
            f"{EH}.start_tag", variant=f"depth{depth}",
            params={"self": handler(depth, None), "qname": "str"},
            requires=["len(qname) > 0"],
            ensures=[
                ("opens-a-scope", f"len(self.ns_context) == {depth + 1} and self.ns_map is self.ns_context[-1]"),
                ("child-scope-is-a-copy", "not (self.ns_map is old(self.ns_map))"),
                ("inherits-every-binding-in-scope",
                 "forall('str|None', lambda k: implies(k in old(self.ns_map), k in self.ns_map and self.ns_map[k] == old(self.ns_map)[k]))"),
                ("tag-is-pending", "self.pending_tag == clark_split(qname)"),
                ("enclosing-start-tag-flushed-as-non-empty", "called('EventHandler.flush_start') == 1 and call_arg('EventHandler.flush_start', 1) == False"),
                ("tag-namespace-has-a-prefix", "implies(clark_split(qname)[0] is not None, " + BOUND.format(u="clark_split(qname)[0]") + ")"),
            ] + ([("parent-scope-object-untouched-by-the-child", "same_dict(self.ns_context[-2], old(self.ns_context[-1]))")] if depth == 1 else []),
            raises={}, modifies=["self.ns_map", "self.pending_tag", "self.ns_context"],
            properties=P,
        ))
    # ------------------------------------------------------------------ flush_start
    # Namespaces in XML 1.0 section 6.2: the default namespace does not apply to attributes -> a non-empty prefix
    ATTR_NS_BOUND = ("forall('int', lambda j: implies(0 <= j and j < len(ATTRS_) and key_at(ATTRS_, j)[0], "
                     "exists('str', lambda k: k != '' and k in self.ns_map and self.ns_map[k] == key_at(ATTRS_, j)[0])))")
    for pend in ("qualified", "unqualified"):
        db.add(Contract(
            f"{EH}.flush_start", variant=f"pending-{pend}",
            params={"self": handler(1, pend), "is_nil": "bool"},
            requires=["implies(self.pending_tag[0] is not None, " + BOUND.format(u="self.pending_tag[0]") + ")"],
            ensures=[
                ("emits-the-element-once", "called('EventHandler.start_element') == 1"),
                ("declares-the-new-bindings-before-the-element", "called('EventHandler.start_namespaces') == 1"),
                ("element-namespace-has-a-prefix-in-scope",
                 "implies(old(self.pending_tag)[0] is not None, " + BOUND.format(u="old(self.pending_tag)[0]") + ")"),
                ("unqualified-element-has-no-default-namespace-in-scope",
                 "implies(old(self.pending_tag)[0] is None and None in self.ns_map, self.ns_map[None] == '')"),
                ("attribute-namespaces-have-prefixes-in-scope", ATTR_NS_BOUND.replace("ATTRS_", "call_arg('EventHandler.start_element', 3)")),
                ("prefixed-bindings-kept", "forall('str|None', lambda k: implies(k is not None and k in old(self.ns_map), "
                                           "k in self.ns_map and self.ns_map[k] == old(self.ns_map)[k]))"),
                ("nothing-left-pending", "self.pending_tag is None and len(self.attrs) == 0 and self.in_tail == False"),
                ("xsi-nil-only-on-empty-elements", "implies(not is_nil, not (XSI_NIL_KEY in call_arg('EventHandler.start_element', 3)))"
                 .replace("XSI_NIL_KEY", "('http://www.w3.org/2001/XMLSchema-instance', 'nil')")),
                ("xsi-nil-kept-on-empty-elements", "implies(is_nil and XSI_NIL_KEY in old(self.attrs), XSI_NIL_KEY in call_arg('EventHandler.start_element', 3))"
                 .replace("XSI_NIL_KEY", "('http://www.w3.org/2001/XMLSchema-instance', 'nil')")),
            ],
            raises={},
            loops=[Loop(invariants=[
                "forall('int', lambda j: implies(0 <= j and j < _i and key_at(self.attrs, j)[0], "
                "exists('str', lambda k: k != '' and k in self.ns_map and self.ns_map[k] == key_at(self.attrs, j)[0])))",
                "forall('str|None', lambda k: implies(k in old(self.ns_map), k in self.ns_map and self.ns_map[k] == old(self.ns_map)[k]))",
            ], header="self.attrs", modifies=["self.ns_map"])],
            modifies=["self.ns_map", "self.pending_tag", "self.attrs", "self.in_tail"],
            properties=P,
        ))
    db.add(Contract(
        f"{EH}.flush_start", variant="nothing-pending",
        params={"self": handler(1, None), "is_nil": "bool"},
        ensures=[("no-event", "called('EventHandler.start_element') == 0"), ("scope-untouched", "same_dict(self.ns_map, old(self.ns_map))")],
        raises={}, properties=P,
    ))

    db.add(Contract(
        f"{EH}.add_attribute_namespace",
        params={"self": handler(1, None), "uri": "str|None"},
        ensures=[("attribute-namespace-gets-a-non-empty-prefix",
                  "implies(uri, exists('str', lambda k: k != '' and k in self.ns_map and self.ns_map[k] == uri))"),
                 ("existing-bindings-kept", FRAME),
                 ("nothing-for-no-namespace", "implies(not uri, same_dict(self.ns_map, old(self.ns_map)))")],
        raises={}, modifies=["self.ns_map"],
        properties=P,
    ))


def register_start_namespaces(db):
    """start_namespaces: exactly the bindings of the current scope that the parent scope does not already have are
    declared to the back end (so every prefix in scope is either declared on this element or inherited, C03), and the
    prefixes declared here are remembered for end_tag."""
    P = ["C03"]
    DECL = ("called('EventHandler.start_prefix_mapping') == 1 and call_arg('EventHandler.start_prefix_mapping', 1) == prefix "
            "and call_arg('EventHandler.start_prefix_mapping', 2) == uri")
    for depth in (1, 2):
        parent = "scope0" if depth == 2 else None
        inherited = f"(prefix in {parent} and {parent}[prefix] == uri)" if parent else "False"
        db.add(Contract(
            f"{EH}.start_namespaces", variant=f"depth{depth}",
            params={"self": handler(depth, None)},
            ensures=[("the-declared-prefixes-are-remembered-for-the-end-tag", "called('PyList.append') == 1")],
            raises={},
            loops=[Loop(invariants=[], header="self.ns_map.items()", modifies=["prefixes"],
                        step=[("a-binding-the-parent-lacks-is-declared", f"implies(not {inherited}, {DECL})"),
                              ("an-inherited-binding-is-not-declared-again", f"implies({inherited}, called('EventHandler.start_prefix_mapping') == 0)")])],
            properties=P,
        ))


def register_set_data(db):
    """set_data: the content is encoded BEFORE the pending start tag is written - encoding a QName value allocates a
    prefix for its namespace in the element's scope, and only bindings present when the start tag is flushed get
    declared (C03: every prefix used is declared in scope); xsi:nil is kept exactly when there is no content."""
    P = ["C03"]
    db.add(Contract(f"{EH}.encode_data", variant="call-view", trusted=True, call_default=True, params={}, returns="str|None",
                    raises={"ConverterError": True}, modifies=["self.ns_map"],
                    call_ensures=["result == uf('encode_data', 'str|None', data)", FRAME],
                    note="call-site view: the text is a function of the data; encoding may ADD prefix bindings to the scope"))
    ENC = "uf('encode_data', 'str|None', data)"
    for pend in ("qualified", "unqualified"):
        db.add(Contract(
            f"{EH}.set_data", variant=f"pending-{pend}",
            params={"self": handler(1, pend), "data": "opaque:Any"},
            ensures=[
                ("content-is-encoded-before-the-start-tag-is-written", "called_before('EventHandler.encode_data', 'EventHandler.flush_start')"),
                ("xsi-nil-kept-exactly-when-there-is-no-content", f"call_arg('EventHandler.flush_start', 1) == ({ENC} is None)"),
                ("text-goes-out-as-element-content", f"implies({ENC} is not None and {ENC} != '', called('EventHandler.set_characters') == 1 and "
                                                     f"call_arg('EventHandler.set_characters', 1) == {ENC})"),
                ("further-data-is-tail-content", "self.in_tail == True"),
            ],
            raises={"ConverterError": True}, modifies=["self.ns_map", "self.in_tail", "self.tail", "self.pending_tag", "self.attrs"],
            properties=P,
        ))


def register_set_data_tail(db):
    """set_data after a child element was closed: the text is the *tail* of that child (written after its end tag), it
    must not be written as element content at this point."""
    ENC = "uf('encode_data', 'str|None', data)"
    db.add(Contract(
        f"{EH}.set_data", variant="tail-position",
        params={"self": handler(1, None), "data": "opaque:Any"},
        requires=["self.in_tail == True"],
        ensures=[("text-is-kept-as-the-tail", f"implies({ENC} is not None and {ENC} != '', self.tail == {ENC} and called('EventHandler.set_characters') == 0)"),
                 ("no-text-leaves-the-tail-as-it-was", f"implies({ENC} is None or {ENC} == '', self.tail == old(self.tail) and called('EventHandler.set_characters') == 0)"),
                 ("still-in-tail-position", "self.in_tail == True")],
        raises={"ConverterError": True}, modifies=["self.ns_map", "self.in_tail", "self.tail", "self.pending_tag", "self.attrs"],
        properties=["C03"],
    ))


def register_end_tag(db):
    """end_tag closes exactly the innermost scope: the element is ended once with the expanded name of its qname,
    the namespace context loses its top entry and the handler's current map is the parent's scope *object* again
    (siblings that follow are written in the parent's scope, with whatever the parent declared)."""
    P = ["C03"]
    for depth in (1, 2, 3):
        db.add(Contract(
            f"{EH}.end_tag", variant=f"depth{depth}",
            params={"self": handler(depth, None), "qname": "str"},
            requires=["len(qname) > 0"],
            ensures=[
                ("pending-start-tag-flushed-as-possibly-empty", "called('EventHandler.flush_start') == 1 and call_arg('EventHandler.flush_start', 1) == True"),
                ("ends-the-element-once", "called('EventHandler.end_element') == 1 and call_arg('EventHandler.end_element', 2) == qname "
                                          "and call_arg('EventHandler.end_element', 1) == clark_split(qname)"),
                ("scope-popped", f"len(self.ns_context) == {depth - 1}"),
                ("nothing-pending-no-tail", "self.pending_tag is None and self.tail is None and self.in_tail == False"),
                ("tail-text-written-after-the-end-tag", "implies(old(self.tail), called('EventHandler.set_characters') == 1 and "
                                                        "call_arg('EventHandler.set_characters', 1) == old(self.tail)) and "
                                                        "implies(not old(self.tail), called('EventHandler.set_characters') == 0)"),
            ] + ([("current-map-is-the-parent-scope-object", f"self.ns_map is self.ns_context[-1] and self.ns_map is scope{depth - 2}"),
                    ("parent-scope-content-untouched", f"same_dict(scope{depth - 2}, old(scope{depth - 2}))")]
                 if depth >= 2 else []),
            raises={}, modifies=["self.ns_map", "self.tail", "self.in_tail", "self.ns_context", "self.pending_tag", "self.attrs"],
            loops=[Loop(invariants=[], header="self.pending_prefixes.pop()",
                        step=[("every-prefix-declared-on-the-element-is-undeclared-at-its-end",
                               "called('EventHandler.end_prefix_mapping') == 1 and call_arg('EventHandler.end_prefix_mapping', 1) == prefix")])],
            properties=P,
        ))


def register_encode_data(db):
    """EventHandler.encode_data: text content is written as given, None and an empty token list are "no content" (the
    element is written as nil), and every other value is serialized by the converter *with the element's own in-scope
    prefix map* - so the prefix of a QName value is looked up (or allocated) in the scope the element declares."""
    CF = "xsdata.formats.converter:ConverterFactory"
    SER = "ConverterFactory.serialize"
    db.opaque_isinst[("Any", "str")] = "uf"
    db.opaque_isinst[("Any", "list")] = "uf"
    db.add(Contract(
        f"{EH}.encode_data", variant="non-text-value",
        params={"self": handler(2, None), "data": "opaque:Any"},
        requires=["not isinstance(data, str)", "not isinstance(data, list)"],
        ensures=[("serialized-once-with-the-element-own-scope",
                  f"called('{SER}') == 1 and call_arg('{SER}', 1) is data and call_kwarg('{SER}', 'ns_map') is self.ns_map"),
                 ("result-is-what-the-converter-wrote", f"result == call_result('{SER}')")],
        raises={"ConverterError": True}, returns="str|None", modifies=["self.ns_map"], properties=["C03"],
    ))
    db.add(Contract(
        f"{EH}.encode_data", variant="text-or-nothing",
        params={"self": handler(2, None), "data": "str|None"},
        ensures=[("kept-as-given", "result == data")], raises={}, returns="str|None", properties=["C03"],
    ))
    db.add(Contract(
        f"{EH}.encode_data", variant="empty-token-list",
        params={"self": handler(2, None), "data": lambda mk, base: mk.plist([])},
        ensures=[("no-content", "result is None")], raises={}, returns="str|None", properties=["C03"],
    ))


def register_xsi_type_helpers(db):
    """real_xsi_type / is_xsi_type: an xsi:type is written exactly when the type of the value differs from the type the
    field declares; an attribute value is treated as a type name (and gets a prefix instead of Clark notation) exactly
    when it is a Clark-notation string and either the attribute is xsi:type or the name is a schema datatype."""
    M = "xsdata.formats.dataclass.serializers.mixins"

    def cls_of(name):
        def mk_(mk, base):
            from pyvc.values import ClassRef
            return ClassRef(M, name)
        return mk_

    db.add(Contract(
        f"{M}:EventGenerator.real_xsi_type", params={"cls": cls_of("EventGenerator"), "qname": "str", "target_qname": "str|None"},
        ensures=[("no-xsi-type-when-the-value-has-the-declared-type", "implies(target_qname == qname, result is None)"),
                 ("otherwise-the-value-type", "implies(target_qname != qname, result == target_qname)")],
        raises={}, returns="str|None", properties=["C03"],
    ))
    XSI_TYPE = "{http://www.w3.org/2001/XMLSchema-instance}type"
    db.add(Contract(
        f"{M}:EventHandler.is_xsi_type", params={"cls": cls_of("EventHandler"), "qname": "str", "value": "str"},
        ensures=[("a-type-name-is-a-clark-string-on-xsi-type-or-a-schema-datatype-name",
                  f"result == (value[0:1] == '{{' and (qname == '{XSI_TYPE}' or uf('DataType.from_qname', 'u:DataType|None', value) is not None))")],
        raises={}, returns="bool", properties=["C03"], inline_calls=True,
    ))


def register_add_attribute(db):
    """EventHandler.add_attribute: the value is encoded once (encode_data: QName values get their prefix in the
    element's scope) and stored under the attribute's (namespace, local name); outside the root, an attribute without a
    pending start tag is the writer's own error."""
    XSI_TYPE = "{http://www.w3.org/2001/XMLSchema-instance}type"
    ENC = "EventHandler.encode_data"
    for pend in ("qualified", None):
        db.add(Contract(
            f"{EH}.add_attribute", variant="pending-tag" if pend else "no-pending-tag",
            params={"self": handler(1, pend), "qname": "str", "value": "int", "root": "bool"},
            requires=["len(qname) > 0"],
            ensures=[("encoded-once-and-stored-under-the-split-name",
                      f"called('{ENC}') == 1 and call_arg('{ENC}', 1) == value and clark_split(qname) in self.attrs and "
                      f"self.attrs[clark_split(qname)] == call_result('{ENC}')")],
            raises=({} if pend else {"XmlWriterError": "not root"}) | {"ConverterError": True},
            modifies=["self.attrs", "self.ns_map"], properties=["C03"],
            note="stated for a non-string value (a string that is an xsi:type name is turned into a QName first)",
        ))


def register_encode_primitive(db):
    """EventGenerator.encode_primitive: strings and QNames go to the writer as they are (a QName gets its prefix there,
    per element), an enum member is encoded as its value, any other simple value is serialized by the converter with the
    field's format."""
    M = "xsdata.formats.dataclass.serializers.mixins"

    def gen_cls(mk, base):
        from pyvc.values import ClassRef
        return ClassRef(M, "EventGenerator")

    EP, SER = "EventGenerator.encode_primitive", "ConverterFactory.serialize"
    db.add(Contract(f"{M}:{EP}", variant="call-view", trusted=True, call_default=True, params={}, returns="u:Any",
                    raises={"ConverterError": True}, note="call-site view of the recursive call"))
    for k in ("str", "QName", "tuple", "list", "set", "frozenset", "Enum", "Generator"):
        db.opaque_isinst.setdefault(("Any", k), "uf")
    db.add(Contract(
        f"{M}:{EP}", variant="text", params={"cls": gen_cls, "value": "str", "var": "opaque:XmlVar"},
        ensures=[("kept-as-given", "result == value")], raises={}, properties=["C03"],
    ))
    db.add(Contract(
        f"{M}:{EP}", variant="enum-member", params={"cls": gen_cls, "value": "opaque:EnumValue", "var": "opaque:XmlVar"},
        requires=["not uf('isinstance_EnumValue_str', 'bool', value)", "not uf('isinstance_EnumValue_QName', 'bool', value)"],
        ensures=[("encoded-as-its-value", f"called('{EP}') == 1 and call_arg('{EP}', 1) == value.value and call_arg('{EP}', 2) is var and result is call_result('{EP}')")],
        raises={"ConverterError": True}, properties=["C03"],
    ))
    db.add(Contract(
        f"{M}:{EP}", variant="other-simple-value", params={"cls": gen_cls, "value": "opaque:Any", "var": "opaque:XmlVar"},
        requires=["not uf('isinstance_Any_%s', 'bool', value)" % k for k in ("str", "QName", "tuple", "list", "set", "frozenset", "Enum", "Generator")],
        ensures=[("serialized-once-with-the-field-format",
                  f"called('{SER}') == 1 and call_arg('{SER}', 1) is value and call_kwarg('{SER}', 'format') == var.format and result == call_result('{SER}')")],
        raises={"ConverterError": True}, properties=["C03"],
    ))
