"""Specification functions, written from the standards the properties cite (not from the code).

One definition, two renderings: this file is (a) inlined symbolically by pyvc when a contract
clause mentions a function defined here, and (b) imported as ordinary Python by replay scripts.
Keep every function loop-free and within the pyvc subset.
"""
import datetime  # spec clauses name datetime.timezone.utc


# ---------------------------------------------------------------------------------------------
# XSD 1.1 Part 2, proleptic Gregorian calendar (section 3.3.7-3.3.9, appendix E)
# ---------------------------------------------------------------------------------------------


def leap(y):
    return y % 4 == 0 and (y % 100 != 0 or y % 400 == 0)


def dim(y, m):
    """Days in month m of year y (m in 1..12)."""
    if m == 2:
        return 29 if leap(y) else 28
    if m == 4 or m == 6 or m == 9 or m == 11:
        return 30
    return 31


def valid_date(y, m, d):
    return 1 <= m and m <= 12 and 1 <= d and d <= dim(y, m)


def valid_time(h, mi, s, ns):
    return (
        0 <= h and h <= 24 and 0 <= mi and mi <= 59 and 0 <= s and s <= 59
        and 0 <= ns and ns <= 999999999
        and (h != 24 or (mi == 0 and s == 0 and ns == 0))
    )


def valid_offset(off):
    """Timezone offset in minutes, None when absent: -14:00 .. +14:00."""
    return off is None or (-840 <= off and off <= 840)


# ---------------------------------------------------------------------------------------------
# primitives with a direct SMT rendering in pyvc (the Python bodies are used by replay scripts)
# ---------------------------------------------------------------------------------------------
def pad(n, w):
    """format(n, '0{w}d'): decimal numeral of n >= 0 left-padded with zeros to w digits."""
    return format(n, "0%dd" % w)


def matches(s, pattern):
    import re

    return re.fullmatch(pattern, s, re.ASCII) is not None


def nat(s):
    """Value of an ASCII decimal numeral, -1 if s is not one."""
    return int(s) if (s.isascii() and s.isdigit()) else -1


def implies(a, b):
    return (not a) or b


def ite(c, a, b):
    return a if c else b


# ---------------------------------------------------------------------------------------------
# XSD lexical mappings (Part 2, 3.3.7-3.3.14 and appendix D.3 / E.3): a valid lexical form is
# lex(components) for components satisfying the side conditions.
# ---------------------------------------------------------------------------------------------
def lex_year(y):
    """yearFrag: '-'? (([1-9] digit digit digit+)) | ('0' digit digit digit)): at least four digits."""
    if y < 0:
        return "-" + pad(-y, 4)
    return pad(y, 4)


def lex_date(y, m, d):
    return lex_year(y) + "-" + pad(m, 2) + "-" + pad(d, 2)


def lex_tz_canon(off):
    """Canonical timezoneFrag: '' | 'Z' | ('+'|'-') hh ':' mm."""
    if off is None:
        return ""
    if off == 0:
        return "Z"
    if off < 0:
        return "-" + pad((-off) // 60, 2) + ":" + pad((-off) % 60, 2)
    return "+" + pad(off // 60, 2) + ":" + pad(off % 60, 2)


def is_lex_tz(s, off):
    """s is *a* valid timezoneFrag denoting off (alternative spellings +00:00 / -00:00 for zero)."""
    if off is None:
        return s == ""
    if off == 0:
        return s == "Z" or s == "+00:00" or s == "-00:00"
    return s == lex_tz_canon(off)


def lex_hms(h, mi, s):
    return pad(h, 2) + ":" + pad(mi, 2) + ":" + pad(s, 2)


def is_lex_time(t, h, mi, s, ns):
    """t is a valid time lexical form (without timezone) denoting h:mi:s + ns nanoseconds.

    secondFrag = digit digit ('.' digit+)?  -- any 1..9 fraction digits whose value is exact."""
    base = lex_hms(h, mi, s)
    if ns == 0 and t == base:
        return True
    return (
        (ns % 100000000 == 0 and t == base + "." + pad(ns // 100000000, 1))
        or (ns % 10000000 == 0 and t == base + "." + pad(ns // 10000000, 2))
        or (ns % 1000000 == 0 and t == base + "." + pad(ns // 1000000, 3))
        or (ns % 100000 == 0 and t == base + "." + pad(ns // 100000, 4))
        or (ns % 10000 == 0 and t == base + "." + pad(ns // 10000, 5))
        or (ns % 1000 == 0 and t == base + "." + pad(ns // 1000, 6))
        or (ns % 100 == 0 and t == base + "." + pad(ns // 100, 7))
        or (ns % 10 == 0 and t == base + "." + pad(ns // 10, 8))
        or t == base + "." + pad(ns, 9)
    )


def key_at(d, j):
    """j-th key of a dict in insertion order."""
    return list(d.keys())[j]


def val_at(d, j):
    return list(d.values())[j]


def same_dict(a, b):
    return list(a.items()) == list(b.items())


# ---------------------------------------------------------------------------------------------
# Namespaces in XML 1.0 (third edition) sections 3-6, Clark notation "{uri}local" for expanded names
# ---------------------------------------------------------------------------------------------
XML_NS = "http://www.w3.org/XML/1998/namespace"
XMLNS_NS = "http://www.w3.org/2000/xmlns/"


def clark_split(q):
    """Expanded name in Clark notation -> (uri | None, local)."""
    if q.startswith("{"):
        i = q.find("}")
        if i > 1 and i < len(q) - 1:
            return (q[1:i], q[i + 1:])
    return (None, q)


def clark_build(uri, local):
    return "{" + uri + "}" + local


def legal_decl(prefix, uri):
    """A namespace declaration xmlns:prefix="uri" / xmlns="uri" is allowed (NS 1.0 section 3).

    prefix None/"" is the default namespace.  The NCName-ness of the prefix is checked separately."""
    if prefix is None or prefix == "":
        return uri != XML_NS and uri != XMLNS_NS
    if prefix == "xmlns":
        return False
    if prefix == "xml":
        return uri == XML_NS
    return uri != "" and uri != XML_NS and uri != XMLNS_NS


# quantifiers: symbolic in pyvc; in replay scripts they range over a finite pool taken from the call
_POOL = {"int": list(range(-2, 24)), "str": ["", "a", "ns0", "ns1", "xs", "xml", "xmlns"]}


def _domain(sort):
    if sort == "int":
        return _POOL["int"]
    if sort == "str":
        return _POOL["str"]
    if sort in ("str|None", "opt[str]"):
        return [None] + _POOL["str"]
    if sort == "bool":
        return [False, True]
    raise ValueError("replay: no finite pool for sort %r" % (sort,))


def forall(sort, f):
    import itertools

    n = f.__code__.co_argcount
    doms = [_domain(s) for s in (sort if isinstance(sort, list) else [sort] * n)]
    return all(f(*xs) for xs in itertools.product(*doms))


def exists(sort, f):
    import itertools

    n = f.__code__.co_argcount
    doms = [_domain(s) for s in (sort if isinstance(sort, list) else [sort] * n)]
    return any(f(*xs) for xs in itertools.product(*doms))


_PY_WS = "\t\n\x0b\x0c\r\x1c\x1d\x1e\x1f \x85\xa0                　"


def py_strip(s):
    return s.strip()


def strip_unique(s, a, r, b):
    """If s = a + r + b with a, b whitespace-only and r non-empty without whitespace at its ends,
    then s.strip() == r.  (Trusted fact about str.strip; replay scripts re-check the instance.)"""
    pre = (s == a + r + b and all(c in _PY_WS for c in a) and all(c in _PY_WS for c in b)
           and len(r) > 0 and r[0] not in _PY_WS and r[-1] not in _PY_WS)
    return (not pre) or s.strip() == r


def strip_padded(s, w1, ws_pattern, w2, *tokens):
    import re

    vals = list(tokens[0::2])
    pats = list(tokens[1::2])
    pre = s == w1 + "".join(vals) + w2 and re.fullmatch(ws_pattern, w1) and re.fullmatch(ws_pattern, w2)
    for v, p in zip(vals, pats):
        pre = pre and (p is None or re.fullmatch(p, v) is not None)
    return (not pre) or s.strip() == "".join(vals)


def int_of_signed(c, sg, d):
    pre = c == sg + d and sg in ("", "+", "-") and d.isascii() and d.isdigit()
    if not pre:
        return True
    return int(c) == (-int(d) if sg == "-" else int(d))


def py_isalpha(c):
    return c.isalpha()


def py_isdigit(c):
    return c.isdigit()


# Namespaces in XML 1.0: NCName ::= Name - (Char* ':' Char*), Name ::= NameStartChar (NameChar)*.
# Letters / digits outside ASCII are taken as Python's str.isalpha / str.isdigit report them (stated
# approximation of the XML 1.0 character classes).
def ncname_start_char(c):
    return py_isalpha(c) or c == "_"


def ncname_char(c):
    return py_isalpha(c) or py_isdigit(c) or c == "." or c == "-" or c == "_" or c == "·" or c == "·"


def is_ncname_spec(name):
    return (
        name is not None and len(name) > 0 and ncname_start_char(name[0])
        and forall("int", lambda j: implies(1 <= j and j < len(name), ncname_char(name[j])))
    )


# ---------------------------------------------------------------------------------------------
# ghost-level builtins (only meaningful symbolically; replay scripts never evaluate them)
# ---------------------------------------------------------------------------------------------
def uf(name, sort, *args):
    raise NotImplementedError("uf() is a symbolic-only builtin")


def unmodified(obj):
    raise NotImplementedError("unmodified() is a symbolic-only builtin")


def called(name):
    raise NotImplementedError("called() is a symbolic-only builtin")


def call_arg(name, i):
    raise NotImplementedError("call_arg() is a symbolic-only builtin")


def pos_of(d, k):
    return list(d.keys()).index(k)


def strip_blank(s):
    return (not all(c in _PY_WS for c in s)) or s.strip() == ""


def index_at(a, pattern, sep, b):
    import re

    s = a + sep + b
    pre = re.fullmatch(pattern, a) is not None
    return (not pre) or (s.find(sep) == len(a) and s.partition(sep) == (a, sep, b))


# ---------------------------------------------------------------------------------------------
# XSD 1.1 Part 2, appendix E.3.4 timeOnTimeline (seconds since 0001-01-01T00:00:00, proleptic
# Gregorian, year 0 = 1 BCE), here in integer nanoseconds; a missing timezone counts as UTC.
# ---------------------------------------------------------------------------------------------
def days_in_months_before(y, m):
    return (ite(m > 1, 31, 0) + ite(m > 2, dim(y, 2), 0) + ite(m > 3, 31, 0) + ite(m > 4, 30, 0)
            + ite(m > 5, 31, 0) + ite(m > 6, 30, 0) + ite(m > 7, 31, 0) + ite(m > 8, 31, 0)
            + ite(m > 9, 30, 0) + ite(m > 10, 31, 0) + ite(m > 11, 30, 0))


def time_on_timeline(y, m, d, h, mi, s, ns, off):
    yr = y - 1
    tz = ite(off is None, 0, off)
    secs = (31536000 * yr + 86400 * (yr // 400 - yr // 100 + yr // 4) + 86400 * days_in_months_before(y, m)
            + 86400 * (d - 1) + 3600 * h + 60 * mi + s - 60 * tz)
    return secs * 1000000000 + ns


def time_of_day_on_timeline(h, mi, s, ns, off):
    tz = ite(off is None, 0, off)
    return (3600 * h + 60 * mi + s - 60 * tz) * 1000000000 + ns


# ---------------------------------------------------------------------------------------------
# XSD wildcard namespace constraint as xsdata documents it (docs/models/fields.md, NamespaceType):
# "##any" admits everything, "" (##local) only unqualified names, "!ns" (##other) everything but ns,
# a literal namespace only that namespace.
# ---------------------------------------------------------------------------------------------
def wildcard_admits(check, uri):
    if check == "##any":
        return True
    if check == "":
        return uri is None
    if check[0] == "!":
        return uri is None or uri != check[1:]
    return uri is not None and uri == check


def some(x):
    return x


def call_kwarg(name, key):
    raise NotImplementedError("call_kwarg() is a symbolic-only builtin")


SOAP_HTTP_TRANSPORT = "http://schemas.xmlsoap.org/soap/http"  # WSDL 1.1 SOAP binding, section 3.3


def loops_exhausted():
    raise NotImplementedError("loops_exhausted() is a symbolic-only builtin")


def ascii_lower(c):
    """Lower-case image of an ASCII capital letter."""
    return chr(ord(c) + 32)


def py_repr(x):
    """repr(x): for str/float/int the Python literal that evaluates back to x (language guarantee)."""
    return repr(x)


_INT_WS = "".join(c for c in _PY_WS if not ("\x1c" <= c <= "\x1f"))


def py_int_strip(s):
    """The text int() looks at after skipping its whitespace (no U+001C..U+001F, unlike str.strip)."""
    return s.strip(_INT_WS)


def int_padded(s, w1, ws_pattern, w2, *tokens):
    import re

    vals = list(tokens[0::2])
    pats = list(tokens[1::2])
    pre = s == w1 + "".join(vals) + w2 and re.fullmatch(ws_pattern, w1) and re.fullmatch(ws_pattern, w2)
    for v, p in zip(vals, pats):
        pre = pre and (p is None or re.fullmatch(p, v) is not None)
    return (not pre) or py_int_strip(s) == "".join(vals)


def excludes(v, pattern, ch):
    import re

    return re.fullmatch(pattern, v) is None or ch not in v


def strip_core(s, w1, ws_pattern, w2, core):
    import re

    pre = (s == w1 + core + w2 and re.fullmatch(ws_pattern, w1) is not None and re.fullmatch(ws_pattern, w2) is not None
           and core.strip() == core and len(core) > 0)
    return (not pre) or s.strip() == core


def cut_at(a, sep, b):
    s = a + sep + b
    return (sep in a) or (s.find(sep) == len(a) and s[:len(a)] == a and s[len(a) + 1:] == b)


def int_of_digits(d):
    return not (d.isascii() and d.isdigit()) or int(d) == nat(d)


def substr_at(s, a, tok, b):
    return s != a + tok + b or (s[len(a):len(a) + len(tok)] == tok and len(s) == len(a) + len(tok) + len(b))


def py_int(s):
    return int(s)


def py_int_ok(s):
    try:
        int(s)
        return True
    except ValueError:
        return False


def nat_shift(d, z):
    return not (d.isascii() and d.isdigit()) or int(d + "0" * z) == int(d) * 10 ** z


def char_at(s, a, c, b):
    return s != a + c + b or len(c) != 1 or s[len(a)] == c


def head_of(a, rest):
    return len(a) == 0 or (a + rest)[0] == a[0]


def leading_zeros(d, n):
    if not (d.isascii() and d.isdigit() and len(d) == n):
        return True
    r = d.lstrip("0")
    return int(d) == (int(r) if r else 0) and int(d) < 10 ** len(r)


def digits_only(d, ch):
    return not (d.isascii() and d.isdigit()) or (ch not in d and d.find(ch) == -1 and d.rfind(ch) == -1)


def digit_chars(d, n):
    return not (d.isascii() and d.isdigit() and len(d) == n) or (all(c in "0123456789" for c in d) and "".join(d[i:i + 1] for i in range(n)) == d)


def chars_at(s, a, tok, n, b):
    return not (s == a + tok + b and len(tok) == n) or all(s[len(a) + i] == tok[i] for i in range(n))


def split_first(s):
    return s == s[0:1] + s[1:] and len(s[0:1]) <= 1


def last_of(pre, a):
    return not a or (pre + a)[-1] == a[-1]


def strip_noop(c):
    return not (len(c) > 0 and not c[0].isspace() and not c[-1].isspace()) or c.strip() == c


def find_in(ch, *pieces):
    off, expected = 0, -1
    for p in pieces:
        i = p.find(ch)
        if i >= 0:
            expected = off + i
            break
        off += len(p)
    return "".join(pieces).find(ch) == expected


def rfind_in(ch, *pieces):
    off, expected = 0, -1
    for p in pieces:
        i = p.rfind(ch)
        if i >= 0:
            expected = off + i
        off += len(p)
    return "".join(pieces).rfind(ch) == expected


def char_of_slice(s, lo, n, j):
    return len(s) < lo + n or s[lo:lo + n][j] == s[lo + j]


def digit_at(d, i):
    return not (d.isascii() and d.isdigit() and 0 <= i < len(d)) or (d[i] in "0123456789" and d[i].isdigit())


def char_in_token(s, a, tok, b, i):
    return not (s == a + tok + b and 0 <= i < len(tok)) or s[len(a) + i] == tok[i]


def lstrip_noop(d, ch):
    return d[0:1] == ch or d.lstrip(ch) == d


def call_kwarg_names(name):
    raise NotImplementedError("call_kwarg_names() is a symbolic-only builtin")


def comp_filter_element():
    raise NotImplementedError("comp_filter_element() is a symbolic-only builtin")


def comp_filter_condition():
    raise NotImplementedError("comp_filter_condition() is a symbolic-only builtin")


def comp_filter_count():
    raise NotImplementedError("comp_filter_count() is a symbolic-only builtin")


def returned(name):
    raise NotImplementedError("returned() is a symbolic-only builtin")


def yielded():
    raise NotImplementedError("yielded() is a symbolic-only builtin")


def call_recv(name):
    raise NotImplementedError("call_recv() is a symbolic-only builtin")


def call_result(name, nth=None):
    """ghost trace: what the single recorded call of that function under contract returned (engine builtin)"""
    raise NotImplementedError


def called_before(a, b):
    raise NotImplementedError("called_before() is a symbolic-only builtin")


# ---------------------------------------------------------------------------------------------
# WSDL 1.1 section 2.3.1: a message part refers to an element or a type by a QName (prefix:local)
# ---------------------------------------------------------------------------------------------
def ref_prefix(v):
    """Prefix of a lexical QName reference, None when there is none."""
    i = v.find(":")
    if i >= 0 and i + 1 < len(v):
        return v[:i]
    return None


def ref_local(v):
    """Local part of a lexical QName reference."""
    i = v.find(":")
    if i >= 0 and i + 1 < len(v):
        return v[i + 1:]
    if i >= 0:
        return v[:i]
    return v
