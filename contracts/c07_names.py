from pyvc.contracts import Contract, Loop, assume_method
from . import collab

T = "xsdata.utils.text"
CU = "xsdata.codegen.utils:ClassUtils"
FL = "xsdata.formats.dataclass.filters:Filters"


def one_char(mk, base):
    from pyvc.values import SV
    import z3
    from pyvc.values import fresh_name

    t = z3.String(fresh_name(base))
    mk.assume(z3.Length(t) == 1)
    return SV("str", t, char=True)


def register(db):
    collab.declare(db)
    P = ["C07"]
    register_rename_by_preference(db)
    register_safe_name(db)
    register_escape_string(db)
    db.add(Contract(
        f"{T}:classify", params={"character": one_char},
        ensures=[("upper", "(result == 1) == ('A' <= character and character <= 'Z')"),
                 ("lower", "(result == 2) == ('a' <= character and character <= 'z')"),
                 ("numeric", "(result == 3) == ('0' <= character and character <= '9')"),
                 ("other-otherwise", "result == 1 or result == 2 or result == 3 or result == 4")],
        raises={}, returns="int", properties=P,
    ))
    db.add(Contract(
        f"{T}:alnum", variant="single-character", params={"value": one_char},
        ensures=[("ascii-letters-and-digits-only-lowercased",
                  "result == ite(('a' <= value and value <= 'z') or ('0' <= value and value <= '9'), value, "
                  "ite('A' <= value and value <= 'Z', ascii_lower(value), ''))")],
        raises={}, returns="str", properties=P,
        note="one character at a time; alnum distributes over concatenation (filter/join/lower are character-wise)",
    ))
    db.add(Contract(f"{T}:alnum", variant="call-view", trusted=True, call_default=True, params={}, returns="str", raises={},
                    call_ensures=["result == uf('alnum', 'str', value)"],
                    note="call-site view: the slug is a function of the name"))
    # ------------------------------------------------------------------ unique names
    db.add(Contract(
        f"{CU}.unique_name", params={"name": "str", "reserved": "set[str]"},
        ensures=[("slug-not-reserved", "uf('alnum', 'str', result) not in reserved"),
                 ("kept-when-free", "implies(uf('alnum', 'str', name) not in reserved, result == name)"),
                 ("reserved-set-untouched", "forall('str', lambda k: (k in reserved) == (k in old(reserved)))")],
        raises={}, returns="str",
        loops=[Loop(invariants=["index >= 1"], header="text.alnum(f'{name}_{index}') in reserved")],
        properties=P,
        note="partial correctness: termination of the index search relies on the reserved set being finite (not proved)",
    ))


def register_rename_by_preference(db):
    """ClassUtils.rename_attribute_by_preference: of two fields with the same slug exactly one is renamed - when both
    come from the same kind of node and one has a namespace, that one (preferably the second) gets its cleaned namespace
    as a prefix; otherwise the attribute field (else the first) gets its node kind as a suffix.  The other field keeps
    its name."""
    from pyvc.contracts import Contract
    CU = "xsdata.codegen.utils:ClassUtils"
    db.inline.add("xsdata.codegen.models:Attr.is_attribute")
    db.add(Contract("xsdata.utils.namespaces:clean_uri", variant="call-view", trusted=True, call_default=True, params={}, returns="str",
                    raises={}, call_ensures=["result == uf('clean_uri', 'str', namespace)"],
                    note="call-site view: the cleaned namespace is a function of the namespace"))

    def cls_utils(mk, base):
        from pyvc.values import ClassRef
        return ClassRef("xsdata.codegen.utils", "ClassUtils")

    def attr(mk, base):
        return mk.obj("xsdata.codegen.models:Attr", {"name": "str", "tag": "str", "namespace": "str|None"})

    HAS = "({x}.namespace is not None and len({x}.namespace) > 0)"
    SAME_KIND_NS = f"(a.tag == b.tag and ({HAS.format(x='a')} or {HAS.format(x='b')}))"
    IS_ATTR_B = "(b.tag == 'Attribute' or b.tag == 'AnyAttribute')"
    db.add(Contract(
        f"{CU}.rename_attribute_by_preference", params={"cls": cls_utils, "a": attr, "b": attr},
        requires=["a is not b"],
        ensures=[("exactly-one-field-is-renamed-the-other-keeps-its-name",
                  "(a.name == old(a.name) and len(b.name) > len(old(b.name))) or (b.name == old(b.name) and len(a.name) > len(old(a.name)))"),
                 ("namespace-prefix-goes-to-the-field-that-has-one-preferably-the-second",
                  f"implies({SAME_KIND_NS}, ite({HAS.format(x='b')}, b.name == uf('clean_uri', 'str', b.namespace) + '_' + old(b.name), "
                  f"a.name == uf('clean_uri', 'str', a.namespace) + '_' + old(a.name)))"),
                 ("otherwise-the-attribute-field-else-the-first-gets-its-node-kind-as-suffix",
                  f"implies(not {SAME_KIND_NS}, ite({IS_ATTR_B}, b.name == old(b.name) + '_' + b.tag, a.name == old(a.name) + '_' + a.tag))")],
        raises={}, modifies=["a.name", "b.name"], properties=["C07"],
    ))


def register_safe_name(db):
    """Filters.safe_name: whatever the input name (empty, numeric, punctuation only, a Python keyword ...), what comes
    out is `name_case` of some name and is *not* a reserved word - by induction over the recursive calls (each recursive
    call is checked against this very contract; termination is not proved)."""
    from pyvc import builtins_calls as bc
    from pyvc.contracts import Contract, assume_method, pure_result
    from pyvc.values import BuiltinRef

    def is_reserved(ex, st, args, kwargs):
        yield st, pure_result(ex, st, "is_reserved", "bool", [args[0]])

    bc.FUNCS["xsdata.text.is_reserved"] = is_reserved
    db.const_overrides[("xsdata.utils.text", "is_reserved")] = BuiltinRef("xsdata.text.is_reserved")
    assume_method(db, "NameCase", "__call__", returns="str", pure=True)
    F = "xsdata.formats.dataclass.filters:Filters"

    def filters(mk, base):
        return mk.obj(F, {"relative_imports": "bool"})

    db.add(Contract(
        f"{F}.safe_name", params={"self": filters, "name": "str", "prefix": "str", "name_case": "opaque:NameCase"},
        kwargs={"known": {}, "open": False},
        ensures=[("never-a-reserved-word", "not uf('is_reserved', 'bool', result)"),
                 ("a-usable-name-is-only-put-through-the-naming-convention",
                  "implies(len(name) > 0 and matches(name, '[\\x00-\\x7f]*') and not matches(name, '-[0-9]*\\.?[0-9]+\\n?') and len(uf('alnum', 'str', name)) > 0 and "
                  "py_isalpha(uf('alnum', 'str', name)[0]) and not uf('is_reserved', 'bool', uf('NameCase.__call__', 'str', name_case, name)), "
                  "result == uf('NameCase.__call__', 'str', name_case, name))")],
        raises={}, returns="str", properties=["C07"], call_default=True,
        note="assumed: text.is_reserved (membership in the stop-word set) is a function of the string; name_case is an "
             "arbitrary function str -> str; the pass-through clause is stated for ASCII names (the engine reads \\d as [0-9], "
             "Python also matches other Unicode decimal digits)",
    ))


def register_escape_string(db):
    """text.escape_string (string literals of generated modules), one character at a time: a backslash, a double quote and
    every control character is replaced by its entry of the escape table; every other character is emitted as it is."""
    import z3
    from pyvc.contracts import Contract, pure_result
    from pyvc.values import Opaque, z3sort
    db.const_overrides[("xsdata.utils.text", "ESCAPE_DCT")] = Opaque("EscapeTable", z3.Const("text_ESCAPE_DCT", z3sort(("u", "EscapeTable"))))
    db.opaque_ops[("EscapeTable", "getitem")] = lambda ex, st, v, key: iter([(st, pure_result(ex, st, "ESCAPE_DCT", "str", [key]))])
    SPECIAL = "value == chr(92) or value == chr(34) or value < ' '"
    db.add(Contract(
        f"{T}:escape_string", variant="single-character", params={"value": "str"},
        requires=["len(value) == 1"],
        ensures=[("backslash-quote-and-control-characters-are-replaced-by-their-table-entry",
                  f"implies({SPECIAL}, result == uf('ESCAPE_DCT', 'str', value))"),
                 ("every-other-character-is-kept", f"implies(not ({SPECIAL}), result == value)")],
        raises={}, returns="str", properties=["C07"],
        note="the table ESCAPE_DCT (built by a module-level loop) is an abstract str -> str map; re.sub over a longer text "
             "is character-wise (trusted fact about a character-class pattern)",
    ))
