from pyvc.contracts import Contract, Loop, assume_method
from . import collab

T = "xsdata.utils.text"
CU = "xsdata.codegen.utils:ClassUtils"
FL = "xsdata.formats.dataclass.filters:Filters"


def one_char(mk, base):
    from pyvc.values import SV
    import z3
    from pyvc.values import fresh_name

    t = z3.String(fresh_name(base))
    mk.assume(z3.Length(t) == 1)
    return SV("str", t, char=True)


def register(db):
    collab.declare(db)
    P = ["C07"]
    db.add(Contract(
        f"{T}:classify", params={"character": one_char},
        ensures=[("upper", "(result == 1) == ('A' <= character and character <= 'Z')"),
                 ("lower", "(result == 2) == ('a' <= character and character <= 'z')"),
                 ("numeric", "(result == 3) == ('0' <= character and character <= '9')"),
                 ("other-otherwise", "result == 1 or result == 2 or result == 3 or result == 4")],
        raises={}, returns="int", properties=P,
    ))
    db.add(Contract(
        f"{T}:alnum", variant="single-character", params={"value": one_char},
        ensures=[("ascii-letters-and-digits-only-lowercased",
                  "result == ite(('a' <= value and value <= 'z') or ('0' <= value and value <= '9'), value, "
                  "ite('A' <= value and value <= 'Z', ascii_lower(value), ''))")],
        raises={}, returns="str", properties=P,
        note="one character at a time; alnum distributes over concatenation (filter/join/lower are character-wise)",
    ))
    db.add(Contract(f"{T}:alnum", variant="call-view", trusted=True, call_default=True, params={}, returns="str", raises={},
                    call_ensures=["result == uf('alnum', 'str', value)"],
                    note="call-site view: the slug is a function of the name"))
    # ------------------------------------------------------------------ unique names
    db.add(Contract(
        f"{CU}.unique_name", params={"name": "str", "reserved": "set[str]"},
        ensures=[("slug-not-reserved", "uf('alnum', 'str', result) not in reserved"),
                 ("kept-when-free", "implies(uf('alnum', 'str', name) not in reserved, result == name)"),
                 ("reserved-set-untouched", "forall('str', lambda k: (k in reserved) == (k in old(reserved)))")],
        raises={}, returns="str",
        loops=[Loop(invariants=["index >= 1"], header="text.alnum(f'{name}_{index}') in reserved")],
        properties=P,
        note="partial correctness: termination of the index search relies on the reserved set being finite (not proved)",
    ))
