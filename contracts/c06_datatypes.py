from pyvc.contracts import Contract, Loop
from . import collab

D = "xsdata.utils.dates"
DT = "xsdata.models.datatype"
P = "xsdata.utils.dates:DateTimeParser"


def parser(mk, base):
    o = mk.obj(P, {"format": "str", "value": "str", "vlen": "int", "flen": "int", "vidx": "int", "fidx": "int"})
    return o


WF = ["self.vlen == len(self.value)", "self.vidx >= 0"]
KEEP = [("value-untouched", "self.value == old(self.value) and self.vlen == old(self.vlen)"),
        ("format-position-untouched", "self.fidx == old(self.fidx) and self.format == old(self.format) and self.flen == old(self.flen)")]


def register(db):
    PR = ["C06", "C15"]
    # ---------------------------------------------------------------- scanner leaves (native strings):
    # exception-escape, cursor movement and termination; acceptance/components are in c_scanners.py
    for m in ("__init__", "has_more", "peek", "next_format_char", "parse_var", "parse"):
        db.inline.add(f"{P}.{m}")
    db.inline.add(f"{D}:parse_date_args")
    db.add(Contract(
        f"{P}.skip", params={"self": parser, "char": "str"}, requires=WF + ["len(char) == 1"],
        ensures=[("advances-one", "self.vidx == old(self.vidx) + 1"),
                 ("matched", "self.value[old(self.vidx):old(self.vidx) + 1] == char")] + KEEP,
        raises={"ValueError": "self.value[old(self.vidx):old(self.vidx) + 1] != char"},
        modifies=["self.vidx"], properties=PR,
    ))
    db.add(Contract(
        f"{P}.parse_digits", params={"self": parser, "digits": "int"}, requires=WF + ["digits >= 0"],
        ensures=[("advances", "self.vidx == old(self.vidx) + digits"),
                 ("value-of-the-slice", "result == py_int(self.value[old(self.vidx):old(self.vidx) + digits])"),
                 ("slice-is-a-numeral", "py_int_ok(self.value[old(self.vidx):old(self.vidx) + digits])")] + KEEP,
        raises={"ValueError": "not py_int_ok(self.value[old(self.vidx):old(self.vidx) + digits])"}, returns="int", modifies=["self.vidx"], properties=PR,
    ))
    db.add(Contract(
        f"{P}.parse_minimum_digits", params={"self": parser, "min_digits": "int"}, requires=WF + ["min_digits >= 0"],
        ensures=[("advances-at-least", "self.vidx >= old(self.vidx) + min_digits")] + KEEP,
        raises={"ValueError": True}, returns="int", modifies=["self.vidx"],
        loops=[Loop(invariants=["self.vidx >= start + min_digits", "self.vlen == len(self.value)", "self.vidx >= 0"],
                    decreases="self.vlen - self.vidx", header="self.has_more() and self.peek().isdigit()")],
        properties=PR,
    ))
    db.add(Contract(
        f"{P}.parse_fixed_digits", params={"self": parser, "max_digits": 9}, requires=WF,
        ensures=[("never-moves-back", "self.vidx >= old(self.vidx)")] + KEEP,
        raises={"ValueError": True}, returns="int", modifies=["self.vidx"],
        loops=[Loop(invariants=["max_digits >= 0", "self.vidx >= start", "self.vlen == len(self.value)", "self.vidx >= 0"],
                    decreases="max_digits", header="max_digits and self.has_more() and self.peek().isdigit()")],
        properties=PR,
    ))
    db.add(Contract(
        f"{P}.parse_year", params={"self": parser}, requires=WF,
        ensures=[("never-moves-back", "self.vidx >= old(self.vidx)")] + KEEP,
        raises={"ValueError": True, "IndexError": "old(self.vidx) >= self.vlen"}, returns="int", modifies=["self.vidx"],
        properties=PR,
    ))
    db.add(Contract(
        f"{P}.parse_fractional_second", params={"self": parser}, requires=WF,
        ensures=[("never-moves-back", "self.vidx >= old(self.vidx)")] + KEEP,
        raises={"ValueError": True}, returns="int", modifies=["self.vidx"], properties=PR,
    ))
    db.add(Contract(
        f"{P}.parse_offset", params={"self": parser}, requires=WF,
        ensures=[("never-moves-back", "self.vidx >= old(self.vidx)"),
                 ("absent-only-at-end", "implies(result is None, old(self.vidx) >= self.vlen)")] + KEEP,
        raises={"ValueError": True}, returns="int|None", modifies=["self.vidx"], properties=PR,
    ))

    register_acceptance(db)
    register_acceptance_2(db)
    register_acceptance_3(db)
    register_acceptance_4(db)
    register_acceptance_5(db)
    register_acceptance_6(db)
    register_long_years(db)
    register_from_string_acceptance(db)
    register_period_acceptance(db)
    register_period_rejection(db)
    register_stdlib_conversions(db)
    register_from_stdlib(db)
    FROM = [
        ("XmlDate", ["valid_date(result.year, result.month, result.day)"]),
        ("XmlTime", ["valid_time(result.hour, result.minute, result.second, result.fractional_second)"]),
        ("XmlDateTime", ["valid_date(result.year, result.month, result.day)",
                         "valid_time(result.hour, result.minute, result.second, result.fractional_second)"]),
    ]
    for cls, ens in FROM:
        db.add(Contract(
            f"{DT}:{cls}.from_string",
            params={"string": "str"},
            ensures=[(f"denotes-real-{'calendar-date' if 'date' in e else 'time-of-day'}", e) for e in ens],
            raises={"ValueError": True},
            properties=PR,
            note="generator parse() executed eagerly (consumer unpacks immediately)",
        ))

    # ---------------------------------------------------------------- timeline order and equality
    for m in ("_cmp",):
        db.inline.add(f"{DT}:{m}")

    def xml_time(mk, base):
        o = mk.obj(f"{DT}:XmlTime", {"hour": "int", "minute": "int", "second": "int", "fractional_second": "int", "offset": "int|None"})
        mk.st.deref(o).structural = True
        mk.st.deref(o).tuple_fields = ["hour", "minute", "second", "fractional_second", "offset"]
        return o

    def xml_datetime(mk, base):
        o = mk.obj(f"{DT}:XmlDateTime", {"year": "int", "month": "int", "day": "int", "hour": "int", "minute": "int",
                                        "second": "int", "fractional_second": "int", "offset": "int|None"})
        mk.st.deref(o).structural = True
        mk.st.deref(o).tuple_fields = ["year", "month", "day", "hour", "minute", "second", "fractional_second", "offset"]
        return o

    T_SELF = "time_of_day_on_timeline(self.hour, self.minute, self.second, self.fractional_second, self.offset)"
    T_OTHER = "time_of_day_on_timeline(other.hour, other.minute, other.second, other.fractional_second, other.offset)"
    D_SELF = "time_on_timeline(self.year, self.month, self.day, self.hour, self.minute, self.second, self.fractional_second, self.offset)"
    D_OTHER = "time_on_timeline(other.year, other.month, other.day, other.hour, other.minute, other.second, other.fractional_second, other.offset)"
    OPS = {"__eq__": "==", "__ne__": "!=", "__lt__": "<", "__le__": "<=", "__gt__": ">", "__ge__": ">="}
    db.add(Contract(
        f"{DT}:XmlTime.instant", params={"self": xml_time},
        ensures=[("is-time-on-timeline", f"result == {T_SELF}")], raises={}, returns="int", properties=["C06"],
    ))
    db.add(Contract(
        f"{DT}:XmlDateTime.instant", params={"self": xml_datetime},
        requires=["1 <= self.month and self.month <= 12"],
        ensures=[("is-time-on-timeline-up-to-epoch", f"result == {D_SELF} + 86400000000000")], raises={}, returns="int",
        properties=["C06"],
    ))
    db.add(Contract(f"{DT}:_days_before_year", params={"year": "int"},
                    ensures=[("gregorian-day-count", "result == 365 * (year - 1) + (year - 1) // 4 - (year - 1) // 100 + (year - 1) // 400")],
                    raises={}, returns="int", properties=["C06"]))
    for name, sym in OPS.items():
        db.add(Contract(
            f"{DT}:XmlTime.{name}", params={"self": xml_time, "other": xml_time},
            ensures=[("agrees-with-timeline", f"result == ({T_SELF} {sym} {T_OTHER})")], raises={}, properties=["C06"],
        ))
        db.add(Contract(
            f"{DT}:XmlDateTime.{name}", params={"self": xml_datetime, "other": xml_datetime},
            requires=["1 <= self.month and self.month <= 12", "1 <= other.month and other.month <= 12"],
            ensures=[("agrees-with-timeline", f"result == ({D_SELF} {sym} {D_OTHER})")], raises={}, properties=["C06"],
        ))


def register_acceptance(db):
    """Acceptance direction of the scanner leaves: on an input whose next token is the XSD lexical form of a
    component, the leaf consumes exactly that token and returns the component."""
    PR = ["C06"]
    HERE = ["self.value == head + tok + rest", "self.vidx == len(head)"] + WF
    db.add(Contract(
        f"{P}.parse_digits", variant="accepts-two-digits",
        params={"self": parser, "digits": 2},
        ghost={"head": "str", "tok": "str", "rest": "str", "k": "int"},
        requires=["0 <= k", "k <= 99"] + HERE + ["tok == pad(k, 2)"],
        hints=["substr_at(self.value, head, tok, rest)", "int_of_digits(tok)"],
        ensures=[("component-value", "result == k"), ("consumes-the-token", "self.vidx == len(head) + 2")] + KEEP,
        raises={}, returns="int", modifies=["self.vidx"], properties=PR,
    ))
    db.add(Contract(
        f"{P}.skip", variant="accepts-the-separator",
        params={"self": parser, "char": "str"},
        ghost={"head": "str", "rest": "str"},
        requires=["self.value == head + char + rest", "self.vidx == len(head)", "len(char) == 1"] + WF,
        hints=["substr_at(self.value, head, char, rest)"],
        ensures=[("consumes-the-separator", "self.vidx == len(head) + 1")] + KEEP,
        raises={}, modifies=["self.vidx"], properties=PR,
    ))


def register_acceptance_2(db):
    PR = ["C06"]
    HERE = ["self.vidx == len(head)"] + WF
    # ---------------------------------------------------------------- timezone
    db.add(Contract(
        f"{P}.parse_offset", variant="accepts-no-timezone",
        params={"self": parser}, requires=WF + ["self.vidx == self.vlen"],
        ensures=[("absent", "result is None"), ("cursor-stays", "self.vidx == old(self.vidx)")] + KEEP,
        raises={}, returns="int|None", modifies=["self.vidx"], properties=PR,
    ))
    db.add(Contract(
        f"{P}.parse_offset", variant="accepts-Z",
        params={"self": parser}, ghost={"head": "str", "rest": "str"},
        requires=HERE + ["self.value == head + 'Z' + rest"],
        hints=["substr_at(self.value, head, 'Z', rest)"],
        ensures=[("utc", "result == 0"), ("consumes-the-token", "self.vidx == len(head) + 1")] + KEEP,
        raises={}, returns="int|None", modifies=["self.vidx"], properties=PR,
    ))
    for name, sign, factor in (("plus", "+", 1), ("minus", "-", -1)):
        db.add(Contract(
            f"{P}.parse_offset", variant=f"accepts-{name}-hh-mm",
            params={"self": parser}, ghost={"head": "str", "rest": "str", "hh": "int", "mm": "int"},
            requires=["0 <= hh", "hh <= 99", "0 <= mm", "mm <= 99"] + HERE + [f"self.value == head + '{sign}' + pad(hh, 2) + ':' + pad(mm, 2) + rest"],
            hints=[f"substr_at(self.value, head, '{sign}', pad(hh, 2) + ':' + pad(mm, 2) + rest)",
                   f"substr_at(self.value, head + '{sign}', pad(hh, 2), ':' + pad(mm, 2) + rest)",
                   f"substr_at(self.value, head + '{sign}' + pad(hh, 2), ':', pad(mm, 2) + rest)",
                   f"substr_at(self.value, head + '{sign}' + pad(hh, 2) + ':', pad(mm, 2), rest)",
                   "int_of_digits(pad(hh, 2))", "int_of_digits(pad(mm, 2))"],
            ensures=[("offset-in-minutes", f"result == {factor} * (60 * hh + mm)"),
                     ("consumes-the-token", "self.vidx == len(head) + 6")] + KEEP,
            raises={}, returns="int|None", modifies=["self.vidx"], properties=PR,
        ))


def register_acceptance_3(db):
    """Years (four digits, optional sign) and fractional seconds (1..9 digits)."""
    PR = ["C06"]
    HERE = ["self.vidx == len(head)"] + WF
    # what follows the digits is the end or an ASCII character that is not a digit (the XSD grammar continues
    # with '-', ':', 'T', 'Z', '+', '.'); python's isdigit() also accepts non-ASCII digits
    NOT_DIGIT = "(len(rest) == 0 or rest[0:1] < '0' or ('9' < rest[0:1] and rest[0:1] <= '\x7f'))"
    db.add(Contract(
        f"{P}.parse_minimum_digits", variant="accepts-four-digits",
        params={"self": parser, "min_digits": 4},
        ghost={"head": "str", "rest": "str", "k": "int"},
        requires=["0 <= k", "k <= 9999"] + HERE + ["self.value == head + pad(k, 4) + rest", NOT_DIGIT],
        hints=["substr_at(self.value, head, pad(k, 4), rest)", "int_of_digits(pad(k, 4))", "substr_at(self.value, head + pad(k, 4), rest[0:1], rest[1:])",
               "split_first(rest)"],
        ensures=[("component-value", "result == k"), ("consumes-exactly-the-digits", "self.vidx == len(head) + 4")] + KEEP,
        raises={}, returns="int", modifies=["self.vidx"],
        loops=[Loop(invariants=["self.vidx == start + 4", "self.vlen == len(self.value)", "start == len(head)"],
                    decreases="self.vlen - self.vidx", header="self.has_more() and self.peek().isdigit()")],
        properties=PR,
    ))


def register_acceptance_4(db):
    PR = ["C06"]
    HERE = ["self.vidx == len(head)"] + WF
    NOT_DIGIT = "(len(rest) == 0 or rest[0:1] < '0' or ('9' < rest[0:1] and rest[0:1] <= '\\x7f'))"
    PMD = f"{P}.parse_minimum_digits"
    db.add(Contract(
        f"{P}.parse_year", variant="accepts-four-digit-year",
        params={"self": parser}, ghost={"head": "str", "rest": "str", "k": "int"},
        requires=["0 <= k", "k <= 9999"] + HERE + ["self.value == head + pad(k, 4) + rest", NOT_DIGIT],
        hints=["substr_at(self.value, head, pad(k, 4), rest)", "head_of(pad(k, 4), rest)", "digits_only(pad(k, 4), '-')",
               "leading_zeros(pad(k, 4), 4)", "char_at(self.value, head, pad(k, 4)[0:1], pad(k, 4)[1:] + rest)",
               "split_first(pad(k, 4))"],
        call_variants={PMD: [("accepts-four-digits", {"head": "head", "rest": "rest", "k": "k"})]},
        ensures=[("component-value", "result == k"), ("consumes-exactly-the-year", "self.vidx == len(head) + 4")] + KEEP,
        raises={}, returns="int", modifies=["self.vidx"], properties=PR,
    ))
    db.add(Contract(
        f"{P}.parse_year", variant="accepts-negative-four-digit-year",
        params={"self": parser}, ghost={"head": "str", "rest": "str", "k": "int"},
        requires=["0 <= k", "k <= 9999"] + HERE + ["self.value == head + '-' + pad(k, 4) + rest", NOT_DIGIT],
        hints=["substr_at(self.value, head, '-', pad(k, 4) + rest)", "substr_at(self.value, head + '-', pad(k, 4), rest)",
               "leading_zeros(pad(k, 4), 4)"],
        call_variants={PMD: [("accepts-four-digits", {"head": "head + '-'", "rest": "rest", "k": "k"})]},
        ensures=[("component-value", "result == -k"), ("consumes-exactly-the-year", "self.vidx == len(head) + 5")] + KEEP,
        raises={}, returns="int", modifies=["self.vidx"], properties=PR,
    ))


def register_acceptance_5(db):
    """Fractional seconds: '.' followed by 1..9 digits (then the end or a non-digit) is accepted with the value
    scaled to nanoseconds; no '.' means 0.  The digit loop is unrolled: max_digits is the literal 9 and is
    decremented on every iteration, so every path leaves through the concrete guard (complete)."""
    PR = ["C06"]
    HERE = ["self.vidx == len(head)"] + WF
    NOT_DIGIT = "(len(rest) == 0 or rest[0:1] < '0' or ('9' < rest[0:1] and rest[0:1] <= '\\x7f'))"
    PFD = f"{P}.parse_fixed_digits"
    for n in range(1, 10):
        tok = f"pad(k, {n})"
        chars = [f"chars_at(self.value, head, {tok}, {n}, rest)"]
        db.add(Contract(
            PFD, variant=f"accepts-{n}-digits",
            params={"self": parser, "max_digits": 9}, ghost={"head": "str", "rest": "str", "k": "int"},
            requires=["0 <= k", f"k < {10 ** n}"] + HERE + [f"self.value == head + {tok} + rest"] + ([NOT_DIGIT] if n < 9 else []),
            hints=[f"substr_at(self.value, head, {tok}, rest)", f"digit_chars({tok}, {n})", f"nat_shift({tok}, {9 - n})",
                   f"int_of_digits({tok} + '{'0' * (9 - n)}')",
                   f"substr_at(self.value, head + {tok}, rest[0:1], rest[1:])", "split_first(rest)"] + chars,
            ensures=[("nanoseconds", f"result == k * {10 ** (9 - n)}"), ("consumes-exactly-the-digits", f"self.vidx == len(head) + {n}")] + KEEP,
            raises={}, returns="int", modifies=["self.vidx"],
            loops=[Loop(unroll=True, header="max_digits and self.has_more() and self.peek().isdigit()")],
            properties=PR,
        ))


def register_acceptance_6(db):
    """parse_fractional_second: no '.' -> 0 and the cursor stays; '.' + 1..9 digits -> nanoseconds."""
    PR = ["C06"]
    HERE = ["self.vidx == len(head)"] + WF
    NOT_DIGIT = "(len(rest) == 0 or rest[0:1] < '0' or ('9' < rest[0:1] and rest[0:1] <= '\\x7f'))"
    PFS = f"{P}.parse_fractional_second"
    PFD = f"{P}.parse_fixed_digits"
    db.add(Contract(
        PFS, variant="accepts-no-fraction",
        params={"self": parser}, ghost={"head": "str", "rest": "str"},
        requires=HERE + ["self.value == head + rest", "rest[0:1] != '.'"],
        hints=["substr_at(self.value, head, rest[0:1], rest[1:])", "split_first(rest)"],
        ensures=[("no-fraction-is-zero", "result == 0"), ("cursor-stays", "self.vidx == old(self.vidx)")] + KEEP,
        raises={}, returns="int", modifies=["self.vidx"], properties=PR,
    ))
    for n in range(1, 10):
        tok = f"pad(k, {n})"
        db.add(Contract(
            PFS, variant=f"accepts-{n}-digits",
            params={"self": parser}, ghost={"head": "str", "rest": "str", "k": "int"},
            requires=["0 <= k", f"k < {10 ** n}"] + HERE + [f"self.value == head + '.' + {tok} + rest"] + ([NOT_DIGIT] if n < 9 else []),
            hints=[f"substr_at(self.value, head, '.', {tok} + rest)"],
            call_variants={PFD: [(f"accepts-{n}-digits", {"head": "head + '.'", "rest": "rest", "k": "k"})]},
            ensures=[("nanoseconds", f"result == k * {10 ** (9 - n)}"), ("consumes-the-fraction", f"self.vidx == len(head) + {n + 1}")] + KEEP,
            raises={}, returns="int", modifies=["self.vidx"], properties=PR,
        ))


# ---------------------------------------------------------------------------------------------------------------
# from_string: every XSD lexical form is accepted with the components XSD assigns
# ---------------------------------------------------------------------------------------------------------------
WS = "[ \\t\\n\\r]*"
TZ = {
    # name: (pieces, ghosts, post-condition on result.offset, parse_offset variant, extra ghost bindings)
    "no-timezone": ([], [], "result.offset is None", "accepts-no-timezone", {}),
    "utc": (["'Z'"], [], "result.offset == 0", "accepts-Z", {}),
    "plus-offset": (["'+'", "pad(hh, 2)", "':'", "pad(mm, 2)"], ["hh", "mm"], "result.offset == 60 * hh + mm", "accepts-plus-hh-mm", {"hh": "hh", "mm": "mm"}),
    "minus-offset": (["'-'", "pad(hh, 2)", "':'", "pad(mm, 2)"], ["hh", "mm"], "result.offset == -(60 * hh + mm)", "accepts-minus-hh-mm", {"hh": "hh", "mm": "mm"}),
}


def _cat(pieces):
    return " + ".join(pieces) if pieces else "''"


def lexical_form(tokens):
    """tokens: list of (kind, ...) describing one lexical shape.  Returns what a from_string acceptance contract
    needs: the core expression, ghosts, ranges, the call plan for the scanner leaves, digit tokens at both ends."""
    groups = []  # (token, [pieces])
    for tok in tokens:
        kind = tok[0]
        if kind == "d2":
            groups.append((tok, [f"pad({tok[1]}, 2)"]))
        elif kind == "sep":
            groups.append((tok, [repr(tok[1])]))
        elif kind == "year":
            groups.append((tok, (["'-'"] if tok[1].startswith("negative") else []) + ["yd" if tok[1].endswith("long") else "pad(Y, 4)"]))
        elif kind == "frac":
            groups.append((tok, ["'.'", f"pad(k, {tok[1]})"] if tok[1] else []))
        elif kind == "tz":
            groups.append((tok, list(TZ[tok[1]][0])))
    flat = [p for _, ps in groups for p in ps]
    ghost, ranges, plan = {}, [], {}
    PD, SK, PFS, PO, PY = (f"{P}.parse_digits", f"{P}.skip", f"{P}.parse_fractional_second", f"{P}.parse_offset", f"{P}.parse_year")
    pos = 0
    for tok, ps in groups:
        head, rest = _cat(flat[:pos]), _cat(flat[pos + len(ps):])
        kind = tok[0]
        if kind == "d2":
            ghost[tok[1]] = "int"
            plan.setdefault(PD, []).append(("accepts-two-digits", {"head": head, "tok": ps[0], "rest": rest, "k": tok[1]}))
        elif kind == "sep":
            plan.setdefault(SK, []).append(("accepts-the-separator", {"head": head, "rest": rest}))
        elif kind == "year" and tok[1].endswith("long"):
            ghost["yd"] = "str"
            ranges += ["matches(yd, '[0-9]+')", "matches(yd, '[1-9][0-9][0-9][0-9][0-9]+')", "len(yd) >= 5"]
            plan.setdefault(PY, []).append((f"accepts-{'negative-' if tok[1].startswith('negative') else ''}long-year", {"head": head, "yd": "yd", "rest": rest}))
        elif kind == "year":
            ghost["Y"] = "int"
            ranges += ["0 <= Y", "Y <= 9999"]
            plan.setdefault(PY, []).append((f"accepts-{'negative-' if tok[1] == 'negative' else ''}four-digit-year", {"head": head, "rest": rest, "k": "Y"}))
        elif kind == "frac":
            if tok[1]:
                ghost["k"] = "int"
                ranges += ["0 <= k", f"k < {10 ** tok[1]}"]
                plan.setdefault(PFS, []).append((f"accepts-{tok[1]}-digits", {"head": head, "rest": rest, "k": "k"}))
            else:
                plan.setdefault(PFS, []).append(("accepts-no-fraction", {"head": head, "rest": rest}))
        elif kind == "tz":
            _, gs, _, variant, bind = TZ[tok[1]]
            for g in gs:
                ghost[g] = "int"
                ranges += [f"0 <= {g}", f"{g} <= 99"]
            b = dict(bind)
            if variant != "accepts-no-timezone":
                b.update(head=head, rest=rest)
            plan.setdefault(PO, []).append((variant, b))
        pos += len(ps)
    core = _cat(flat)
    hints = [f"strip_core(string, w1, '{WS}', w2, {core})", f"strip_noop({core})"]
    # first / last character of the core are not whitespace: they are digits, '-' or 'Z'
    first, last = flat[0], flat[-1]
    hints.append(f"head_of({first}, {_cat(flat[1:])})")
    if first.startswith("pad("):
        hints.append(f"digit_chars({first}, {int(first.rsplit(',', 1)[1].strip(' )'))})")
    elif first == "yd":
        hints.append("digit_at(yd, 0)")
    if len(flat) > 1:
        hints.append(f"last_of({_cat(flat[:-1])}, {last})")
    if last.startswith("pad("):
        hints.append(f"digit_chars({last}, {int(last.rsplit(',', 1)[1].strip(' )'))})")
    elif last == "yd":
        hints.append("digit_at(yd, len(yd) - 1)")
    lexical_form.pieces = flat
    lexical_form.tz_pieces = groups[-1][1] if groups and groups[-1][0][0] == "tz" else []
    return core, ghost, ranges, plan, hints


def register_from_string_acceptance(db):
    PR = ["C06"]
    TIME = [("d2", "H"), ("sep", ":"), ("d2", "M"), ("sep", ":"), ("d2", "S")]
    DATE = [("sep", "-"), ("d2", "Mo"), ("sep", "-"), ("d2", "D")]
    T_RANGES = ["0 <= H", "H <= 24", "0 <= M", "M <= 59", "0 <= S", "S <= 59"]
    D_RANGES = ["valid_date({y}, Mo, D)", "0 <= Mo", "Mo <= 99", "0 <= D", "D <= 99"]

    def frac_value(n):
        return f"k * {10 ** (9 - n)}" if n else "0"

    def add(cls, name, tokens, extra_requires, ensures):
        core, ghost, ranges, plan, hints = lexical_form(tokens)
        ghost = {"w1": "str", "w2": "str", **ghost}
        db.add(Contract(
            f"{DT}:{cls}.from_string", variant=f"accepts-{name}",
            params={"string": "str"}, ghost=ghost,
            requires=ranges + extra_requires + [f"matches(w1, '{WS}')", f"matches(w2, '{WS}')", f"string == w1 + {core} + w2"],
            hints=hints, call_variants=plan, ensures=ensures, raises={}, properties=PR,
            note="generator parse() executed eagerly; scanner leaves by their acceptance contracts",
        ))

    for tzname, (_, _, tz_post, _, _) in TZ.items():
        for n in range(0, 10):
            midnight = "implies(H == 24, M == 0 and S == 0" + (" and k == 0" if n else "") + ")"
            time_post = [("hour", "result.hour == H"), ("minute", "result.minute == M"), ("second", "result.second == S"),
                         ("fraction-in-nanoseconds", f"result.fractional_second == {frac_value(n)}"), ("timezone", tz_post)]
            add("XmlTime", f"{n or 'no'}-fraction-digits-{tzname}", TIME + [("frac", n), ("tz", tzname)], T_RANGES + [midnight], time_post)
            for sign in ("positive", "negative"):
                y = "Y" if sign == "positive" else "-Y"
                add("XmlDateTime", f"{sign}-year-{n or 'no'}-fraction-digits-{tzname}",
                    [("year", sign)] + DATE + [("sep", "T")] + TIME + [("frac", n), ("tz", tzname)],
                    [r.format(y=y) for r in D_RANGES] + T_RANGES + [midnight],
                    [("year", f"result.year == {y}"), ("month", "result.month == Mo"), ("day", "result.day == D")] + time_post)
        for sign in ("positive", "negative"):
            y = "Y" if sign == "positive" else "-Y"
            add("XmlDate", f"{sign}-year-{tzname}", [("year", sign)] + DATE + [("tz", tzname)], [r.format(y=y) for r in D_RANGES],
                [("year", f"result.year == {y}"), ("month", "result.month == Mo"), ("day", "result.day == D"), ("timezone", tz_post)])
            # years of more than four digits (symbolic-length digit run, no leading zero)
            yl = "nat(yd)" if sign == "positive" else "-nat(yd)"
            add("XmlDate", f"{sign}-long-year-{tzname}", [("year", sign + "-long")] + DATE + [("tz", tzname)], [r.format(y=yl) for r in D_RANGES],
                [("year", f"result.year == {yl}"), ("month", "result.month == Mo"), ("day", "result.day == D"), ("timezone", tz_post)])
            for n in (0, 3):
                midnight = "implies(H == 24, M == 0 and S == 0" + (" and k == 0" if n else "") + ")"
                add("XmlDateTime", f"{sign}-long-year-{n or 'no'}-fraction-digits-{tzname}",
                    [("year", sign + "-long")] + DATE + [("sep", "T")] + TIME + [("frac", n), ("tz", tzname)],
                    [r.format(y=yl) for r in D_RANGES] + T_RANGES + [midnight],
                    [("year", f"result.year == {yl}"), ("month", "result.month == Mo"), ("day", "result.day == D"),
                     ("hour", "result.hour == H"), ("minute", "result.minute == M"), ("second", "result.second == S"),
                     ("fraction-in-nanoseconds", f"result.fractional_second == {frac_value(n)}"), ("timezone", tz_post)])


def register_period_acceptance(db):
    """XmlPeriod._parse_period: every g* shape (with every timezone form, both year signs) is dispatched to the
    right format and yields the components XSD assigns."""
    PR = ["C06"]
    DASH = ("sep", "-")
    SHAPES = {
        "gDay": ([DASH, DASH, DASH, ("d2", "D")], ["1 <= D", "D <= 31"], (None, None, "D")),
        "gMonth": ([DASH, DASH, ("d2", "Mo")], ["1 <= Mo", "Mo <= 12"], (None, "Mo", None)),
        "gMonthDay": ([DASH, DASH, ("d2", "Mo"), DASH, ("d2", "D")], ["valid_date(0, Mo, D)", "0 <= Mo", "Mo <= 99", "0 <= D", "D <= 99"], (None, "Mo", "D")),
    }
    for sign in ("positive", "negative"):
        y = "Y" if sign == "positive" else "-Y"
        SHAPES[f"gYear-{sign}"] = ([("year", sign)], [], (y, None, None))
        SHAPES[f"gYearMonth-{sign}"] = ([("year", sign), DASH, ("d2", "Mo")], ["1 <= Mo", "Mo <= 12"], (y, "Mo", None))
        yl = "nat(yd)" if sign == "positive" else "-nat(yd)"
        SHAPES[f"gYear-{sign}-long"] = ([("year", sign + "-long")], [], (yl, None, None))
        SHAPES[f"gYearMonth-{sign}-long"] = ([("year", sign + "-long"), DASH, ("d2", "Mo")], ["1 <= Mo", "Mo <= 12"], (yl, "Mo", None))
    for shape, (tokens, extra, (yy, mo, dd)) in SHAPES.items():
        for tzname, (_, _, tz_post, _, _) in TZ.items():
            core, ghost, ranges, plan, hints = lexical_form(tokens + [("tz", tzname)])
            hints = [h for h in hints if not h.startswith("strip_core(")]
            # the shape dispatch looks for ':' (a timezone offset) and for the last '-' before it
            flat, tzp = lexical_form.pieces, lexical_form.tz_pieces
            date = flat[: len(flat) - len(tzp)]
            pads = [p for p in flat if p.startswith("pad(") or p == "yd"]
            hints += [f"digits_only({p}, ':')" for p in pads] + [f"digits_only({p}, '-')" for p in pads]
            hints += [f"find_in(':', {', '.join(flat)})", f"rfind_in('-', {', '.join(flat)})", f"rfind_in('-', {', '.join(date)})"]
            if tzp:
                hints.append(f"substr_at(value, '', {_cat(date)}, {_cat(tzp)})")
            if shape in ("gMonth", "gMonthDay"):
                # the legacy '--MM--' test looks at value[4:6]: name the characters at positions 4 and 5
                hints += ["char_of_slice(value, 4, 2, 0)", "char_of_slice(value, 4, 2, 1)"]
                for idx in range(3, len(flat)):
                    pre, piece, post = _cat(flat[:idx]), flat[idx], _cat(flat[idx + 1:])
                    if piece.startswith("pad("):
                        w = int(piece.rsplit(",", 1)[1].strip(" )"))
                        hints += [f"chars_at(value, {pre}, {piece}, {w}, {post})", f"digit_chars({piece}, {w})"]
                    else:
                        hints.append(f"substr_at(value, {pre}, {piece}, {post})")
            post = [("year", f"result.year == {yy}" if yy else "result.year is None"),
                    ("month", f"result.month == {mo}" if mo else "result.month is None"),
                    ("day", f"result.day == {dd}" if dd else "result.day is None"),
                    ("timezone", tz_post)]
            db.add(Contract(
                f"{DT}:XmlPeriod._parse_period", variant=f"accepts-{shape}-{tzname}",
                params={"cls": "opaque:type", "value": "str"}, ghost=ghost,
                requires=ranges + extra + [f"value == {core}"],
                hints=hints, call_variants=plan, ensures=post, raises={}, properties=PR,
                note="shape dispatch (startswith / length / find / rfind) followed by the format scanner",
            ))
    register_legacy_gmonth(db)


def register_legacy_gmonth(db):
    """The XSD 1.0 spelling of gMonth, '--MM--' (kept by the library as "bogus format"): _parse_period cuts the
    trailing dashes out (value[:4] + value[6:]) and parses the rest as gMonth."""
    DASH = ("sep", "-")
    for tzname, (tz_pieces, _, tz_post, _, _) in TZ.items():
        legacy, _, _, _, _ = lexical_form([DASH, DASH, ("d2", "Mo"), DASH, DASH, ("tz", tzname)])
        core, ghost, ranges, plan, hints = lexical_form([DASH, DASH, ("d2", "Mo"), ("tz", tzname)])
        flat = lexical_form.pieces
        tz = _cat(list(tz_pieces))
        month = "'-' + '-' + pad(Mo, 2)"
        hints = [h for h in hints if not h.startswith("strip_core(")]
        hints += [f"substr_at(value, '', {month}, '-' + '-' + {tz})", f"substr_at(value, {month}, '-' + '-', {tz})",
                  f"substr_at(value, {month} + '-' + '-', {tz}, '')", "digits_only(pad(Mo, 2), ':')", "digits_only(pad(Mo, 2), '-')"]
        db.add(Contract(
            f"{DT}:XmlPeriod._parse_period", variant=f"accepts-gMonth-legacy-{tzname}",
            params={"cls": "opaque:type", "value": "str"}, ghost=ghost,
            requires=ranges + ["1 <= Mo", "Mo <= 12", f"value == {legacy}"],
            hints=hints, call_variants=plan,
            ensures=[("year", "result.year is None"), ("month", "result.month == Mo"), ("day", "result.day is None"), ("timezone", tz_post)],
            raises={}, properties=["C06"],
        ))


def register_long_years(db):
    """Years of more than four digits (XSD: no leading zero then): the digit run is of unknown length, so
    parse_minimum_digits is proved with a loop invariant - the cursor stays inside the run while the character under
    it is a digit of the run (lemma schemas digit_at / char_in_token instantiated at the cursor)."""
    PR = ["C06"]
    HERE = ["self.vidx == len(head)"] + WF
    NOT_DIGIT = "(len(rest) == 0 or rest[0:1] < '0' or ('9' < rest[0:1] and rest[0:1] <= '\\x7f'))"
    PMD = f"{P}.parse_minimum_digits"
    RUN = ["self.value == head + yd + rest", "matches(yd, '[0-9]+')", "len(yd) >= 4", NOT_DIGIT]
    db.add(Contract(
        PMD, variant="accepts-a-long-digit-run",
        params={"self": parser, "min_digits": 4},
        ghost={"head": "str", "yd": "str", "rest": "str"},
        requires=HERE + RUN,
        hints=["substr_at(self.value, head, yd, rest)", "int_of_digits(yd)", "substr_at(self.value, head + yd, rest[0:1], rest[1:])",
               "split_first(rest)"],
        ensures=[("component-value", "result == nat(yd)"), ("consumes-exactly-the-digits", "self.vidx == len(head) + len(yd)")] + KEEP,
        raises={}, returns="int", modifies=["self.vidx"],
        loops=[Loop(invariants=["self.vidx >= start + 4", "self.vidx <= start + len(yd)", "self.vlen == len(self.value)", "start == len(head)"],
                    hints=["digit_at(yd, self.vidx - start)", "char_in_token(self.value, head, yd, rest, self.vidx - start)"],
                    decreases="self.vlen - self.vidx", header="self.has_more() and self.peek().isdigit()")],
        properties=PR,
    ))
    LONG = ["matches(yd, '[0-9]+')", "matches(yd, '[1-9][0-9][0-9][0-9][0-9]+')", "len(yd) >= 5"]
    for sign, lead, val in (("", "", "nat(yd)"), ("negative-", " + '-'", "-nat(yd)")):
        db.add(Contract(
            f"{P}.parse_year", variant=f"accepts-{sign}long-year",
            params={"self": parser}, ghost={"head": "str", "yd": "str", "rest": "str"},
            requires=HERE + [f"self.value == head{lead} + yd + rest"] + LONG + [NOT_DIGIT],
            hints=[f"substr_at(self.value, head{lead}, yd, rest)", "lstrip_noop(yd, '0')", "digit_at(yd, 0)", "split_first(yd)",
                   "digits_only(yd, '-')"]
                  + ([f"char_in_token(self.value, head, yd, rest, 0)", "head_of(yd, rest)"] if not sign else
                     [f"substr_at(self.value, head, '-', yd + rest)"]),
            call_variants={PMD: [("accepts-a-long-digit-run", {"head": f"head{lead}", "yd": "yd", "rest": "rest"})]},
            ensures=[("component-value", f"result == {val}"),
                     ("consumes-exactly-the-year", f"self.vidx == len(head) + len(yd){' + 1' if sign else ''}")] + KEEP,
            raises={}, returns="int", modifies=["self.vidx"], properties=PR,
        ))


def register_period_rejection(db):
    """XmlPeriod._parse_period, rejection direction: whatever the text, a period that is returned has a month in
    1..12 (when it has one) and a day that exists in that month of a leap year (when it has one) - '--02-30',
    '--04-31', '--13', '---32', '--00', '---00' are rejected; only ValueError escapes."""
    db.add(Contract(
        f"{DT}:XmlPeriod._parse_period", variant="denotes-a-real-period",
        params={"cls": "opaque:type", "value": "str"},
        ensures=[("month-and-day-exist",
                  "valid_date(0, ite(result.month is None, 1, result.month), ite(result.day is None, 1, result.day))")],
        raises={"ValueError": True}, properties=["C06", "C15"],
    ))


def register_stdlib_conversions(db):
    """to_datetime / to_time / to_date and calculate_timezone: the standard-library constructor receives the value's
    *own* components (microseconds = nanoseconds // 1000, the offset in minutes as a fixed-offset timezone).  A value
    the standard library cannot represent (24:00:00, year < 1) is then refused by that constructor with ValueError -
    it is never mapped to a different instant.  The constructors of `datetime` are modelled as plain records of their
    arguments (their range checks are C code, outside the model)."""
    PR = ["C06"]
    DATES = "xsdata.utils.dates"

    def record(fields):
        def ctor(ex, st, cref, args, kwargs):
            from pyvc.values import Obj
            o = Obj(f"{cref.module}:{cref.qualname}", dict(zip(fields, args)))
            for f in fields[len(args):]:
                o.fields[f] = kwargs.get(f, 0 if f != "tzinfo" else None)
            unknown = set(kwargs) - set(fields)
            if unknown:
                raise __import__("pyvc.engine", fromlist=["Unsupported"]).Unsupported(f"{cref.qualname}: keyword {sorted(unknown)}")
            yield st, st.alloc(o)
        return ctor

    db.ctors[("datetime", "datetime")] = record(["year", "month", "day", "hour", "minute", "second", "microsecond", "tzinfo"])
    db.ctors[("datetime", "time")] = record(["hour", "minute", "second", "microsecond", "tzinfo"])
    db.ctors[("datetime", "date")] = record(["year", "month", "day"])
    db.ctors[("datetime", "timedelta")] = record(["days", "seconds", "microseconds", "milliseconds", "minutes", "hours", "weeks"])
    db.ctors[("datetime", "timezone")] = record(["offset", "name"])
    import z3
    from pyvc.values import Opaque, z3sort
    if not hasattr(db, "class_consts"):
        db.class_consts = {}
    db.class_consts[("datetime", "timezone", "utc")] = Opaque("tzinfo", z3.Const("datetime_timezone_utc", z3sort(("u", "tzinfo"))))
    db.inline.add(f"{DT}:XmlDateTime.microsecond")
    db.inline.add(f"{DT}:XmlTime.microsecond")

    def xml_time(mk, base):
        o = mk.obj(f"{DT}:XmlTime", {"hour": "int", "minute": "int", "second": "int", "fractional_second": "int", "offset": "int|None"})
        mk.st.deref(o).structural = True
        mk.st.deref(o).tuple_fields = ["hour", "minute", "second", "fractional_second", "offset"]
        return o

    def xml_datetime(mk, base):
        o = mk.obj(f"{DT}:XmlDateTime", {"year": "int", "month": "int", "day": "int", "hour": "int", "minute": "int",
                                        "second": "int", "fractional_second": "int", "offset": "int|None"})
        mk.st.deref(o).structural = True
        mk.st.deref(o).tuple_fields = ["year", "month", "day", "hour", "minute", "second", "fractional_second", "offset"]
        return o

    def xml_date(mk, base):
        o = mk.obj(f"{DT}:XmlDate", {"year": "int", "month": "int", "day": "int", "offset": "int|None"})
        mk.st.deref(o).structural = True
        mk.st.deref(o).tuple_fields = ["year", "month", "day", "offset"]
        return o

    db.add(Contract(
        f"{DATES}:calculate_timezone", variant="no-offset", params={"offset": None},
        ensures=[("naive", "result is None")], raises={}, properties=PR))
    db.add(Contract(
        f"{DATES}:calculate_timezone", variant="fixed-offset", params={"offset": "int"},
        ensures=[("utc-for-zero", "implies(offset == 0, result is datetime.timezone.utc)"),
                 ("fixed-offset-of-that-many-minutes", "implies(offset != 0, result.offset.minutes == offset and result.offset.days == 0 "
                                                       "and result.offset.seconds == 0 and result.offset.hours == 0)")],
        raises={}, properties=PR))
    TZ = "uf('calculate_timezone', 'u:tzinfo|None', offset)"
    db.add(Contract(f"{DATES}:calculate_timezone", variant="call-view", trusted=True, call_default=True, params={},
                    returns="u:tzinfo|None", raises={}, call_ensures=[f"result == {TZ}"],
                    note="call-site view: the timezone object is a function of the offset (the function itself is verified above)"))
    SAME_TZ = "result.tzinfo == uf('calculate_timezone', 'u:tzinfo|None', self.offset)"
    db.add(Contract(
        f"{DT}:XmlDateTime.to_datetime", params={"self": xml_datetime},
        ensures=[("same-calendar-fields", "result.year == self.year and result.month == self.month and result.day == self.day"),
                 ("same-time-of-day", "result.hour == self.hour and result.minute == self.minute and result.second == self.second"),
                 ("microseconds-are-the-nanoseconds-truncated", "result.microsecond == self.fractional_second // 1000"),
                 ("same-offset", SAME_TZ)],
        raises={}, properties=PR,
        note="datetime.datetime modelled as a record of its arguments; its own range check (ValueError) is outside the model"))
    db.add(Contract(
        f"{DT}:XmlTime.to_time", params={"self": xml_time},
        ensures=[("same-time-of-day", "result.hour == self.hour and result.minute == self.minute and result.second == self.second"),
                 ("microseconds-are-the-nanoseconds-truncated", "result.microsecond == self.fractional_second // 1000"),
                 ("same-offset", SAME_TZ)],
        raises={}, properties=PR))
    db.add(Contract(
        f"{DT}:XmlDate.to_date", params={"self": xml_date},
        ensures=[("same-calendar-fields", "result.year == self.year and result.month == self.month and result.day == self.day")],
        raises={}, properties=PR))


def register_from_stdlib(db):
    """from_datetime / from_time / from_date: the value takes the standard-library object's own components, microseconds
    become nanoseconds (x 1000), the offset is the object's UTC offset in minutes (calculate_offset, call-site view)."""
    PR = ["C06"]
    for f in ("year", "month", "day", "hour", "minute", "second", "microsecond"):
        collab.field(db, "StdDateTime", f, "int")
    db.add(Contract("xsdata.utils.dates:calculate_offset", variant="call-view", trusted=True, call_default=True, params={},
                    returns="int|None", raises={}, call_ensures=["result == uf('utc_offset_minutes', 'int|None', obj)"],
                    note="assumed: the UTC offset of a standard-library object in whole minutes (timedelta arithmetic is C code)"))

    def cls_of(name):
        def mk_cls(mk, base):
            from pyvc.values import ClassRef
            return ClassRef("xsdata.models.datatype", name)
        return mk_cls

    OFF = "result.offset == uf('utc_offset_minutes', 'int|None', obj)"
    db.add(Contract(
        f"{DT}:XmlDateTime.from_datetime", params={"cls": cls_of("XmlDateTime"), "obj": "opaque:StdDateTime"},
        ensures=[("same-calendar-fields", "result.year == obj.year and result.month == obj.month and result.day == obj.day"),
                 ("same-time-of-day", "result.hour == obj.hour and result.minute == obj.minute and result.second == obj.second"),
                 ("nanoseconds-are-the-microseconds-times-1000", "result.fractional_second == obj.microsecond * 1000"),
                 ("same-offset", OFF)],
        raises={}, properties=PR))
    db.add(Contract(
        f"{DT}:XmlTime.from_time", params={"cls": cls_of("XmlTime"), "obj": "opaque:StdDateTime"},
        ensures=[("same-time-of-day", "result.hour == obj.hour and result.minute == obj.minute and result.second == obj.second"),
                 ("nanoseconds-are-the-microseconds-times-1000", "result.fractional_second == obj.microsecond * 1000"),
                 ("same-offset", OFF)],
        raises={}, properties=PR))
    db.add(Contract(
        f"{DT}:XmlDate.from_date", params={"cls": cls_of("XmlDate"), "obj": "opaque:StdDateTime"},
        ensures=[("same-calendar-fields", "result.year == obj.year and result.month == obj.month and result.day == obj.day")],
        raises={}, properties=PR))
    db.add(Contract(
        f"{DT}:XmlDate.from_datetime", params={"cls": cls_of("XmlDate"), "obj": "opaque:StdDateTime"},
        ensures=[("same-calendar-fields", "result.year == obj.year and result.month == obj.month and result.day == obj.day"),
                 ("same-offset", OFF)],
        raises={}, properties=PR))
