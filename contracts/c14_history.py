from pyvc.contracts import Contract, Loop, assume_method
from . import collab

EL = "xsdata.formats.dataclass.models.elements"
CTX = "xsdata.formats.dataclass.context:XmlContext"


def register(db):
    collab.declare(db)
    register_choices(db)
    register_parser_ns_map(db)
    register_xsi_cache(db)
    register_find_subclass(db)
    register_memo(db)
    register_find_types(db)
    register_find_type(db)
    P = ["C14"]
    # ------------------------------------------------------------------ memoised wildcard matching
    M = "uf('match_ns', 'bool', self.namespaces, {q})"

    def xml_var(memo):
        def mk_(mk, base):
            return mk.obj(f"{EL}:XmlVar", {"namespaces": "seq[str]", "namespace_matches": memo})
        return mk_

    db.add(Contract(
        f"{EL}:XmlVar._match_namespace", variant="wildcard-semantics",
        params={"self": xml_var(None), "qname": "str"},
        requires=["len(qname) > 0", "forall('int', lambda j: implies(0 <= j and j < len(self.namespaces), True))"],
        ensures=[("admits-iff-some-constraint-admits",
                  "result == ((len(self.namespaces) == 0 and clark_split(qname)[0] is None) or "
                  "exists('int', lambda j: 0 <= j and j < len(self.namespaces) and wildcard_admits(self.namespaces[j], clark_split(qname)[0])))")],
        raises={}, returns="bool",
        loops=[Loop(invariants=["forall('int', lambda j: implies(0 <= j and j < _i, not wildcard_admits(self.namespaces[j], uri)))"],
                    header="self.namespaces")],
        call_ensures=[f"result == {M.format(q='qname')}"],
        call_default=True,
        properties=P + ["C11"],
        note="callers see the result as a function of (namespaces, qname) - the definitional abstraction of this contract",
    ))
    INV = "forall('str', lambda k: implies(k in self.namespace_matches, self.namespace_matches[k] == " + M.format(q="k") + "))"
    db.add(Contract(
        f"{EL}:XmlVar.match_namespace", variant="cold",
        params={"self": xml_var(None), "qname": "str"},
        requires=["len(qname) > 0"],
        ensures=[("function-of-arguments", f"result == {M.format(q='qname')}"), ("memo-consistent", INV)],
        raises={}, modifies=["self.namespace_matches"], properties=P,
    ))
    db.add(Contract(
        f"{EL}:XmlVar.match_namespace", variant="warm",
        params={"self": xml_var("dict[str,bool]"), "qname": "str"},
        requires=["len(qname) > 0", INV],
        ensures=[("function-of-arguments", f"result == {M.format(q='qname')}"), ("memo-consistent", INV),
                 ("memo-only-grows", "forall('str', lambda k: implies(k in old(self.namespace_matches), k in self.namespace_matches))")],
        raises={}, properties=P,
    ))

    # ------------------------------------------------------------------ binding metadata cache
    def context(mk, base):
        return mk.obj(CTX, {"cache": "dict[u:type,u:XmlMeta]", "xsi_cache": "opaque:PyDict", "sys_modules": "int",
                            "class_type": "opaque:ClassType", "models_package": "str|None",
                            "element_name_generator": "opaque:Any", "attribute_name_generator": "opaque:Any"})

    assume_method(db, "Builder", "build", returns="u:XmlMeta", pure=True, raises=["XmlContextError", "NameError", "TypeError"])
    db.add(Contract(f"{CTX}.get_builder", trusted=True, params={}, returns="u:Builder", raises={},
                    call_ensures=["result == uf('get_builder', 'u:Builder', self.class_type, self.element_name_generator, self.attribute_name_generator, globalns)"],
                    note="assumed: the builder is a function of the context's generators and globalns"))
    BUILD = ("uf('Builder.build', 'u:XmlMeta', uf('get_builder', 'u:Builder', self.class_type, self.element_name_generator, "
             "self.attribute_name_generator, {g}), {c}, {p})")
    db.add(Contract(
        f"{CTX}.build",
        params={"self": context, "clazz": "opaque:type", "parent_ns": "str|None", "globalns": "opaque:Any|None" if False else None},
        ensures=[
            ("metadata-is-a-function-of-class-and-inherited-namespace", "result == " + BUILD.format(g="globalns", c="clazz", p="parent_ns")),
            ("cached", "clazz in self.cache and self.cache[clazz] == result"),
            ("other-entries-kept", "forall('u:type', lambda c: implies(c in old(self.cache), c in self.cache and self.cache[c] == old(self.cache)[c]))"),
        ],
        raises={"XmlContextError": "not (clazz in self.cache)", "NameError": "not (clazz in self.cache)", "TypeError": "not (clazz in self.cache)"},
        call_ensures=["result == uf('ctx_build', 'u:XmlMeta', clazz, parent_ns)"],
        returns="u:XmlMeta",
        properties=P,
    ))
    db.add(Contract(f"{CTX}.find_subclass", trusted=True, params={}, returns="u:type|None", raises={},
                    call_ensures=["result == uf('find_subclass', 'u:type|None', clazz, qname)"],
                    note="assumed: subclass lookup is a function of (class, xsi:type) for a fixed set of loaded models"))
    B = "uf('ctx_build', 'u:XmlMeta', {c}, parent_ns)"
    FS = "uf('find_subclass', 'u:type|None', clazz, xsi_type)"
    SUBST = f"(xsi_type and {B.format(c='clazz')}.target_qname != xsi_type and {FS} is not None)"
    db.add(Contract(
        f"{CTX}.fetch",
        params={"self": context, "clazz": "opaque:type", "parent_ns": "str|None", "xsi_type": "str|None"},
        ensures=[("function-of-arguments: substituted class", f"implies({SUBST}, result == {B.format(c='some(' + FS + ')')})"),
                 ("function-of-arguments: declared class", f"implies(not {SUBST}, result == {B.format(c='clazz')})")],
        raises={"XmlContextError": True, "NameError": True, "TypeError": True},
        properties=P,
    ))


def register_choices(db):
    """XmlVar.find_primitive_choice: the answer is one of the declared, compatible choices of this field
    (so nothing remembered from earlier calls can be returned)."""
    assume_method(db, "ElementsMap", "values", returns="seq[u:XmlVar]", pure=True)
    db.add(Contract("xsdata.formats.converter:ConverterFactory.test", trusted=True, params={}, returns="bool", raises={},
                    call_ensures=["result == uf('converter.test', 'bool', value, types)"],
                    note="assumed: the lexical test is a function of (value, candidate types)"))
    collab.field(db, "Any", "__getitem__", "u:Any")

    def xml_var(mk, base):
        return mk.obj(f"{EL}:XmlVar", {"elements": "opaque:ElementsMap"})

    ELEMS = "uf('ElementsMap.values', 'seq[u:XmlVar]', self.elements)"
    db.add(Contract(
        f"{EL}:XmlVar.find_primitive_choice",
        params={"self": xml_var, "value": "opaque:Any", "is_tokens": "bool"},
        ensures=[("answer-is-a-declared-compatible-choice",
                  f"implies(result is not None, exists('int', lambda j: 0 <= j and j < len({ELEMS}) and result == {ELEMS}[j] "
                  f"and not {ELEMS}[j].any_type and {ELEMS}[j].clazz is None and {ELEMS}[j].tokens == is_tokens))")],
        raises={"KeyError": True, "IndexError": True, "TypeError": True},
        loops=[Loop(invariants=[], header="self.elements.values()",
                    step=[("a-choice-is-picked-because-it-declares-exactly-the-value-type-or-accepts-its-lexical-form",
                           "implies(_outcome == 'return', not element.any_type and element.clazz is None and element.tokens == is_tokens and "
                           "(is_tokens or (tp in element.types) or uf('converter.test', 'bool', value, element.types)))"),
                          ("a-choice-that-declares-exactly-the-value-type-ends-the-search",
                           "implies(not element.any_type and element.clazz is None and element.tokens == is_tokens and (tp in element.types), _outcome == 'return')")])],
        properties=["C14", "C04", "C03"],
        note="IndexError/KeyError/TypeError: artefacts of the abstract value (value[0] of a token list); C03: the serializer "
             "writes a value of a compound field under the element name of the choice this function picks",
    ))


def register_parser_ns_map(db):
    """The prefix map a parser records while parsing (``parser.ns_map``, documented as "the parsed namespace
    prefix-URI map") must be a function of the document: when the caller passes no map, recording has to start
    from an empty one.  register_namespace keeps the first binding of a prefix, so anything left from an earlier
    document wins over the current document's declarations."""
    NP = "xsdata.formats.dataclass.parsers.bases:NodeParser"
    assume_method(db, "HandlerClass", "__call__", returns="u:XmlHandlerObj")
    assume_method(db, "XmlHandlerObj", "parse", returns="u:Any|None", raises=["SyntaxError", "ParserError", "ConverterError", "XmlContextError"])

    def node_parser(mk, base):
        return mk.obj(NP, {"config": "opaque:ParserConfig", "context": "opaque:XmlContext", "handler": "opaque:HandlerClass",
                           "ns_map": "dict[str|None,str]"})

    db.add(Contract(
        f"{NP}.parse", variant="records-into-its-own-map",
        params={"self": node_parser, "source": "opaque:Any", "clazz": "u:type|None", "ns_map": None},
        # the handler's own writes into the map are not modelled (assumed method), so "empty at exit" in the model
        # is "empty when handed to the handler"
        ensures=[("recording-starts-from-an-empty-map",
                  "call_arg('XmlHandlerObj.parse', 1) is self.ns_map and len(self.ns_map) == 0"),
                 ("returns-an-object-or-fails", "result is not None")],
        modifies=["self.ns_map"],
        raises={"ParserError": True, "ConverterError": True, "XmlContextError": True},
        properties=["C14"], replay="replay_parser_ns_map",
        note="history independence of the recorded prefix map",
    ))


def register_xsi_cache(db):
    """The subclass index (xsi:type -> classes) must not be staler than the set of loaded model classes: a context
    that already answered a lookup has to give the answers a fresh context gives.  The index is rebuilt only
    when the number of imported modules changed; the clause below asks that skipping the rebuild is justified,
    i.e. that the classes loaded now are the classes the index was built from."""
    import z3
    from pyvc.values import Opaque, z3sort

    db.const_overrides[("sys", "modules")] = Opaque("SysModules", z3.Const("sys_modules", z3sort(("u", "SysModules"))))
    db.add(Contract(f"{CTX}.get_subclasses", trusted=True, params={}, returns="seq[u:type]", raises={},
                    call_ensures=["result == uf('loaded_classes', 'seq[u:type]', uf('world_now', 'u:World'))"],
                    note="assumed: the subclasses of `object` are the classes loaded in the interpreter now"))
    db.add(Contract(f"{CTX}.is_binding_model", trusted=True, params={}, returns="bool", raises={},
                    call_ensures=["result == uf('is_binding_model', 'bool', clazz)"]))
    assume_method(db, "Builder", "build_class_meta", returns="u:XmlMeta", pure=True, raises=["XmlContextError", "NameError", "TypeError"])
    assume_method(db, "XsiCache", "clear", mutates=True)
    assume_method(db, "XsiCache", "values", returns="u:Any")
    db.opaque_ops[("XsiCache", "getitem")] = lambda ex, st, v, idx: iter([(st, Opaque("PyList"))])  # a defaultdict(list)

    SYS = db.const_overrides[("sys", "modules")]

    def modules_now(ex, st, env):
        """len(sys.modules) == module_count(world_now)"""
        from pyvc.contracts import pure_result

        f = ex.uf("len_SysModules", z3sort(("u", "SysModules")), z3.IntSort())
        w = pure_result(ex, st, "world_now", "u:World", [])
        st.assume(f(SYS.t) == pure_result(ex, st, "module_count", "int", [w]).t)

    def context(mk, base):
        return mk.obj(CTX, {"cache": "opaque:PyDict", "xsi_cache": "opaque:XsiCache", "sys_modules": "int",
                            "class_type": "opaque:ClassType", "models_package": "str|None",
                            "element_name_generator": "opaque:Any", "attribute_name_generator": "opaque:Any"})

    db.add(Contract(
        f"{CTX}.build_xsi_cache",
        params={"self": context}, ghost={"built_from": "u:World"},
        requires=[# representation invariant of the index: it was built from some state of the interpreter and
                  # remembers that state's module count (0 = never built; a running interpreter has modules)
                  "self.sys_modules == 0 or self.sys_modules == uf('module_count', 'int', built_from)",
                  "uf('module_count', 'int', uf('world_now', 'u:World')) > 0"],
        ensures=[("index-reflects-the-classes-loaded-now",
                  "called('XmlContext.get_subclasses') == 1 or "
                  "uf('loaded_classes', 'seq[u:type]', built_from) == uf('loaded_classes', 'seq[u:type]', uf('world_now', 'u:World'))"),
                 # a rebuild starts from an empty index: entries (and their order) from earlier states of the interpreter
                 # must not survive, otherwise a used context and a fresh one order the classes of a qname differently
                 ("a-rebuild-starts-from-an-empty-index", "implies(called('XmlContext.get_subclasses') == 1, called('XsiCache.clear') == 1)")],
        raises={"XmlContextError": True, "NameError": True, "TypeError": True},
        loops=[Loop(invariants=[], header="self.get_subclasses(object)",
                    step=[("every-binding-model-with-a-target-name-is-indexed",
                           "implies(uf('is_binding_model', 'bool', clazz), called('Builder.build_class_meta') == 1)")])],
        modifies=["self.sys_modules"],
        properties=["C14"], replay="replay_xsi_cache", ghost_pre=modules_now,
        note="history independence of XmlContext.find_type / find_types / find_type_by_fields; "
             "assumed: len(sys.modules) is the module count of the interpreter state now",
    ))


def register_find_subclass(db):
    """find_subclass is a *lookup*: the list it gets from find_types is the context's live index entry for that qname
    (find_type reads its last element, find_subclass its first compatible one), so the lookup must leave it as it is -
    otherwise what a context answers depends on which xsi:type substitutions it resolved before."""
    for m in ("insert", "pop", "append", "remove", "sort", "reverse", "extend", "clear"):
        assume_method(db, "TypeList", m, mutates=True, returns="u:type" if m == "pop" else None)
    db.add(Contract(f"{CTX}.find_types", variant="call-view", trusted=True, call_default=True, params={}, returns="u:TypeList", raises={},
                    call_ensures=["result == uf('XmlContext.find_types', 'u:TypeList', self.xsi_cache, qname)"],
                    note="call-site view: the index entry of the qname (the same list object every time)"))
    collab.field(db, "type", "__mro__", "seq[u:type]")

    def types_of(ex, st, v):
        from pyvc.contracts import pure_result
        yield st, pure_result(ex, st, "TypeList.items", "seq[u:type]", [v])

    db.opaque_ops[("TypeList", "iter")] = types_of

    def context(mk, base):
        return mk.obj(CTX, {"cache": "opaque:PyDict", "xsi_cache": "opaque:XsiCache", "sys_modules": "int",
                            "class_type": "opaque:ClassType", "models_package": "str|None",
                            "element_name_generator": "opaque:Any", "attribute_name_generator": "opaque:Any"})

    db.add(Contract(
        f"{CTX}.find_subclass", variant="read-only-lookup",
        params={"self": context, "clazz": "opaque:type", "qname": "str"},
        ensures=[("the-index-entry-is-left-as-it-is", "unmodified(uf('XmlContext.find_types', 'u:TypeList', self.xsi_cache, qname))")],
        raises={}, returns="u:type|None",
        loops=[Loop(invariants=[], header="types"), Loop(invariants=[], header="tp.__mro__")],
        properties=["C14"],
    ))


def register_memo(db):
    """Cache-key adequacy of every memoised function found in the repository source on this run (pyvc/memo.py): equal
    keys (Python ==) must give the same result, otherwise what a call returns depends on which of two equal values the
    process saw first."""
    from pyvc import memo

    _, specs, inventory = memo.harness_module()
    db.memo_inventory = inventory
    for sp in specs:
        if sp["sorts"] is None:
            db.add(Contract(f"verif_memo:{sp['name']}", params={}, ensures=[], raises={}, properties=["C14"],
                            note=f"memoised function {sp['function']}: {sp['reason']} - key adequacy cannot be established"))
            continue
        db.inline.add(sp["function"])
        s1, s2 = sp["sorts"]
        db.add(Contract(
            f"verif_memo:{sp['name']}",
            params={"a": s1, "b": s2, **{n: srt for n, srt in sp["others"]}},
            requires=["a == b"],
            ensures=[("equal-keys-give-the-same-result", "result[0] == result[1]")],
            raises={}, properties=["C14"], replay="replay_memo",
            note=f"memoised function {sp['function']}: parameter {sp['param']} admits {sp['types'][0]} and {sp['types'][1]}; "
                 f"equal values of the two types share one cache entry",
        ))


def register_find_types(db):
    """find_types / find_type: a name of a native schema datatype has no classes (and does not touch the index); any
    other name is answered from the index *after* the staleness test (build_xsi_cache) - never from the index as an
    earlier call left it; find_type is the last class of that answer, None when there is none."""
    db.add(Contract(f"{CTX}.build_xsi_cache", variant="call-view", trusted=True, call_default=True, params={}, raises={"XmlContextError": True, "NameError": True, "TypeError": True},
                    note="call-site view: the (verified) staleness test and rebuild; recorded on the ghost trace"))
    db.opaque_ops[("XsiCache", "contains")] = lambda ex, st, v, item: iter([(st, __import__("pyvc.contracts", fromlist=["pure_result"]).pure_result(ex, st, "XsiCache.has", "bool", [v, item]))])

    def context(mk, base):
        return mk.obj(CTX, {"cache": "opaque:PyDict", "xsi_cache": "opaque:XsiCache", "sys_modules": "int",
                            "class_type": "opaque:ClassType", "models_package": "str|None",
                            "element_name_generator": "opaque:Any", "attribute_name_generator": "opaque:Any"})

    db.always_truthy.add("DataType")  # an Enum member without __bool__ / __len__
    NATIVE = "uf('DataType.from_qname', 'u:DataType|None', qname) is not None"
    db.add(Contract(
        f"{CTX}.find_types", variant="lookup",
        params={"self": context, "qname": "str"},
        ensures=[("a-native-datatype-name-has-no-classes-and-leaves-the-index-alone",
                  f"implies({NATIVE}, len(result) == 0 and called('XmlContext.build_xsi_cache') == 0)"),
                 ("any-other-name-is-answered-after-the-staleness-test",
                  f"implies(not ({NATIVE}), called('XmlContext.build_xsi_cache') == 1)"),
                 ("an-unknown-name-has-no-classes",
                  f"implies(not ({NATIVE}) and not uf('XsiCache.has', 'bool', self.xsi_cache, qname), len(result) == 0)")],
        raises={"XmlContextError": True, "NameError": True, "TypeError": True}, properties=["C14"],
    ))


def register_find_type(db):
    """find_type: the LAST class of the index entry (the class imported last), None when the entry is empty - together
    with find_subclass#read-only-lookup (which must not reorder that entry) this makes the answer a function of the
    loaded classes."""
    from pyvc.contracts import pure_result
    from pyvc.values import Opaque
    db.opaque_ops[("TypeList", "getitem")] = lambda ex, st, v, idx: iter([(st, Opaque("type", pure_result(ex, st, "TypeList.getitem", "u:type", [v, idx]).t))])

    def context(mk, base):
        return mk.obj(CTX, {"cache": "opaque:PyDict", "xsi_cache": "opaque:XsiCache", "sys_modules": "int",
                            "class_type": "opaque:ClassType", "models_package": "str|None",
                            "element_name_generator": "opaque:Any", "attribute_name_generator": "opaque:Any"})

    T = "uf('XmlContext.find_types', 'u:TypeList', self.xsi_cache, qname)"
    db.add(Contract(
        f"{CTX}.find_type", params={"self": context, "qname": "str"},
        ensures=[("the-last-class-of-the-entry", f"implies(uf('truthy_TypeList', 'bool', {T}), result is uf('TypeList.getitem', 'u:type', {T}, -1))"),
                 ("none-for-an-empty-entry", f"implies(not uf('truthy_TypeList', 'bool', {T}), result is None)"),
                 ("one-lookup", "called('XmlContext.find_types') == 1 and call_arg('XmlContext.find_types', 1) == qname")],
        raises={}, returns="u:type|None", properties=["C14"],
    ))
