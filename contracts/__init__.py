"""Sidecar contracts for tefra/xsdata, keyed by module:QualName (see DESIGN.md §2.1)."""

MODULES = ["c06_dates", "c03_namespaces", "c05_converters", "c10_strictness", "c09_infoset", "c06_datatypes", "c05_factory", "c14_history", "c17_client", "c03_writer", "c15_clean_failure", "c07_names", "c04_dict", "c18_code"]

# helpers executed by inlining their real source instead of through a contract (listed in evidence)
INLINE = ["calendar:isleap"]

NODES = "xsdata.formats.dataclass.parsers.nodes"

PROPERTIES = {
    "C18": {
        "min_obligations": 30,
        "canaries": [
            {"name": "build_imports-imports-the-nested-name", "function": "xsdata.formats.dataclass.serializers.code:PycodeSerializer.build_imports#one-type",
             "module": "xsdata.formats.dataclass.serializers.code", "target": "PycodeSerializer.build_imports",
             "old": "name = name.split('.')[0]", "new": "name = name"},
        ],
        "decided": [], "not_decided": [], "bounded": [], "trusted_base": [], "assumptions": [],
    },
    "C04": {
        "min_obligations": 30,
        "canaries": [
            {"name": "filter_none-keeps-none", "function": "xsdata.formats.dataclass.serializers.dict:filter_none#three-entries",
             "module": "xsdata.formats.dataclass.serializers.dict", "target": "filter_none", "old": "if v is not None", "new": "if v is not None or k"},
        ],
        "decided": [], "not_decided": [], "bounded": [], "trusted_base": [], "assumptions": [],
    },
    "C07": {
        "min_obligations": 30,
        "canaries": [
            {"name": "classify-off-by-one", "function": "xsdata.utils.text:classify", "module": "xsdata.utils.text",
             "target": "classify", "old": "64 < code_point < 91", "new": "64 < code_point < 90"},
        ],
        "decided": [], "not_decided": [], "bounded": [], "trusted_base": [], "assumptions": [],
    },
    "C15": {
        "min_obligations": 100,
        "canaries": [
            {"name": "proxy-converter-catches-typeerror", "function": "xsdata.formats.converter:ProxyConverter.deserialize",
             "module": "xsdata.formats.converter", "target": "ProxyConverter.deserialize",
             "old": "except ValueError as e", "new": "except TypeError as e"},
        ],
        "decided": [], "not_decided": [], "bounded": [], "trusted_base": [], "assumptions": [],
    },
    "C17": {
        "min_obligations": 40,
        "canaries": [
            {"name": "prepare_headers-mutates-argument", "function": "xsdata.formats.dataclass.client:Client.prepare_headers",
             "module": "xsdata.formats.dataclass.client", "target": "Client.prepare_headers",
             "old": "result = headers.copy()", "new": "result = headers"},
        ],
        "decided": [], "not_decided": [], "bounded": [], "trusted_base": [], "assumptions": [],
    },
    "C14": {
        "min_obligations": 30,
        "canaries": [
            {"name": "match_namespace-memo-ignores-key", "function": "xsdata.formats.dataclass.models.elements:XmlVar.match_namespace#warm",
             "module": "xsdata.formats.dataclass.models.elements", "target": "XmlVar.match_namespace",
             "old": "self.namespace_matches[qname] = matches", "new": "self.namespace_matches[qname[:1]] = matches"},
        ],
        "decided": [], "not_decided": [], "bounded": [], "trusted_base": [], "assumptions": [],
    },
    "C09": {
        "min_obligations": 100,
        "canaries": [
            {"name": "merge-parent-wins", "function": "xsdata.formats.dataclass.parsers.handlers.native:XmlEventHandler.merge_parent_namespaces#child-element",
             "module": "xsdata.formats.dataclass.parsers.handlers.native", "target": "XmlEventHandler.merge_parent_namespaces",
             "old": "result[prefix] = uri", "new": "result[prefix] = result.get(prefix, uri)"},
            {"name": "normalize-strips-content", "function": "xsdata.formats.dataclass.parsers.utils:ParserUtils.normalize_content",
             "module": "xsdata.formats.dataclass.parsers.utils", "target": "ParserUtils.normalize_content",
             "old": "return value", "new": "return value.strip()"},
        ],
        "decided": [], "not_decided": [], "bounded": [], "trusted_base": [], "assumptions": [],
    },
    "C10": {
        "min_obligations": 150,
        "canaries": [
            {"name": "bind_attrs-drops-xsi-exemption", "function": NODES + ".element:ElementNode.bind_attrs#all-attributes-unknown",
             "module": NODES + ".element", "target": "ElementNode.bind_attrs",
             "old": "self.config.fail_on_unknown_attributes and target_uri(qname) != Namespace.XSI.uri",
             "new": "self.config.fail_on_unknown_attributes"},
            {"name": "skipnode-bind-returns-true", "function": NODES + ".skip:SkipNode.bind",
             "module": NODES + ".skip", "target": "SkipNode.bind", "old": "return False", "new": "return True"},
        ],
        "decided": [], "not_decided": [], "bounded": [], "trusted_base": [], "assumptions": [],
    },
    "C05": {
        "min_obligations": 50,
        "canaries": [],
        "decided": [], "not_decided": [], "bounded": [], "trusted_base": [], "assumptions": [],
    },
    "C03": {
        "min_obligations": 100,
        "canaries": [],
        "decided": [], "not_decided": [], "bounded": [], "trusted_base": [], "assumptions": [],
    },
    "C06": {
        "min_obligations": 30,
        "canaries": [
            {"name": "mdays-feb-29", "function": "xsdata.utils.dates:monthlen", "module": "xsdata.utils.dates",
             "target": "mdays", "old": "28", "new": "29"},
            {"name": "format_offset-unsigned", "function": "xsdata.utils.dates:format_offset", "module": "xsdata.utils.dates",
             "target": "format_offset", "old": "sign = '-'", "new": "sign = '+'"},
        ],
        "decided": [],
        "not_decided": [],
        "bounded": [],
        "trusted_base": [],
        "assumptions": [],
    },
}
