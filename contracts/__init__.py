"""Sidecar contracts for tefra/xsdata, keyed by module:QualName (see DESIGN.md §2.1)."""

MODULES = ["c06_dates", "c03_namespaces", "c05_converters", "c10_strictness"]

# helpers executed by inlining their real source instead of through a contract (listed in evidence)
INLINE = ["calendar:isleap"]

PROPERTIES = {
    "C05": {
        "min_obligations": 50,
        "canaries": [],
        "decided": [], "not_decided": [], "bounded": [], "trusted_base": [], "assumptions": [],
    },
    "C03": {
        "min_obligations": 100,
        "canaries": [],
        "decided": [], "not_decided": [], "bounded": [], "trusted_base": [], "assumptions": [],
    },
    "C06": {
        "min_obligations": 30,
        "canaries": [
            {"name": "mdays-feb-29", "function": "xsdata.utils.dates:monthlen", "module": "xsdata.utils.dates",
             "target": "mdays", "old": "28", "new": "29"},
            {"name": "format_offset-unsigned", "function": "xsdata.utils.dates:format_offset", "module": "xsdata.utils.dates",
             "target": "format_offset", "old": "sign = '-'", "new": "sign = '+'"},
        ],
        "decided": [],
        "not_decided": [],
        "bounded": [],
        "trusted_base": [],
        "assumptions": [],
    },
}
