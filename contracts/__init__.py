"""Sidecar contracts for tefra/xsdata, keyed by module:QualName (see DESIGN.md §2.1)."""

MODULES = ["c06_dates", "c03_namespaces", "c05_converters", "c10_strictness", "c09_infoset", "c06_datatypes", "c05_factory", "c14_history", "c17_client", "c03_writer", "c15_clean_failure", "c07_names", "c04_dict", "c18_code"]

# helpers executed by inlining their real source instead of through a contract (listed in evidence)
INLINE = ["calendar:isleap"]

NODES = "xsdata.formats.dataclass.parsers.nodes"

PROPERTIES = {
    "C18": {
        "min_obligations": 30,
        "canaries": [
            {"name": "build_imports-imports-the-nested-name", "function": "xsdata.formats.dataclass.serializers.code:PycodeSerializer.build_imports#one-type",
             "module": "xsdata.formats.dataclass.serializers.code", "target": "PycodeSerializer.build_imports",
             "old": "name = name.split('.')[0]", "new": "name = name"},
        ],
        "decided": ["literal_value: QName as constructor call with an escaped literal, finite floats as repr, non-finite through float('...'), str as repr", 'build_imports imports the top-level name of a (possibly nested) class, nothing for builtins', 'repr_array keeps list / tuple brackets', 'enum members as qualified dotted paths, type collected for imports', 'repr_model (one field): a field is left out iff its value equals its default / default_factory()'],
        "not_decided": ['models with several fields, mappings, write() layout', 'denotation of the whole rendered text (no semantics of eval in the solver)'],
        "bounded": [],
        "trusted_base": ['repr(str) / repr(float) evaluate back to the value (language guarantee, sampled)', 'call-site view of repr_object: one chunk that is a function of the value'],
        "assumptions": [],
    },
    "C04": {
        "min_obligations": 30,
        "canaries": [
            {"name": "filter_none-keeps-none", "function": "xsdata.formats.dataclass.serializers.dict:filter_none#three-entries",
             "module": "xsdata.formats.dataclass.serializers.dict", "target": "filter_none", "old": "if v is not None", "new": "if v is not None or k"},
        ],
        "decided": ['filter_none drops exactly the None entries (3 entries, arbitrary keys/values)', 'DictEncoder.encode returns JSON-native leaves unchanged and None for None', 'best-match scoring counts every non-None typed value (1.5) above the same text bound as str (1.0); a failed candidate scores -1'],
        "not_decided": ['decode(encode(x)) == x (decoder scoring over arbitrary models)', 'encode of models / arrays / enums / converter fallbacks'],
        "bounded": [],
        "trusted_base": ['assumed for the scoring lemma: a model with one int and one str field'],
        "assumptions": [],
    },
    "C07": {
        "min_obligations": 30,
        "canaries": [
            {"name": "classify-off-by-one", "function": "xsdata.utils.text:classify", "module": "xsdata.utils.text",
             "target": "classify", "old": "64 < code_point < 91", "new": "64 < code_point < 90"},
        ],
        "decided": ['classify: exact ASCII classes', 'alnum, one character at a time over all code points: ASCII letters/digits lower-cased, everything else dropped', 'ClassUtils.unique_name returns a name whose slug is not reserved and keeps a free name (partial correctness)'],
        "not_decided": ['safe_name recursion, case functions, split_words (character loops)', 'duplicate attribute / class renaming, import aliases', 'generation terminates, modules import, own error type (pipeline; jinja2/toposort/click absent)'],
        "bounded": [],
        "trusted_base": ['alnum distributes over concatenation (filter/join/lower are character-wise)'],
        "assumptions": [],
    },
    "C15": {
        "min_obligations": 100,
        "canaries": [
            {"name": "proxy-converter-catches-typeerror", "function": "xsdata.formats.converter:ProxyConverter.deserialize",
             "module": "xsdata.formats.converter", "target": "ProxyConverter.deserialize",
             "old": "except ValueError as e", "new": "except TypeError as e"},
        ],
        "decided": ['every function under contract for any property carries a raises-only clause over the library error types (union of all contracts tagged C15)', 'scanner loops terminate (variants)', 'XmlEventHandler.process_context consumes every event of the document (a well-formedness error after the root element is delivered by the iterator)'],
        "not_decided": ['rejection of non-well-formed documents (expat)', 'JSON decoder leak paths (JSONDecodeError, TypeError, AssertionError, AttributeError: functions not yet under contract)', 'ElementNode.bind / class factory TypeError'],
        "bounded": [],
        "trusted_base": ['assumed collaborator contracts (collab.py)', "abstraction artefacts listed in process_context's raises clause"],
        "assumptions": [],
    },
    "C17": {
        "min_obligations": 40,
        "canaries": [
            {"name": "prepare_headers-mutates-argument", "function": "xsdata.formats.dataclass.client:Client.prepare_headers",
             "module": "xsdata.formats.dataclass.client", "target": "Client.prepare_headers",
             "old": "result = headers.copy()", "new": "result = headers"},
        ],
        "decided": ['prepare_headers: content-type text/xml, SOAPAction iff configured, caller headers kept, argument not mutated, other transports => ClientValueError', 'prepare_payload: non-instance => ClientValueError, payload is serializer.render(obj) (encoded iff configured)', 'send: exactly one post to config.location with that payload and those headers, returns parser.from_bytes(response, config.output)', 'Config.from_service: an explicit override wins (also when falsy), else the service class value'],
        "not_decided": ['the two WSDL mapping sentences (DefinitionsMapper, detect_lazy_namespace)'],
        "bounded": [],
        "trusted_base": ['assumed: transport.post / parser.from_bytes / serializer.render are functions of their arguments'],
        "assumptions": [],
    },
    "C14": {
        "min_obligations": 30,
        "canaries": [
            {"name": "match_namespace-memo-ignores-key", "function": "xsdata.formats.dataclass.models.elements:XmlVar.match_namespace#warm",
             "module": "xsdata.formats.dataclass.models.elements", "target": "XmlVar.match_namespace",
             "old": "self.namespace_matches[qname] = matches", "new": "self.namespace_matches[qname[:1]] = matches"},
        ],
        "decided": ['XmlVar.match_namespace: result is a function of (namespaces, qname) for a cold and a warm memo, memo stays consistent and only grows', '_match_namespace against the documented wildcard constraint', 'XmlContext.build: function of (class, inherited namespace) when the class is not cached, other cache entries kept', 'XmlContext.fetch: function of its arguments', 'module constants are frozen: mutating one is an obligation failure'],
        "not_decided": ['xsi cache rebuild (build_xsi_cache / find_types), parser ns_map non-interference, lru_cache purity obligations'],
        "bounded": [],
        "trusted_base": ['assumed: builder.build and find_subclass are functions of their arguments for a fixed set of loaded classes'],
        "assumptions": ['known finding: XmlContext.cache is keyed by class only (region: clazz in self.cache)'],
    },
    "C09": {
        "min_obligations": 100,
        "canaries": [
            {"name": "merge-parent-wins", "function": "xsdata.formats.dataclass.parsers.handlers.native:XmlEventHandler.merge_parent_namespaces#child-element",
             "module": "xsdata.formats.dataclass.parsers.handlers.native", "target": "XmlEventHandler.merge_parent_namespaces",
             "old": "result[prefix] = uri", "new": "result[prefix] = result.get(prefix, uri)"},
            {"name": "normalize-strips-content", "function": "xsdata.formats.dataclass.parsers.utils:ParserUtils.normalize_content",
             "module": "xsdata.formats.dataclass.parsers.utils", "target": "ParserUtils.normalize_content",
             "old": "return value", "new": "return value.strip()"},
        ],
        "decided": ['prefix renaming: QNameConverter.resolve and ParserUtils.xsi_type give the same expanded name under any renaming of the prefix (lemma over the contracts)', "in-scope map of the pure-Python handler = parent (+) local, parent untouched; recorded union events keep each element's own map", 'whitespace-only text normalises to None, other text is kept unchanged', 'padded bool / int / enum values'],
        "not_decided": ['attribute order, comments, PIs, CDATA, character references, encodings, XInclude (expat / libxml2 / ElementInclude)', 'find_children / find_attribute are keyed by expanded names only (assumed collaborators)'],
        "bounded": [],
        "trusted_base": ['lemma hints strip_padded / index_at'],
        "assumptions": [],
    },
    "C10": {
        "min_obligations": 150,
        "canaries": [
            {"name": "bind_attrs-drops-xsi-exemption", "function": NODES + ".element:ElementNode.bind_attrs#all-attributes-unknown",
             "module": NODES + ".element", "target": "ElementNode.bind_attrs",
             "old": "self.config.fail_on_unknown_attributes and target_uri(qname) != Namespace.XSI.uri",
             "new": "self.config.fail_on_unknown_attributes"},
            {"name": "skipnode-bind-returns-true", "function": NODES + ".skip:SkipNode.bind",
             "module": NODES + ".skip", "target": "SkipNode.bind", "old": "return False", "new": "return True"},
        ],
        "decided": ['SkipNode swallows the subtree and binds nothing', 'unknown child: ParserError iff fail_on_unknown_properties else a SkipNode, assigned/wrappers untouched', 'unknown attributes: params untouched; ParserError iff fail_on_unknown_attributes and some attribute is outside the xsi namespace', 'conversion failure: ParserError iff fail_on_converter_warnings else exactly one warning and the input value is returned', 'unknown dict keys: ParserError iff fail_on_unknown_properties else nothing reaches the constructor', 'NodeParser.end returns what bind returned'],
        "not_decided": ['the composition over whole documents (C01-style pipeline)'],
        "bounded": [],
        "trusted_base": ['assumed collaborator contracts in contracts/collab.py (XmlMeta lookups are functions of their arguments, build_node/bind_attr/bind_value raise only library errors)', 'balanced start/end events'],
        "assumptions": [],
    },
    "C05": {
        "min_obligations": 50,
        "canaries": [],
        "decided": ["bool: 'true'/'false' out; every XSD lexical form with XSD whitespace in; anything else ConverterError", 'int: -?[0-9]+ out denoting the value; every [+-]?[0-9]+ with XSD whitespace in, with its value; only ConverterError', 'str pass-through; xsi:type datatype narrowest of short/int/long/integer', 'QName resolution: prefixed and unprefixed forms with padding resolve through the in-scope map, unknown prefix / non-NCName => ConverterError', 'ConverterFactory.serialize: None, scalar through the registered converter with the same options, token list item-wise', 'EnumConverter.deserialize matches the stripped text; ProxyConverter maps ValueError to ConverterError'],
        "not_decided": ['float / Decimal lexical validity and round trip (repr(float), Decimal.__format__ are C code)', 'bytes (base16/base64), date/time format converters (strptime)', 'type priority table / sort_types / ConverterFactory.deserialize candidate loop / test(strict)', 'NCName production of is_ncname (character loop)'],
        "bounded": [],
        "trusted_base": ['lemma hints about str.strip, int(), str.partition (sampled against CPython on every run)', 'assumed: is_ncname / is_uri are functions of their argument', 'assumed: EnumConverter.match is a function of (candidate, tokens, member value, options)'],
        "assumptions": [],
    },
    "C03": {
        "min_obligations": 100,
        "canaries": [],
        "decided": ['prefix helpers: generate_prefix picks a fresh prefix and keeps every existing binding; load_prefix reuses the first matching prefix; prefix_exists/is_default; split_qname/build_qname against Clark notation and their round trip', 'writer scope machine: add_namespace / add_attribute_namespace (attributes get a non-empty prefix) / reset_default_namespace (unqualified element => no default namespace in scope) / start_tag (child scope is a copy that inherits every binding, parent object untouched) / flush_start (element and attribute namespaces have prefixes in scope at the moment start_element is emitted, exactly one start_element)', 'token lists are serialized item by item with the same options (prefix map reaches QName items)'],
        "not_decided": ['order/nesting of events produced by EventGenerator for arbitrary models', 'start_namespaces diff against the parent scope, end_tag, encode_data, set_data (assumed call views)', 'escaping / character-level well-formedness (XMLGenerator, lxml)', 'legality of user supplied prefixes (xmlns, 1a) and hostile URIs'],
        "bounded": [],
        "trusted_base": ['assumed: abstract SAX callbacks have no effect on the handler', 'writer stacks deeper than two scopes behave like the two-scope case (only the top two entries are read)'],
        "assumptions": ['XMLGenerator / lxml consume the forwarded events as documented'],
    },
    "C06": {
        "min_obligations": 30,
        "canaries": [
            {"name": "mdays-feb-29", "function": "xsdata.utils.dates:monthlen", "module": "xsdata.utils.dates",
             "target": "mdays", "old": "28", "new": "29"},
            {"name": "format_offset-unsigned", "function": "xsdata.utils.dates:format_offset", "module": "xsdata.utils.dates",
             "target": "format_offset", "old": "sign = '-'", "new": "sign = '+'"},
        ],
        "decided": ['validate_date / validate_time / monthlen against the proleptic Gregorian calendar', 'format_date / format_time / format_offset produce a valid XSD lexical form denoting exactly the components (any of the 1-9 fraction digit spellings)', 'scanner leaves: cursor movement, raised exceptions, loop termination', 'XmlDate/XmlTime/XmlDateTime.from_string: returns only real calendar dates / times of day, raises only ValueError', 'XmlTime and XmlDateTime ==, !=, <, <=, >, >= agree with XSD timeOnTimeline (exact integers)'],
        "not_decided": ['every valid lexical form is accepted with the components XSD assigns (needs the array-encoded scanner proof)', 'XmlDuration, XmlPeriod shapes', 'to_datetime/from_datetime and friends', 'hash consistency with equality'],
        "bounded": [],
        "trusted_base": ["py_pad model of format(n, '0Nd') (sampled against CPython)", 'generator parse() executed eagerly (consumers unpack immediately)'],
        "assumptions": ['python ints as mathematical integers (exact)'],
    },
}
