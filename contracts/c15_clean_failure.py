from pyvc.contracts import Contract, Loop, assume_method
from . import collab

NODES = "xsdata.formats.dataclass.parsers.nodes"
H = "xsdata.formats.dataclass.parsers.handlers.native:XmlEventHandler"
ALLOWED = {"ParserError": True, "ConverterError": True, "XmlContextError": True, "XmlHandlerError": True}


def register(db):
    collab.declare(db)
    register_wild(db)
    register_union_bind(db)
    register_pop_wrapper(db)
    register_skip_node_scope(db)
    register_element_bind(db)
    register_leaf_nodes(db)
    register_element_text(db)
    register_bind_var(db)
    register_bind_attr(db)
    register_bind_object(db)
    register_bind_any_attr(db)
    register_leaf_children(db)
    P = ["C15"]
    assume_method(db, "NodeParserObj", "start", raises=["ParserError", "ConverterError", "XmlContextError"])
    assume_method(db, "NodeParserObj", "end", returns="bool", raises=["ParserError", "ConverterError", "XmlContextError"])
    assume_method(db, "NodeParserObj", "register_namespace")
    for f in ("tag", "attrib", "text", "tail"):
        collab.field(db, "Any", f, "u:Any")
    assume_method(db, "Any", "clear")
    db.add(Contract(f"{H}.merge_parent_namespaces", variant="call-view", trusted=True, call_default=True, params={},
                    returns="dict[str|None,str]", raises={},
                    note="call-site view; the merge itself is verified in c09_infoset"))

    def handler(mk, base):
        return mk.obj(H, {"parser": "opaque:NodeParserObj", "clazz": "opaque:type", "queue": "opaque:NodeQueue",
                          "objects": "opaque:PyList"})

    db.opaque_isinst[("PyList", "list")] = True
    db.add(Contract(
        f"{H}.process_context",
        params={"self": handler, "context": "seq[tuple[str,u:Any]]", "ns_map": "opaque:PyDict"},
        ensures=[("every-event-of-the-document-is-consumed", "loops_exhausted()")],
        # ValueError/IndexError/KeyError: artefacts of abstracting the shape of iterparse elements and of the
        # objects list (start-ns payloads are 2-tuples, objects entries are pairs) - assumed not to occur
        raises={**ALLOWED, "ValueError": True, "IndexError": True, "KeyError": True},
        loops=[Loop(invariants=[], header="context", modifies=["element_ns_map"], vars={"element_ns_map": "dict[u:Any|None,u:Any]"},
                    step=[
                        # C09: the in-scope map of an element is its parent's map plus *every* declaration the element carries
                        ("every-declaration-of-the-element-is-collected",
                         "implies(event == 'start-ns', prefix in element_ns_map and element_ns_map[prefix] == uri)"),
                        ("declarations-are-handed-over-with-the-start-event-and-reset",
                         "implies(event == 'start', len(element_ns_map) == 0 and called('XmlEventHandler.merge_parent_namespaces') == 1 "
                         "and called('NodeParserObj.start') == 1)"),
                    ])],
        properties=P + ["C08", "C09"],
        note="a well-formedness error detected by expat after the root element is delivered by the event iterator: the loop must drain it",
    ))
    # ------------------------------------------------------------------ union node: recorded events keep each element's own scope
    U = f"{NODES}.union:UnionNode"

    def union(mk, base):
        return mk.obj(U, {"meta": "opaque:XmlMeta", "var": "opaque:XmlVar", "attrs": "opaque:PyDict", "ns_map": "opaque:PyDict",
                          "position": "int", "config": "opaque:ParserConfig", "context": "opaque:XmlContext", "level": "int",
                          "candidates": "opaque:PyList", "events": "opaque:PyList"})

    db.add(Contract(
        f"{U}.child",
        params={"self": union, "qname": "str", "attrs": "opaque:PyDict", "ns_map": "opaque:PyDict", "position": "int"},
        ensures=[
            ("same-node-collects-the-subtree", "result is self and self.level == old(self.level) + 1"),
            ("records-a-start-event", "called('PyList.append') == 1 and call_arg('PyList.append', 0)[0] == 'start' and call_arg('PyList.append', 0)[1] == qname"),
            ("with-the-element-own-in-scope-namespaces", "call_arg('PyList.append', 0)[3] is ns_map"),
            ("with-a-copy-of-the-element-attributes", "call_arg('PyList.append', 0)[2] == uf('copy.deepcopy', 'u:PyDict', attrs)"),
        ],
        raises={}, modifies=["self.level"], properties=["C09", "C15"],
    ))


def register_union_bind(db):
    """UnionNode.bind: the recorded events are replayed for every candidate type with the parser configuration of the
    caller, made strict about conversion failures only (C10: leniency about unknown content also holds inside a
    union field)."""
    U = f"{NODES}.union:UnionNode"

    def union(mk, base):
        return mk.obj(U, {"meta": "opaque:XmlMeta", "var": "opaque:XmlVar", "attrs": "opaque:PyDict", "ns_map": "opaque:PyDict",
                          "position": "int", "config": "opaque:ParserConfig", "context": "opaque:XmlContext", "level": "int",
                          "candidates": "seq[u:type]", "events": "opaque:PyList"})

    def node_parser_ctor(ex, st, cref, args, kwargs):
        """NodeParser(config=..., context=..., handler=...) as a plain record: which configuration the candidate
        parser gets is what the contract below talks about."""
        from pyvc.values import Obj
        o = Obj(f"{cref.module}:{cref.qualname}", dict(kwargs))
        yield st, st.alloc(o)

    db.ctors[("xsdata.formats.dataclass.parsers.bases", "NodeParser")] = node_parser_ctor
    db.add(Contract("xsdata.formats.dataclass.parsers.bases:NodeParser.parse", variant="call-view", trusted=True, call_default=True,
                    params={}, returns="u:Any", raises={"ParserError": True, "ConverterError": True, "XmlContextError": True},
                    note="call-site view of NodeParser.parse: an object or one of the documented errors"))
    db.add(Contract(
        f"{U}.bind", variant="outermost-end-event",
        params={"self": union, "qname": "str", "text": "str|None", "tail": "str|None", "objects": "opaque:PyList"},
        requires=["self.level == 0", "len(qname) > 0"],
        ensures=[("candidates-see-the-caller-configuration-strict-about-conversion-only",
                  "called('dataclasses.replace') == 1 and call_arg('dataclasses.replace', 0) is self.config and "
                  "call_kwarg_names('dataclasses.replace') == ('fail_on_converter_warnings',) and "
                  "call_kwarg('dataclasses.replace', 'fail_on_converter_warnings') == True"),
                 ("binds-or-fails", "result == True")],
        raises={"ParserError": True},
        loops=[Loop(invariants=[], header="self.candidates",
                    vars={"obj": "u:Any|None", "max_score": "real", "result": "u:Any|None", "score": "real", "parser": "u:Any"})],
        properties=["C10", "C15"],
    ))


def register_wild(db):
    from .c10_strictness import element_node

    EL = f"{NODES}.element:ElementNode"
    assume_method(db, "Any", "append", mutates=True)
    collab.field(db, "Any", "children", "u:PyList")
    assume_method(db, "type", "__call__", returns="u:Any")
    db.add(Contract(f"{EL}.prepare_generic_value", trusted=True, params={}, returns="u:Any", raises={"ConverterError": True},
                    note="assumed: wraps primitives into a generic element"))
    db.add(Contract("xsdata.formats.dataclass.parsers.utils:PendingCollection.__init__", trusted=True, params={}, raises={}))
    db.add(Contract(
        f"{EL}.bind_wild_var",
        params={"self": element_node, "params": "opaque:PyDict", "var": "opaque:XmlVar", "qname": "str", "value": "opaque:Any"},
        # AnyElement (the generic element class of the class type) declares a qname field
        assumes=["forall('u:Any', lambda x: implies(uf('isinstance_dyn_Any_type', 'bool', x, self.context.class_type.any_element), uf('hasattr_qname', 'bool', x)))"],
        ensures=[("wildcards-absorb-any-value", "result == True")],
        raises={"ConverterError": True, "KeyError": True},
        properties=["C15", "C11"],
        note="KeyError is an artefact of the abstract params dict (the read is guarded by a membership test)",
    ))


def register_pop_wrapper(db):
    """ElementNode.pop_wrapper: looking up the wrapper of the next child never fails - a child of a name whose
    recorded wrappers are used up (a misplaced extra item) has no wrapper."""
    from pyvc.contracts import pure_result

    EL = f"{NODES}.element:ElementNode"
    assume_method(db, "WrapperMap", "get", returns="u:StrList|None", pure=True)

    def pop(ex, st, recv, args, kwargs):
        """list.pop(0): IndexError on an empty list (an empty list is falsy), else the first name"""
        for st1, nonempty in ex.branch(st, ex.truthy(st, recv)):
            if nonempty:
                yield st1, pure_result(ex, st1, "StrList.first", "str", [recv])
            else:
                yield ex.raise_(st1, "IndexError")

    assume_method(db, "StrList", "pop", custom=pop, mutates=True)

    def node(mk, base):
        return mk.obj(EL, {"wrappers": "opaque:WrapperMap"})

    db.add(Contract(
        f"{EL}.pop_wrapper",
        params={"self": node, "qname": "str"},
        ensures=[], raises={}, returns="str|None", properties=["C15", "C10"],
        note="the recorded wrapper names per child name are lists: popping from an exhausted one must not happen",
    ))


def register_skip_node_scope(db):
    """A skipped (unknown, tolerated) subtree: the SkipNode on the queue must answer `.ns_map`, otherwise the next start
    event inside that subtree ends in an AttributeError instead of being skipped (C15), for the native handler only."""
    db.add(Contract(
        "verif_harness:skip_node_scope", params={},
        ensures=[("a-skipped-subtree-has-a-scope", "len(result) >= 0")],
        raises={}, properties=["C15", "C10"],
        note="harness over the real SkipNode constructor (inlined): reading ns_map of a fresh SkipNode raises nothing",
    ))


def register_element_bind(db):
    """ElementNode.bind: the object for an ending element is built by the configured class factory from the bound
    parameters; a document that leaves a required constructor argument out (or gives one the class does not take) makes
    that factory raise TypeError - which must reach the caller as the library's ParserError, like in the JSON decoder."""
    from .c10_strictness import element_node, NODES
    EL = f"{NODES}.element:ElementNode"
    db.add(Contract(f"{EL}.bind_attrs", variant="call-view", trusted=True, call_default=True, params={}, modifies=["params"],
                    raises={"ParserError": True, "ConverterError": True},
                    note="call-site view (the function itself is verified: strictness and attribute order)"))
    db.add(Contract(f"{EL}.bind_content", variant="call-view", trusted=True, call_default=True, params={}, modifies=["params"],
                    raises={"ParserError": True, "ConverterError": True, "XmlContextError": True}))
    collab.field(db, "XmlMeta", "nillable", "bool")
    NIL = "(self.xsi_nil is not None and self.xsi_nil)"
    CF = "ParserConfig.class_factory"
    db.add(Contract(
        f"{EL}.bind", variant="object-construction",
        params={"self": element_node, "qname": "str", "text": "str|None", "tail": "str|None", "objects": "opaque:PyList"},
        ensures=[("always-succeeds-when-it-returns", "result == True"),
                 ("the-object-is-queued-under-the-element-name", "called('PyList.append') >= 1 and call_arg('PyList.append', 0, 0)[0] == qname"),
                 ("a-nil-element-of-a-non-nillable-class-binds-nothing",
                  f"implies({NIL} and not self.meta.nillable, called('{CF}') == 0 and called('ElementNode.bind_attrs') == 0 and called('ElementNode.bind_content') == 0)"),
                 ("otherwise-attributes-and-content-are-bound-into-the-parameters-the-object-is-built-from",
                  f"implies(not ({NIL} and not self.meta.nillable), called('ElementNode.bind_attrs') == 1 and called('ElementNode.bind_content') == 1 and "
                  f"called('{CF}') == 1 and returned('{CF}') == 1 and call_arg('{CF}', 0) is self.meta.clazz and "
                  f"call_arg('{CF}', 1) is call_arg('ElementNode.bind_attrs', 1) and call_arg('{CF}', 1) is call_arg('ElementNode.bind_content', 1) and "
                  f"call_arg('ElementNode.bind_content', 2) == text and call_arg('ElementNode.bind_content', 4) is objects)"),
                 ("a-derived-element-factory-wraps-the-object-under-the-element-name-with-its-xsi-type",
                  "ite(uf('truthy_Any', 'bool', self.derived_factory), called('Any.__call__') == 1 and call_recv('Any.__call__') is self.derived_factory and "
                  "call_kwarg('Any.__call__', 'qname') == qname and call_kwarg('Any.__call__', 'type') == self.xsi_type and "
                  "call_arg('PyList.append', 0, 0)[1] is call_result('Any.__call__'), called('Any.__call__') == 0)"),
                 ("without-a-derived-wrapper-the-built-object-itself-is-queued",
                  f"implies(not ({NIL} and not self.meta.nillable) and called('Any.__call__') == 0, call_arg('PyList.append', 0, 0)[1] is call_result('{CF}'))"),
                 ("a-tail-that-was-not-consumed-is-queued-after-the-object",
                  "implies(not self.tail_processed and not (tail is None or py_strip(tail) == ''), called('PyList.append') == 2 and "
                  "call_arg('PyList.append', 0, 1)[0] is None and call_arg('PyList.append', 0, 1)[1] == tail) and "
                  "implies(self.tail_processed or tail is None or py_strip(tail) == '', called('PyList.append') == 1)")],
        raises={"ParserError": True, "ConverterError": True, "XmlContextError": True},
        properties=["C15", "C10"],
        note="class_factory is an assumed collaborator that may raise TypeError (missing / unexpected constructor argument)",
    ))


def register_leaf_nodes(db):
    """PrimitiveNode.bind / StandardNode.bind: the text of a leaf element is converted once, by the field's converter
    under the parser options, with the prefix map of *that* element (QName content); only documented errors escape."""
    from .c10_strictness import NODES
    PV = "ParserUtils.parse_var"
    collab.field(db, "XmlMeta", "mixed_content", "bool")
    collab.field(db, "DataType", "type", "u:type")
    collab.field(db, "DataType", "format", "str|None")
    collab.field(db, "DataType", "wrapper", "u:Wrapper")  # a bytes subclass (XmlHexBinary / XmlBase64Binary) or None
    assume_method(db, "Wrapper", "__call__", returns="u:Any")
    def types_has(ex, st, v, item):
        # membership in the declared types of a field: a function of (types, item); a class given by name (bytes) is
        # identified by that name
        from pyvc.contracts import pure_result
        from pyvc.values import ClassRef, TypeRef
        key = item.name if isinstance(item, TypeRef) else (f"{item.module}.{item.qualname}" if isinstance(item, ClassRef) else item)
        yield st, pure_result(ex, st, "Types.has", "bool", [v, key])

    db.opaque_ops[("Types", "contains")] = types_has

    def primitive(mk, base):
        return mk.obj(f"{NODES}.primitive:PrimitiveNode", {"meta": "opaque:XmlMeta", "var": "opaque:XmlVar", "ns_map": "opaque:PyDict",
                                                           "config": "opaque:ParserConfig"})

    def standard(mk, base):
        return mk.obj(f"{NODES}.standard:StandardNode", {"meta": "opaque:XmlMeta", "var": "opaque:XmlVar", "datatype": "opaque:DataType",
                                                         "ns_map": "opaque:PyDict", "config": "opaque:ParserConfig", "nillable": "bool",
                                                         "derived_factory": "opaque:Any"})

    ARGS = {"qname": "str", "text": "str|None", "tail": "str|None", "objects": "opaque:PyList"}
    COMMON = [("always-succeeds-when-it-returns", "result == True"),
              ("the-text-is-converted-once-in-the-element-own-scope",
               f"called('{PV}') == 1 and call_arg('{PV}', 1) is self.meta and call_arg('{PV}', 2) is self.var and "
               f"call_arg('{PV}', 3) is self.config and call_arg('{PV}', 4) == text and call_arg('{PV}', 5) is self.ns_map"),
              ("the-value-is-queued-under-the-element-name", "called('PyList.append') >= 1 and call_arg('PyList.append', 0, 0)[0] == qname")]
    R = f"call_result('{PV}')"
    Q = "call_arg('PyList.append', 0, 0)[1]"
    BLANK_TAIL = "(tail is None or py_strip(tail) == '')"
    PRIM = COMMON + [
        ("a-converted-value-is-queued-as-it-is", f"implies({R} is not None, {Q} is {R})"),
        ("an-empty-nillable-leaf-is-none", f"implies({R} is None and self.var.nillable, {Q} is None)"),
        ("an-empty-leaf-is-the-empty-string-or-empty-bytes",
         f"implies({R} is None and not self.var.nillable, {Q} == ite(uf('Types.has', 'bool', self.var.types, 'bytes'), b'', ''))"),
        ("tail-text-is-queued-only-for-mixed-content",
         f"called('PyList.append') == ite(self.meta.mixed_content and not {BLANK_TAIL}, 2, 1)")]
    db.add(Contract(f"{NODES}.primitive:PrimitiveNode.bind", params={"self": primitive, **ARGS}, ensures=PRIM,
                    raises={"ParserError": True, "ConverterError": True}, properties=["C15", "C09"]))
    db.add(Contract(f"{NODES}.standard:StandardNode.bind", params={"self": standard, **ARGS},
                    ensures=COMMON + [("converted-as-the-xsi-type-datatype",
                                       f"call_arg('{PV}', 7)[0] is self.datatype.type and call_arg('{PV}', 9) == self.datatype.format"),
                                      # pre-condition of the wrapper classes (bytes subclasses: bytes(x) of a str is a TypeError)
                                      ("the-binary-wrapper-is-applied-only-to-a-value-of-the-datatype-python-type",
                                       "implies(called('Wrapper.__call__') == 1, isinstance(call_arg('Wrapper.__call__', 0), self.datatype.type))"),
                                      ("a-plain-value-is-queued-as-converted",
                                       f"implies(called('Wrapper.__call__') == 0 and called('Any.__call__') == 0 and {R} is not None, {Q} is {R})"),
                                      ("an-empty-nillable-value-is-none",
                                       f"implies(called('Wrapper.__call__') == 0 and called('Any.__call__') == 0 and {R} is None and self.nillable, {Q} is None)"),
                                      ("one-object-is-queued", "called('PyList.append') == 1"),
                                      ("a-derived-element-factory-wraps-the-value-under-the-element-name",
                                       f"ite(uf('truthy_Any', 'bool', self.derived_factory), called('Any.__call__') == 1 and call_recv('Any.__call__') is self.derived_factory "
                                       f"and call_kwarg('Any.__call__', 'qname') == qname and {Q} is call_result('Any.__call__'), called('Any.__call__') == 0)")],
                    raises={"ParserError": True, "ConverterError": True}, properties=["C15", "C09"]))


def register_element_text(db):
    """ElementNode.bind_text: the text content of an element with a text field is converted once by parse_var with the
    element's own prefix map; an xsi:nil element without text binds None; nothing is bound when the class has no text
    field or there is no text (and the element is not nil)."""
    from .c10_strictness import element_node, NODES
    EL = f"{NODES}.element:ElementNode"
    PV = "ParserUtils.parse_var"
    collab.field(db, "XmlMeta", "text", "u:XmlVar|None")
    NIL = "(self.xsi_nil is not None and self.xsi_nil)"
    HAS_TEXT = "(text is not None and len(text) > 0)"
    db.add(Contract(
        f"{EL}.bind_text", params={"self": element_node, "params": "dict[str,u:Any|None]", "text": "str|None"},
        ensures=[("nothing-to-bind", f"implies(self.meta.text is None or (text is None and not {NIL}), result == False and same_dict(params, old(params)))"),
                 ("a-nil-element-without-text-binds-none",
                  f"implies(self.meta.text is not None and {NIL} and not {HAS_TEXT}, result == True and called('{PV}') == 0)"),
                 ("text-is-converted-once-in-the-element-own-scope",
                  f"implies(self.meta.text is not None and text is not None and not ({NIL} and not {HAS_TEXT}), result == True and called('{PV}') == 1 and "
                  f"call_arg('{PV}', 2) is some(self.meta.text) and call_arg('{PV}', 3) is self.config and call_arg('{PV}', 4) == text and call_arg('{PV}', 5) is self.ns_map)"),
                 ("the-converted-text-is-stored-under-the-field-name-or-checked-against-the-fixed-value",
                  f"implies(called('{PV}') == 1 and some(self.meta.text).init, some(self.meta.text).name in params and params[some(self.meta.text).name] is call_result('{PV}')) and "
                  f"implies(called('{PV}') == 1 and not some(self.meta.text).init, called('ParserUtils.validate_fixed_value') == 1 and same_dict(params, old(params)))")],
        raises={"ParserError": True, "ConverterError": True}, returns="bool", modifies=["params"], properties=["C15", "C09"],
    ))


def register_bind_var(db):
    """ElementNode.bind_var: a child object goes into its field - a repeating field collects the objects in document
    order (a pending collection is started by the first), a single-valued field takes the first object only: a second
    one is refused (False: the caller looks for another field or reports the element), nothing is overwritten."""
    from .c10_strictness import NODES
    EL = f"{NODES}.element:ElementNode"

    def cls_ref(mk, base):
        from pyvc.values import ClassRef
        return ClassRef(f"{NODES}.element", "ElementNode")

    def pending(ex, st, cref, args, kwargs):
        from pyvc.values import Opaque
        st.trace.append(("call", "PendingCollection", None, tuple(args), ()))  # an abstract collection; its arguments on the ghost trace
        yield st, Opaque("Any")

    db.ctors[("xsdata.formats.dataclass.parsers.utils", "PendingCollection")] = pending
    assume_method(db, "Any", "append", mutates=True)
    db.add(Contract(
        f"{EL}.bind_var", params={"cls": cls_ref, "params": "dict[str,u:Any]", "var": "opaque:XmlVar", "value": "opaque:Any"},
        ensures=[("a-second-object-for-a-single-valued-field-is-refused-and-nothing-is-overwritten",
                  "implies(var.init and not var.list_element and var.name in old(params), result == False and same_dict(params, old(params)))"),
                 ("the-first-object-of-a-single-valued-field-is-stored",
                  "implies(var.init and not var.list_element and not (var.name in old(params)), result == True and params[var.name] is value)"),
                 ("a-repeating-field-always-accepts", "implies(var.init and var.list_element, result == True)"),
                 ("the-first-object-of-a-repeating-field-starts-a-collection-holding-it",
                  "implies(var.init and var.list_element and not (var.name in old(params)), called('PendingCollection') == 1 and "
                  "len(call_arg('PendingCollection', 0)) == 1 and call_arg('PendingCollection', 0)[0] is value and call_arg('PendingCollection', 1) is var.factory "
                  "and var.name in params)"),
                 ("later-objects-of-a-repeating-field-are-appended-to-what-is-there",
                  "implies(var.init and var.list_element and var.name in old(params), called('Any.append') == 1 and call_arg('Any.append', 0) is value "
                  "and call_recv('Any.append') is old(params)[var.name] and same_dict(params, old(params)))"),
                 ("a-field-that-is-not-a-constructor-argument-is-skipped", "implies(not var.init, result == True and same_dict(params, old(params)))")],
        raises={}, returns="bool", modifies=["params"], properties=["C10", "C15"],
    ))


def register_bind_attr(db):
    """ElementNode.bind_attr: the value of a declared attribute is converted once by parse_var under the parser options
    with the element's own prefix map (QName-valued attributes), and stored under the field name - or, for a field that
    is no constructor argument, only checked against its fixed value."""
    from .c10_strictness import element_node, NODES
    EL = f"{NODES}.element:ElementNode"
    PV, VF = "ParserUtils.parse_var", "ParserUtils.validate_fixed_value"
    db.add(Contract(
        f"{EL}.bind_attr", variant="converted-in-the-element-scope",
        params={"self": element_node, "params": "dict[str,u:Any|None]", "var": "opaque:XmlVar", "value": "opaque:Any"},
        ensures=[("converted-once-in-the-element-own-scope",
                  f"called('{PV}') == 1 and call_arg('{PV}', 1) is self.meta and call_arg('{PV}', 2) is var and call_arg('{PV}', 3) is self.config "
                  f"and call_arg('{PV}', 4) is value and call_arg('{PV}', 5) is self.ns_map"),
                 ("stored-under-the-field-name", f"implies(var.init, var.name in params and params[var.name] is call_result('{PV}'))"),
                 ("a-fixed-field-is-only-checked", f"implies(not var.init, same_dict(params, old(params)) and called('{VF}') == 1 and call_arg('{VF}', 3) is call_result('{PV}'))")],
        raises={"ParserError": True, "ConverterError": True}, modifies=["params"], properties=["C15", "C09", "C10"],
    ))


def register_bind_object(db):
    """ElementNode.bind_object: a parsed child object is offered to the fields declared for its name, in declaration
    order; a field that belongs to another wrapper element than the one the child came in is never offered it; a
    wildcard field absorbs it; the first field that accepts ends the search; False when none did."""
    from .c10_strictness import element_node, NODES
    EL = f"{NODES}.element:ElementNode"
    BV, BW = "ElementNode.bind_var", "ElementNode.bind_wild_var"
    db.add(Contract(f"{EL}.bind_wild_var", variant="call-view", trusted=True, call_default=True, params={}, returns="bool", modifies=["params"],
                    raises={"ParserError": True, "ConverterError": True}, call_ensures=["result == True"],
                    note="call-site view (verified under C15: always true, wildcard fields absorb any value)"))
    db.add(Contract(f"{EL}.bind_var", variant="call-view", trusted=True, call_default=True, params={}, returns="bool", modifies=["params"], raises={},
                    note="call-site view (the function itself is verified: repeating / single-valued / non-init fields)"))
    db.add(Contract(f"{EL}.pop_wrapper", variant="call-view", trusted=True, call_default=True, params={}, returns="str|None", raises={},
                    modifies=["self.wrappers"], note="call-site view (verified under C15)"))
    W = "call_result('ElementNode.pop_wrapper')"
    OTHER = f"({W} is not None and len({W}) > 0 and var.wrapper_qname != {W})"
    db.add(Contract(
        f"{EL}.bind_object", params={"self": element_node, "params": "opaque:PyDict", "qname": "str", "value": "opaque:Any"},
        ensures=[("the-wrapper-the-child-came-in-is-looked-up-once", "called('ElementNode.pop_wrapper') == 1 and call_arg('ElementNode.pop_wrapper', 1) == qname"),
                 ("true-only-when-a-field-took-the-object",
                  f"implies(result == True, called('{BW}') == 1 or (called('{BV}') == 1 and call_result('{BV}') == True))"),
                 ("false-only-when-the-search-ran-out", f"implies(result == False, called('{BW}') == 0 and called('{BV}') == 0)")],
        raises={"ParserError": True, "ConverterError": True}, returns="bool",
        loops=[Loop(invariants=[], header="self.meta.find_children(qname)",
                    step=[("a-field-of-another-wrapper-is-never-offered-the-object", f"implies({OTHER}, called('{BV}') == 0 and called('{BW}') == 0)"),
                          ("a-wildcard-field-absorbs-it", f"implies(not {OTHER} and var.is_wildcard, called('{BW}') == 1 and called('{BV}') == 0 and "
                                                           f"call_arg('{BW}', 2) is var and call_arg('{BW}', 3) == qname and call_arg('{BW}', 4) is value)"),
                          ("any-other-field-is-offered-the-object-once", f"implies(not {OTHER} and not var.is_wildcard, called('{BV}') == 1 and called('{BW}') == 0 and "
                                                                         f"call_arg('{BV}', 2) is var and call_arg('{BV}', 3) is value)")])],
        modifies=["self.wrappers"], properties=["C10", "C15"],
    ))


def register_bind_any_attr(db):
    """ElementNode.bind_any_attr: an undeclared attribute the wildcard admits is stored under its expanded name with its
    value expanded (prefix -> Clark notation) in the *element's own* prefix map."""
    from .c10_strictness import element_node, NODES
    EL = f"{NODES}.element:ElementNode"
    PA = "ParserUtils.parse_any_attribute"
    db.add(Contract(f"xsdata.formats.dataclass.parsers.utils:{PA}", variant="call-view", trusted=True, call_default=True, params={},
                    returns="str", raises={}, note="call-site view (the function itself is verified under C09: only bound prefixes are expanded)"))
    db.add(Contract(
        f"{EL}.bind_any_attr", variant="expanded-in-the-element-scope",
        params={"self": element_node, "params": "opaque:PyDict", "var": "opaque:XmlVar", "qname": "str", "value": "str"},
        ensures=[("the-value-is-expanded-once-in-the-element-own-scope",
                  f"called('{PA}') == 1 and call_arg('{PA}', 1) == value and call_arg('{PA}', 2) is self.ns_map")],
        raises={"KeyError": True}, modifies=["params"], properties=["C09"],
        note="KeyError: artefact of the abstract params dictionary (a read after a write is not tracked)",
    ))


def register_leaf_children(db):
    """PrimitiveNode.child / StandardNode.child: an element inside a leaf (simple-typed) element is refused with the
    library's own context error."""
    from .c10_strictness import NODES
    for mod, cls in (("primitive", "PrimitiveNode"), ("standard", "StandardNode")):
        db.add(Contract(
            f"{NODES}.{mod}:{cls}.child",
            params={"self": f"obj:{NODES}.{mod}:{cls}", "qname": "str", "attrs": "opaque:PyDict", "ns_map": "opaque:PyDict", "position": "int"},
            ensures=[("never-returns-a-node", "False")], raises={"XmlContextError": True}, returns="noreturn", properties=["C15"],
        ))
