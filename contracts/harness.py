"""Lemma harnesses: tiny compositions of repo functions, verified call-by-contract.

pyvc executes these bodies symbolically; every call below resolves to the *contract* of the real
function, so each harness contract is a lemma over those contracts (DESIGN.md section 2.3).
"""
from xsdata.utils.namespaces import build_qname, split_qname


def qname_roundtrip(uri, tag):
    return split_qname(build_qname(uri, tag))


from xsdata.formats.converter import QNameConverter


def resolve_under_prefix_renaming(w1, p, p2, l, w2, m, m2):
    """The expanded name does not depend on which prefix is bound to the namespace."""
    a = QNameConverter.resolve(w1 + p + ":" + l + w2, m)
    b = QNameConverter.resolve(w1 + p2 + ":" + l + w2, m2)
    return a, b


from xsdata.formats.dataclass.parsers.nodes.skip import SkipNode


def skip_node_scope():
    """Every node the parser pushes on its queue answers `.ns_map` (the pure-Python handler reads `queue[-1].ns_map`
    to compute the in-scope map of the next element): also the node that stands for a skipped subtree."""
    node = SkipNode()
    return node.ns_map
