"""Lemma harnesses: tiny compositions of repo functions, verified call-by-contract.

pyvc executes these bodies symbolically; every call below resolves to the *contract* of the real
function, so each harness contract is a lemma over those contracts (DESIGN.md section 2.3).
"""
from xsdata.utils.namespaces import build_qname, split_qname


def qname_roundtrip(uri, tag):
    return split_qname(build_qname(uri, tag))
