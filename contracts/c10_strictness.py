from pyvc.contracts import Contract, Loop
from . import collab

NODES = "xsdata.formats.dataclass.parsers.nodes"
XSI = "http://www.w3.org/2001/XMLSchema-instance"


def element_node(mk, base):
    return mk.obj(f"{NODES}.element:ElementNode", {
        "meta": "opaque:XmlMeta", "config": "opaque:ParserConfig", "context": "opaque:XmlContext",
        "attrs": "dict[str,str]", "ns_map": "dict[str|None,str]", "assigned": "set[int]",
        "wrappers": "opaque:PyDict", "position": "int", "xsi_nil": "bool|None", "xsi_type": "str|None",
        "mixed": "bool", "tail_processed": "bool", "derived_factory": "opaque:Any",
    })


def register(db):
    collab.declare(db)
    P = ["C10"]
    db.inline.update({f"{NODES}.skip:SkipNode.__init__"})
    # ------------------------------------------------------------------ skip node
    db.add(Contract(
        f"{NODES}.skip:SkipNode.child",
        params={"self": f"obj:{NODES}.skip:SkipNode", "qname": "str", "attrs": "opaque:PyDict",
                "ns_map": "opaque:PyDict", "position": "int"},
        ensures=[("skips-whole-subtree", "result is self")],
        raises={}, properties=P,
    ))
    db.add(Contract(
        f"{NODES}.skip:SkipNode.bind",
        params={"self": f"obj:{NODES}.skip:SkipNode", "qname": "str", "text": "str|None", "tail": "str|None",
                "objects": "opaque:PyList"},
        ensures=[("binds-nothing", "result == False"), ("objects-untouched", "unmodified(objects)")],
        raises={}, properties=P,
    ))
    # ------------------------------------------------------------------ unknown child element
    db.add(Contract(
        f"{NODES}.element:ElementNode.build_node", trusted=True,
        params={}, returns="u:XmlNode|None",
        raises={"ParserError": True, "ConverterError": True, "XmlContextError": True},
        note="assumed: node construction for a matched field",
    ))
    db.add(Contract(
        f"{NODES}.element:ElementNode.child", variant="unknown-element",
        params={"self": element_node, "qname": "str", "attrs": "opaque:PyDict", "ns_map": "opaque:PyDict",
                "position": "int", "wrapper": "str|None"},
        requires=["len(uf('XmlMeta.find_children', 'seq[u:XmlVar]', self.meta, qname)) == 0"],
        ensures=[
            ("lenient-gives-skip-node", "not self.config.fail_on_unknown_properties"),
            ("skip-node", "type(result).__name__ == 'SkipNode'"),
            ("assigned-unchanged", "forall('int', lambda k: (k in self.assigned) == (k in old(self.assigned)))"),
            ("wrappers-untouched", "unmodified(self.wrappers)"),
        ],
        raises={"ParserError": "self.config.fail_on_unknown_properties"},
        loops=[Loop(invariants=["forall('int', lambda k: (k in self.assigned) == (k in old(self.assigned)))"],
                    header="self.meta.find_children(qname)", modifies=["self.assigned"])],
        properties=P + ["C15"],
    ))
    db.add(Contract(
        f"{NODES}.element:ElementNode.child", variant="any-element",
        params={"self": element_node, "qname": "str", "attrs": "opaque:PyDict", "ns_map": "opaque:PyDict",
                "position": "int", "wrapper": "str|None"},
        ensures=[],
        raises={"ParserError": True, "ConverterError": True, "XmlContextError": True},
        loops=[Loop(invariants=[], header="self.meta.find_children(qname)", modifies=["self.assigned"])],
        properties=P + ["C15"],
    ))

    # ------------------------------------------------------------------ unknown attributes
    EL = f"{NODES}.element:ElementNode"
    db.add(Contract(f"{EL}.bind_attr", trusted=True, params={}, modifies=["params"],
                    raises={"ParserError": True}, note="assumed: binds one declared attribute"))
    db.add(Contract(f"{EL}.bind_any_attr", trusted=True, params={}, modifies=["params"], raises={},
                    note="assumed: binds one attribute to the attribute wildcard"))
    NO_MATCH = ("forall('str', lambda q: uf('XmlMeta.find_attribute', 'u:XmlVar|None', self.meta, q) is None"
                " and uf('XmlMeta.find_any_attributes', 'u:XmlVar|None', self.meta, q) is None)")
    ALL_XSI = f"forall('str', lambda q: implies(q in self.attrs, clark_split(q)[0] == '{XSI}'))"
    db.add(Contract(
        f"{EL}.bind_attrs", variant="all-attributes-unknown",
        params={"self": element_node, "params": "opaque:PyDict"},
        requires=[NO_MATCH, "forall('str', lambda q: implies(q in self.attrs, len(q) > 0))"],
        ensures=[
            ("params-untouched", "unmodified(params)"),
            ("strict-accepts-only-xsi", f"implies(self.config.fail_on_unknown_attributes, {ALL_XSI})"),
        ],
        raises={"ParserError": f"self.config.fail_on_unknown_attributes and not {ALL_XSI}"},
        loops=[Loop(invariants=[
            f"implies(self.config.fail_on_unknown_attributes, forall('int', lambda j: implies(0 <= j and j < _i, clark_split(key_at(self.attrs, j))[0] == '{XSI}')))",
        ], header="self.attrs.items()")],
        properties=P + ["C15"],
    ))
    BA = "ElementNode.bind_any_attr"
    ANY_OF_Q = "uf('XmlMeta.find_any_attributes', 'u:XmlVar|None', self.meta, qname)"
    DECL_OF_Q = "uf('XmlMeta.find_attribute', 'u:XmlVar|None', self.meta, qname)"
    db.add(Contract(
        f"{EL}.bind_attrs", variant="any-attributes",
        params={"self": element_node, "params": "opaque:PyDict"},
        requires=["forall('str', lambda q: implies(q in self.attrs, len(q) > 0))"],
        ensures=[],
        raises={"ParserError": True},
        loops=[Loop(invariants=[], header="self.attrs.items()",
                    step=[("an-attribute-goes-to-the-wildcard-only-if-the-wildcard-admits-that-attribute",
                           f"implies(called('{BA}') == 1, call_arg('{BA}', 2) is {ANY_OF_Q} and call_arg('{BA}', 3) == qname and call_arg('{BA}', 4) == value)"),
                          ("an-undeclared-attribute-the-wildcard-admits-is-bound-to-it",
                           f"implies({DECL_OF_Q} is None and {ANY_OF_Q} is not None, called('{BA}') == 1)"),
                          ("at-most-one-binding-per-attribute", f"called('{BA}') + called('ElementNode.bind_attr') <= 1")])],
        properties=["C15", "C09"],
        note="attribute order (C09): what happens to one attribute depends on that attribute (and, for declared fields, on "
             "whether the field is already taken), never on the undeclared attributes written before it",
    ))

    # ------------------------------------------------------------------ conversion failures
    PU = "xsdata.formats.dataclass.parsers.utils:ParserUtils"
    db.add(Contract(f"{PU}.parse_value", trusted=True, params={}, returns="u:Any",
                    raises={"ConverterError": True},
                    note="assumed: value conversion raises only ConverterError (decided per converter under C05/C15)"))
    db.add(Contract(
        f"{PU}.parse_var",
        params={"meta": "opaque:XmlMeta", "var": "opaque:XmlVar", "config": "opaque:ParserConfig", "value": "opaque:Any",
                "ns_map": "opaque:PyDict", "default": "opaque:Any", "types": "opaque:Types",
                "tokens_factory": "opaque:Any", "format": "str|None"},
        ensures=[
            ("at-most-one-warning", "called('warnings.warn') <= 1"),
            ("failed-conversion-keeps-input", "implies(called('warnings.warn') == 1, result is value)"),
            ("warning-only-when-lenient", "implies(called('warnings.warn') == 1, not config.fail_on_converter_warnings)"),
        ],
        raises={"ParserError": "config.fail_on_converter_warnings and called('warnings.warn') == 0"}, returns="u:Any|None",
        properties=P + ["C15"],
    ))
    # ------------------------------------------------------------------ parser end event
    NP = "xsdata.formats.dataclass.parsers.bases:NodeParser"
    db.add(Contract(
        f"{NP}.end",
        params={"self": f"obj:{NP}", "queue": "opaque:NodeQueue", "objects": "opaque:PyList", "qname": "str",
                "text": "str|None", "tail": "str|None"},
        ensures=[("returns-what-bind-returned", "result == uf('XmlNode.bind', 'bool', uf('NodeQueue.pop', 'u:XmlNode', queue), qname, text, tail, objects)")],
        raises={"ParserError": True, "ConverterError": True, "XmlContextError": True},
        properties=P,
    ))

    # ------------------------------------------------------------------ unknown keys in dictionaries
    DD = "xsdata.formats.dataclass.parsers.dict:DictDecoder"

    def decoder(mk, base):
        return mk.obj(DD, {"config": "opaque:ParserConfig", "context": "opaque:XmlContext"})

    db.add(Contract("xsdata.formats.dataclass.parsers.utils:ParserUtils.validate_fixed_value", trusted=True, params={},
                    raises={"ParserError": True}))
    db.add(Contract(
        f"{DD}.bind_dataclass", variant="only-unknown-keys",
        params={"self": decoder, "data": "dict[str,u:Json|None]", "clazz": "opaque:type"},
        requires=["forall(['str', 'u:Json|None'], lambda k, v: uf('DictDecoder.find_var', 'u:XmlVar|None', "
                  "uf('XmlMeta.get_all_vars', 'seq[u:XmlVar]', uf('XmlContext.build', 'u:XmlMeta', self.context, clazz)), k, v) is None)",
                  "set(data.keys()) != self.context.class_type.derived_keys"],
        ensures=[
            ("lenient-or-no-keys", "not self.config.fail_on_unknown_properties or len(data) == 0"),
            ("unknown-keys-contribute-nothing", "len(call_arg('ParserConfig.class_factory', 1)) == 0"),
        ],
        raises={"ParserError": "(self.config.fail_on_unknown_properties and len(data) > 0) or called('ParserConfig.class_factory') == 1",
                "XmlContextError": True},
        loops=[Loop(invariants=["implies(self.config.fail_on_unknown_properties, _i == 0)", "len(params) == 0"],
                    header="data.items()", modifies=["params"], vars={"params": "dict[str,u:Any]"})],
        properties=P + ["C15"],
    ))
