from pyvc.contracts import Contract, Loop
from . import collab

NODES = "xsdata.formats.dataclass.parsers.nodes"
XSI = "http://www.w3.org/2001/XMLSchema-instance"


def element_node(mk, base):
    return mk.obj(f"{NODES}.element:ElementNode", {
        "meta": "opaque:XmlMeta", "config": "opaque:ParserConfig", "context": "opaque:XmlContext",
        "attrs": "dict[str,str]", "ns_map": "dict[str|None,str]", "assigned": "set[int]",
        "wrappers": "opaque:PyDict", "position": "int", "xsi_nil": "bool|None", "xsi_type": "str|None",
        "mixed": "bool", "tail_processed": "bool", "derived_factory": "opaque:Any",
    })


def register(db):
    collab.declare(db)
    P = ["C10"]
    db.inline.update({f"{NODES}.skip:SkipNode.__init__"})
    # ------------------------------------------------------------------ skip node
    db.add(Contract(
        f"{NODES}.skip:SkipNode.child",
        params={"self": f"obj:{NODES}.skip:SkipNode", "qname": "str", "attrs": "opaque:PyDict",
                "ns_map": "opaque:PyDict", "position": "int"},
        ensures=[("skips-whole-subtree", "result is self")],
        raises={}, properties=P,
    ))
    db.add(Contract(
        f"{NODES}.skip:SkipNode.bind",
        params={"self": f"obj:{NODES}.skip:SkipNode", "qname": "str", "text": "str|None", "tail": "str|None",
                "objects": "opaque:PyList"},
        ensures=[("binds-nothing", "result == False"), ("objects-untouched", "unmodified(objects)")],
        raises={}, properties=P,
    ))
    # ------------------------------------------------------------------ unknown child element
    db.add(Contract(
        f"{NODES}.element:ElementNode.build_node", trusted=True,
        params={}, returns="u:XmlNode|None",
        raises={"ParserError": True, "ConverterError": True, "XmlContextError": True},
        note="assumed: node construction for a matched field",
    ))
    db.add(Contract(
        f"{NODES}.element:ElementNode.child", variant="unknown-element",
        params={"self": element_node, "qname": "str", "attrs": "opaque:PyDict", "ns_map": "opaque:PyDict",
                "position": "int", "wrapper": "str|None"},
        requires=["len(uf('XmlMeta.find_children', 'seq[u:XmlVar]', self.meta, qname)) == 0"],
        ensures=[
            ("lenient-gives-skip-node", "not self.config.fail_on_unknown_properties"),
            ("skip-node", "type(result).__name__ == 'SkipNode'"),
            ("assigned-unchanged", "forall('int', lambda k: (k in self.assigned) == (k in old(self.assigned)))"),
            ("wrappers-untouched", "unmodified(self.wrappers)"),
        ],
        raises={"ParserError": "self.config.fail_on_unknown_properties"},
        loops=[Loop(invariants=["forall('int', lambda k: (k in self.assigned) == (k in old(self.assigned)))"],
                    header="self.meta.find_children(qname)", modifies=["self.assigned"])],
        properties=P + ["C15"],
    ))
    db.add(Contract(
        f"{NODES}.element:ElementNode.child", variant="any-element",
        params={"self": element_node, "qname": "str", "attrs": "opaque:PyDict", "ns_map": "opaque:PyDict",
                "position": "int", "wrapper": "str|None"},
        ensures=[],
        raises={"ParserError": True, "ConverterError": True, "XmlContextError": True},
        loops=[Loop(invariants=[], header="self.meta.find_children(qname)", modifies=["self.assigned"])],
        properties=P + ["C15"],
    ))

    # ------------------------------------------------------------------ unknown attributes
    EL = f"{NODES}.element:ElementNode"
    db.add(Contract(f"{EL}.bind_attr", trusted=True, params={}, modifies=["params"],
                    raises={"ParserError": True}, note="assumed: binds one declared attribute"))
    db.add(Contract(f"{EL}.bind_any_attr", trusted=True, params={}, modifies=["params"], raises={},
                    note="assumed: binds one attribute to the attribute wildcard"))
    NO_MATCH = ("forall('str', lambda q: uf('XmlMeta.find_attribute', 'u:XmlVar|None', self.meta, q) is None"
                " and uf('XmlMeta.find_any_attributes', 'u:XmlVar|None', self.meta, q) is None)")
    ALL_XSI = f"forall('str', lambda q: implies(q in self.attrs, clark_split(q)[0] == '{XSI}'))"
    db.add(Contract(
        f"{EL}.bind_attrs", variant="all-attributes-unknown",
        params={"self": element_node, "params": "opaque:PyDict"},
        requires=[NO_MATCH, "forall('str', lambda q: implies(q in self.attrs, len(q) > 0))"],
        ensures=[
            ("params-untouched", "unmodified(params)"),
            ("strict-accepts-only-xsi", f"implies(self.config.fail_on_unknown_attributes, {ALL_XSI})"),
        ],
        raises={"ParserError": f"self.config.fail_on_unknown_attributes and not {ALL_XSI}"},
        loops=[Loop(invariants=[
            f"implies(self.config.fail_on_unknown_attributes, forall('int', lambda j: implies(0 <= j and j < _i, clark_split(key_at(self.attrs, j))[0] == '{XSI}')))",
        ], header="self.attrs.items()")],
        properties=P + ["C15"],
    ))
    db.add(Contract(
        f"{EL}.bind_attrs", variant="any-attributes",
        params={"self": element_node, "params": "opaque:PyDict"},
        requires=["forall('str', lambda q: implies(q in self.attrs, len(q) > 0))"],
        ensures=[],
        raises={"ParserError": True},
        loops=[Loop(invariants=[], header="self.attrs.items()")],
        properties=["C15"],
    ))
