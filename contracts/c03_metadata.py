"""XmlMetaBuilder.build_vars (C03, C07): which namespace and which module globals each field's metadata is built with.

The writer (C03: "element and attribute names and namespaces the binding metadata prescribe") and the reader share this
metadata, so a field bound to the wrong namespace round-trips inside xsdata and is wrong only for an independent reader.
For generated code (C07: "every generated class can be turned into binding metadata") forward references of a field are
resolved against the globals of the module of the class that *declares* the field.
"""
import z3

from pyvc.contracts import Contract
from pyvc.values import BuiltinRef, Opaque, z3sort
from . import collab

B = "xsdata.formats.dataclass.models.builders"


def register(db):
    from pyvc import builtins_calls as bc
    from pyvc.contracts import pure_result

    def get_type_hints(ex, st, args, kwargs):
        yield st, pure_result(ex, st, "typing.get_type_hints", "u:TypeHints", [args[0]])

    bc.FUNCS["typing.get_type_hints"] = get_type_hints
    db.const_overrides[(B, "get_type_hints")] = BuiltinRef("typing.get_type_hints")
    db.const_overrides[("sys", "modules")] = Opaque("SysModules", z3.Const("sys_modules", z3sort(("u", "SysModules"))))
    db.opaque_ops[("SysModules", "getitem")] = lambda ex, st, v, key: iter([(st, Opaque("Module", pure_result(ex, st, "sys_module", "u:Module", [key]).t))])
    db.opaque_ops[("TypeHints", "getitem")] = lambda ex, st, v, key: iter([(st, Opaque("Any", pure_result(ex, st, "type_hint", "u:Any", [v, key]).t))])
    db.opaque_ops[("ClassDict", "contains")] = lambda ex, st, v, item: iter([(st, pure_result(ex, st, "ClassDict.has", "bool", [v, item]))])
    collab.field(db, "Module", "__dict__", "u:ModuleDict")
    collab.field(db, "type", "__module__", "str")
    collab.field(db, "type", "__dict__", "u:ClassDict")
    collab.field(db, "type", "Meta", "u:Any")
    collab.field(db, "Field", "metadata", "u:Any")

    def plain(ex, st, cref, args, kwargs):
        from pyvc.values import Obj
        yield st, st.alloc(Obj(f"{cref.module}:{cref.qualname}", dict(kwargs)))

    db.ctors[(B, "XmlVarBuilder")] = plain
    db.add(Contract(f"{B}:XmlVarBuilder.build", variant="call-view", trusted=True, call_default=True, params={},
                    returns="u:XmlVar|None", raises={"XmlContextError": True},
                    note="call-site view: the field's metadata is built from the arguments (recorded on the ghost trace)"))
    db.add(Contract(f"{B}:XmlMetaBuilder.default_xml_type", variant="call-view", trusted=True, call_default=True, params={},
                    returns="str", raises={"XmlContextError": True}))
    db.add(Contract(f"{B}:XmlMetaBuilder.find_declared_class", variant="call-view", trusted=True, call_default=True, params={},
                    returns="u:type", raises={"XmlContextError": True},
                    call_ensures=["result == uf('declaring_class', 'u:type', clazz, name)"],
                    note="assumed: the class of the MRO that declares the field is a function of (class, field name)"))

    def builder(mk, base):
        # the class has the two arbitrary fields (fld, fld2) that contracts/c18_code.py lets ClassType.get_fields return
        # for a contract variant named "two-fields"
        mk.exports["fld"], mk.exports["fld2"] = db.exports_static["fld"], db.exports_static["fld2"]
        return mk.obj(f"{B}:XmlMetaBuilder", {"class_type": "opaque:ClassType", "globalns": "opaque:Any",
                                               "element_name_generator": "opaque:Any", "attribute_name_generator": "opaque:Any"})

    BUILD = "XmlVarBuilder.build"
    ensures = []
    for i, f in enumerate(("fld", "fld2")):
        D = f"uf('declaring_class', 'u:type', clazz, {f}.name)"
        ensures += [
            (f"field-{i + 1}-declared-by-the-class-itself-gets-the-class-namespace",
             f"implies({D} is clazz, call_arg('{BUILD}', 6, {i}) == namespace)"),
            (f"field-{i + 1}-inherited-from-a-class-without-Meta-gets-the-class-namespace",
             f"implies(not ('Meta' in {D}.__dict__), call_arg('{BUILD}', 6, {i}) == namespace)"),
            (f"field-{i + 1}-forward-references-resolve-in-the-module-of-the-declaring-class",
             f"call_arg('{BUILD}', 8, {i}) is uf('sys_module', 'u:Module', {D}.__module__).__dict__"),
            (f"field-{i + 1}-is-built-for-this-class-under-its-own-name",
             f"call_arg('{BUILD}', 1, {i}) is clazz and call_arg('{BUILD}', 2, {i}) == {f}.name and call_arg('{BUILD}', 5, {i}) == {f}.init"),
        ]
    for i, f in enumerate(("fld", "fld2")):
        D = f"uf('declaring_class', 'u:type', clazz, {f}.name)"
        ensures.append((f"field-{i + 1}-inherited-from-a-class-whose-Meta-names-a-namespace-gets-that-namespace",
                        f"implies({D} is not clazz and 'Meta' in {D}.__dict__ and uf('hasattr_namespace', 'bool', {D}.Meta), "
                        f"call_arg('{BUILD}', 6, {i}) is uf('Any.namespace', 'u:Any', {D}.Meta))"))
    R0, R1 = f"call_result('{BUILD}', 0)", f"call_result('{BUILD}', 1)"
    ensures += [
        ("built-vars-are-yielded-in-field-order-none-is-skipped",
         f"len(result) == ite({R0} is not None, 1, 0) + ite({R1} is not None, 1, 0) and "
         f"implies({R0} is not None, result[0] is {R0}) and implies({R1} is not None, result[-1] is {R1})"),
    ]
    db.add(Contract(
        f"{B}:XmlMetaBuilder.build_vars", variant="two-fields",
        params={"self": builder, "clazz": "opaque:type", "namespace": "str|None", "element_name_generator": "opaque:Any",
                "attribute_name_generator": "opaque:Any"},
        ensures=[("every-field-is-built-once-in-order", f"called('{BUILD}') == 2")] + ensures,
        raises={"XmlContextError": True}, properties=["C03", "C07"],
        note="a class with two fields (the field list of the class is the pair fld, fld2 of arbitrary fields): each field's "
             "namespace and globals are decided by that field alone, not by the fields before it",
    ))
