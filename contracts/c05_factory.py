from pyvc.contracts import Contract, Loop, assume_method
from . import collab

CONV = "xsdata.formats.converter"
F = f"{CONV}:ConverterFactory"
NSMAP = "dict[str|None,str]"
SER = "uf('Converter.serialize', 'str', uf('value_converter', 'u:Converter', {v}), {v}, 'format', {f}, 'ns_map', {m})"


def register(db):
    collab.declare(db)
    assume_method(db, "Converter", "serialize", returns="str", pure=True, raises=["ConverterError"])
    assume_method(db, "Converter", "deserialize", returns="u:Any", pure=True, raises=["ConverterError"])
    collab.field(db, "Any", "__class__", "u:type")
    db.opaque_isinst[("Any", "list")] = "uf"

    def factory(mk, base):
        return mk.obj(F, {"registry": "opaque:PyDict"})

    KW = {"known": {"ns_map": NSMAP + "|None" if False else NSMAP, "format": "str|None"}, "open": False}
    db.add(Contract(f"{F}.value_converter", trusted=True, params={}, returns="u:Converter",
                    raises={"ConverterError": True},
                    call_ensures=["result == uf('value_converter', 'u:Converter', value)"],
                    note="assumed: the registered converter is a function of the value's class"))
    # call-site view (also the induction hypothesis for the token-list recursion)
    db.add(Contract(
        f"{F}.serialize", call_default=True, variant="scalar",
        params={"self": factory, "value": "opaque:Any"}, kwargs=KW,
        requires=["not uf('isinstance_Any_list', 'bool', value)"],
        ensures=[("uses-registered-converter-with-same-options",
                  "result == " + SER.format(v="value", f="kwargs.get('format')", m="kwargs.get('ns_map')"))],
        raises={"ConverterError": True}, returns="str",
        properties=["C05", "C03"],
    ))
    db.add(Contract(
        f"{F}.serialize", variant="none",
        params={"self": factory, "value": None}, kwargs=KW,
        ensures=[("none-stays-none", "result is None")], raises={}, properties=["C05"],
    ))

    def two_items(mk, base):
        a, b = mk.value("opaque:Any", "item0"), mk.value("opaque:Any", "item1")
        mk.env_extra = {"item0": a, "item1": b}
        return mk.plist([a, b])

    db.add(Contract(
        f"{F}.serialize", variant="token-list",
        params={"self": factory, "value": two_items}, kwargs=KW,
        requires=["not uf('isinstance_Any_list', 'bool', value[0])", "not uf('isinstance_Any_list', 'bool', value[1])"],
        ensures=[("items-serialized-with-the-same-options-joined-by-space",
                  "result == " + SER.format(v="value[0]", f="kwargs.get('format')", m="kwargs.get('ns_map')")
                  + " + ' ' + " + SER.format(v="value[1]", f="kwargs.get('format')", m="kwargs.get('ns_map')"))],
        raises={"ConverterError": True},
        properties=["C05", "C03"],
    ))

    # ------------------------------------------------------------------ enums
    E = f"{CONV}:EnumConverter"
    collab.field(db, "Any", "value", "u:Any")
    db.opaque_isinst[("EnumClass", "EnumMeta")] = True
    db.add(Contract(f"{E}.match", trusted=True, params={}, returns="bool", raises={},
                    call_ensures=["result == uf('EnumConverter.match', 'bool', value, values, real, kwargs.get('format'), kwargs.get('ns_map'))"],
                    note="assumed: matching is a function of the candidate text, its tokens, the member value and the options"))
    db.add(Contract(
        f"{E}.deserialize", variant="text",
        params={"self": f"obj:{E}", "value": "str", "data_type": "opaque:EnumClass"}, kwargs=KW,
        ensures=[("surrounding-whitespace-is-insignificant", "call_arg('EnumConverter.match', 1) == py_strip(value)"),
                 ("same-options-for-every-member", "call_arg('EnumConverter.match', 5) is kwargs") if False else
                 ("tokens-of-the-stripped-text", "called('EnumConverter.match') == 1")],
        raises={"ConverterError": True},
        loops=[Loop(invariants=[], header="cast(type[Enum], data_type)")],
        properties=["C05", "C09", "C15"],
    ))
    db.add(Contract(
        f"{E}.deserialize", variant="not-an-enum",
        params={"self": f"obj:{E}", "value": "str", "data_type": None}, kwargs=KW,
        ensures=[("never-returns", "False")], raises={"ConverterError": True},
        properties=["C15"],
    ))
