from pyvc.contracts import Contract, Loop, assume_method
from . import collab

CONV = "xsdata.formats.converter"
F = f"{CONV}:ConverterFactory"
NSMAP = "dict[str|None,str]"
SER = "uf('Converter.serialize', 'str', uf('value_converter', 'u:Converter', {v}), {v}, 'format', {f}, 'ns_map', {m})"


def register(db):
    collab.declare(db)
    assume_method(db, "Converter", "serialize", returns="str", pure=True, raises=["ConverterError"])
    assume_method(db, "Converter", "deserialize", returns="u:Any", pure=True, raises=["ConverterError"])
    collab.field(db, "Any", "__class__", "u:type")
    db.opaque_isinst[("Any", "list")] = "uf"

    def factory(mk, base):
        return mk.obj(F, {"registry": "opaque:PyDict"})

    KW = {"known": {"ns_map": NSMAP + "|None" if False else NSMAP, "format": "str|None"}, "open": False}
    db.add(Contract(f"{F}.value_converter", trusted=True, params={}, returns="u:Converter",
                    raises={"ConverterError": True},
                    call_ensures=["result == uf('value_converter', 'u:Converter', value)"],
                    note="assumed: the registered converter is a function of the value's class"))
    # call-site view (also the induction hypothesis for the token-list recursion)
    db.add(Contract(
        f"{F}.serialize", call_default=True, variant="scalar",
        params={"self": factory, "value": "opaque:Any"}, kwargs=KW,
        requires=["not uf('isinstance_Any_list', 'bool', value)"],
        ensures=[("uses-registered-converter-with-same-options",
                  "result == " + SER.format(v="value", f="kwargs.get('format')", m="kwargs.get('ns_map')"))],
        raises={"ConverterError": True}, returns="str",
        properties=["C05", "C03"],
    ))
    db.add(Contract(
        f"{F}.serialize", variant="none",
        params={"self": factory, "value": None}, kwargs=KW,
        ensures=[("none-stays-none", "result is None")], raises={}, properties=["C05"],
    ))

    def two_items(mk, base):
        a, b = mk.value("opaque:Any", "item0"), mk.value("opaque:Any", "item1")
        mk.env_extra = {"item0": a, "item1": b}
        return mk.plist([a, b])

    db.add(Contract(
        f"{F}.serialize", variant="token-list",
        params={"self": factory, "value": two_items}, kwargs=KW,
        requires=["not uf('isinstance_Any_list', 'bool', value[0])", "not uf('isinstance_Any_list', 'bool', value[1])"],
        ensures=[("items-serialized-with-the-same-options-joined-by-space",
                  "result == " + SER.format(v="value[0]", f="kwargs.get('format')", m="kwargs.get('ns_map')")
                  + " + ' ' + " + SER.format(v="value[1]", f="kwargs.get('format')", m="kwargs.get('ns_map')"))],
        raises={"ConverterError": True},
        properties=["C05", "C03"],
    ))

    # ------------------------------------------------------------------ enums
    E = f"{CONV}:EnumConverter"
    collab.field(db, "Any", "value", "u:Any")
    db.opaque_isinst[("EnumClass", "EnumMeta")] = True
    db.add(Contract(f"{E}.match", trusted=True, params={}, returns="bool", raises={},
                    call_ensures=["result == uf('EnumConverter.match', 'bool', value, values, real, kwargs.get('format'), kwargs.get('ns_map'))"],
                    note="assumed: matching is a function of the candidate text, its tokens, the member value and the options"))
    db.add(Contract(
        f"{E}.deserialize", variant="text",
        params={"self": f"obj:{E}", "value": "str", "data_type": "opaque:EnumClass"}, kwargs=KW,
        ensures=[("surrounding-whitespace-is-insignificant", "call_arg('EnumConverter.match', 1) == py_strip(value)"),
                 ("same-options-for-every-member", "call_arg('EnumConverter.match', 5) is kwargs") if False else
                 ("tokens-of-the-stripped-text", "called('EnumConverter.match') == 1")],
        raises={"ConverterError": True},
        loops=[Loop(invariants=[], header="cast(type[Enum], data_type)")],
        properties=["C05", "C09", "C15"],
    ))
    register_candidates(db)
    register_test(db)
    register_type_converter(db)
    register_sort_types(db)
    db.add(Contract(
        f"{E}.deserialize", variant="not-an-enum",
        params={"self": f"obj:{E}", "value": "str", "data_type": None}, kwargs=KW,
        ensures=[("never-returns", "False")], raises={"ConverterError": True},
        properties=["C15"],
    ))


def register_candidates(db):
    """ConverterFactory.deserialize(value, types): the candidate types are tried in the given order and the first
    one whose converter accepts the value decides the result; ConverterError iff none accepts."""
    from pyvc.contracts import pure_result

    def conv_deserialize(ex, st, recv, args, kwargs):
        """Assumed contract of a registered converter: whether it accepts (value, data_type, options) is a
        predicate of those, the converted value a function of them; rejection is a ConverterError."""
        dt = kwargs.get("data_type")
        extra = [kwargs.get("format"), kwargs.get("ns_map")] if isinstance(kwargs, dict) else []
        key = [recv, args[0], dt] + [e for e in extra if e is not None]
        ok = pure_result(ex, st, "Converter.accepts", "bool", key)
        for st1, good in ex.branch(st, ok):
            if good:
                yield st1, pure_result(ex, st1, "Converter.value", "u:Any", key)
            else:
                yield ex.raise_(st1, "ConverterError")

    assume_method(db, "Converter2", "deserialize", custom=conv_deserialize)
    db.add(Contract(f"{F}.type_converter", variant="call-view", trusted=True, call_default=True, params={}, returns="u:Converter2",
                    raises={"ConverterError": "not uf('type_converter.registered', 'bool', data_type)"},
                    call_ensures=["result == uf('type_converter', 'u:Converter2', data_type)", "uf('type_converter.registered', 'bool', data_type)"],
                    note="assumed: the registered converter is a function of the type (registry lookup along the mro)"))

    def factory(mk, base):
        return mk.obj(F, {"registry": "opaque:PyDict"})

    ACC = "uf('Converter.accepts', 'bool', uf('type_converter', 'u:Converter2', types[{i}]), value, types[{i}])"
    VAL = "uf('Converter.value', 'u:Any', uf('type_converter', 'u:Converter2', types[{i}]), value, types[{i}])"
    db.add(Contract(
        f"{F}.deserialize", variant="first-accepting-candidate",
        params={"self": factory, "value": "opaque:Any", "types": "seq[u:type]"}, kwargs={"known": {}, "open": False},
        ghost={"i": "int"},
        ensures=[
            # for an arbitrary position i: if the converter of types[i] accepts and no earlier candidate's does, its value is the result
            ("returns-a-converted-value-or-fails", "result is not None"),
            ("the-first-accepting-candidate-decides",
             "implies(0 <= i and i < len(types) and " + ACC.format(i="i") + " and uf('type_converter.registered', 'bool', types[i]) and "
             "forall('int', lambda j: implies(0 <= j and j < i, not (uf('type_converter.registered', 'bool', types[j]) and " + ACC.format(i="j") + "))), "
             "result == " + VAL.format(i="i") + ")"),
        ],
        # (a value is returned only from inside the loop; falling off its end must raise)
        raises={"ConverterError": "forall('int', lambda j: implies(0 <= j and j < len(types), "
                                  "not (uf('type_converter.registered', 'bool', types[j]) and " + ACC.format(i="j") + ")))"},
        loops=[Loop(invariants=["forall('int', lambda j: implies(0 <= j and j < _i, "
                                "not (uf('type_converter.registered', 'bool', types[j]) and " + ACC.format(i="j") + ")))"],
                    header="types")],
        properties=["C05"],
        note="candidate order = priority; which order a field's types are in is decided by sort_types (not under contract)",
    ))


def register_test(db):
    """ConverterFactory.test: a value passes iff it is a string some candidate type's converter accepts - and, when the
    strict flag is set and the converted value is numeric / a period, only if it is the *canonical* spelling of that
    value (the text the converter would write), so that a field typed e.g. int | str keeps '007' as a string."""
    db.add(Contract(f"{F}.deserialize", variant="call-view", trusted=True, call_default=True, params={}, returns="u:Any",
                    raises={"ConverterError": True},
                    note="call-site view (the function itself is verified: the first accepting candidate decides)"))
    for k in ("float", "int", "Decimal", "XmlPeriod"):
        db.opaque_isinst[("Any", k)] = "uf"
    # no Python object is an instance of two of these classes (none of them is a subclass of another; bool is left out)
    db.exclusive_types["Any"] = ["list", "float", "int", "Decimal", "XmlPeriod", "dict", "str"]

    def factory(mk, base):
        return mk.obj(F, {"registry": "opaque:PyDict"})

    DES, SERF = "ConverterFactory.deserialize", "ConverterFactory.serialize"
    D = f"call_result('{DES}')"
    IS = "uf('isinstance_Any_{k}', 'bool', {d})"
    NUMERIC = "(" + " or ".join(IS.format(k=k, d=D) for k in ("float", "int", "Decimal", "XmlPeriod")) + ")"
    NONFINITE = f"({IS.format(k='float', d=D)} and (uf('math.isinf', 'bool', {D}) or uf('math.isnan', 'bool', {D})))"
    for strict in (False, True):
        ens = [("only-strings-can-pass", f"implies(value is None, result == False and called('{DES}') == 0)"),
               ("the-candidates-are-asked-once-about-the-text-as-given",
                f"implies(value is not None, called('{DES}') == 1 and call_arg('{DES}', 1) == value and call_arg('{DES}', 2) == types)"),
               ("a-text-no-candidate-accepts-fails", f"implies(value is not None and returned('{DES}') == 0, result == False)")]
        if not strict:
            ens.append(("an-accepted-text-passes", f"implies(returned('{DES}') == 1, result == True)"))
        else:
            ens += [("non-numeric-results-and-inf-nan-pass", f"implies(returned('{DES}') == 1 and (not {NUMERIC} or {NONFINITE}), result == True)"),
                    ("a-numeric-result-passes-only-in-its-canonical-spelling",
                     f"implies(returned('{DES}') == 1 and {NUMERIC} and not {NONFINITE}, called('{SERF}') == 1 and call_arg('{SERF}', 1) is {D} "
                     f"and result == (py_strip(some(value)) == call_result('{SERF}')))")]
        db.add(Contract(
            f"{F}.test", variant="strict" if strict else "lenient",
            params={"self": factory, "value": "str|None", "types": "seq[u:type]", "strict": strict}, kwargs={"known": {}, "open": False},
            ensures=ens, raises=({"ConverterError": True} if strict else {}), returns="bool", properties=["C05"],
            note="strict: a ConverterError of the re-serialization is not caught by the function" if strict else "",
        ))


def register_type_converter(db):
    """ConverterFactory.type_converter: the converter registered for the type itself, else the one of the nearest base
    class along the MRO (object excluded); ConverterError iff neither the type nor any such base is registered."""
    def factory(mk, base):
        return mk.obj(F, {"registry": "dict[u:type,u:Converter]"})

    MRO = "data_type.__mro__"
    IN = "{t} in self.registry"
    NONE_BEFORE = "forall('int', lambda j: implies(1 <= j and j < {n}, not (" + IN.format(t=f"{MRO}[j]") + ")))"
    db.add(Contract(
        f"{F}.type_converter", variant="registry-lookup-along-the-mro",
        params={"self": factory, "data_type": "opaque:type"}, ghost={"i": "int"},
        requires=[f"len({MRO}) >= 2"],
        ensures=[("a-registered-type-gets-its-own-converter", f"implies({IN.format(t='data_type')}, result is self.registry[data_type])"),
                 ("else-the-converter-of-the-nearest-registered-base",
                  f"implies(not ({IN.format(t='data_type')}) and 1 <= i and i < len({MRO}) - 1 and {IN.format(t=f'{MRO}[i]')} and " + NONE_BEFORE.format(n="i") +
                  f", result is self.registry[{MRO}[i]])")],
        raises={"ConverterError": f"not ({IN.format(t='data_type')}) and " + NONE_BEFORE.format(n=f"len({MRO}) - 1")},
        loops=[Loop(invariants=[NONE_BEFORE.format(n="_i + 1")], header="data_type.__mro__[1:-1]")],
        properties=["C05"],
        note="MRO lookup of the registry (object, the last entry of every MRO, is never consulted)",
    ))


def register_sort_types(db):
    """ConverterFactory.sort_types: the documented priority of candidate types - int before bool before float before
    Decimal ... before str - decides the order, whatever order the caller wrote (checked for every ordered pair of the
    documented primitive types, by evaluating the real function and the real priority table in the engine)."""
    from pyvc.values import ClassRef, TypeRef

    def cls_ref(mk, base):
        return ClassRef(CONV, "ConverterFactory")

    ORDER = [("int", TypeRef("int")), ("bool", TypeRef("bool")), ("float", TypeRef("float")), ("Decimal", ClassRef("decimal", "Decimal")),
             ("QName", ClassRef("xml.etree.ElementTree", "QName")), ("str", TypeRef("str"))]
    for i in range(len(ORDER)):
        for j in range(i + 1, len(ORDER)):
            (na, a), (nb, b) = ORDER[i], ORDER[j]
            for first, second, tag in ((a, b, f"{na}-{nb}"), (b, a, f"{nb}-{na}")):
                db.add(Contract(
                    f"{F}.sort_types", variant=f"pair-{tag}",
                    params={"cls": cls_ref, "types": (lambda x, y: (lambda mk, base: (x, y)))(first, second)},
                    ensures=[(f"{na}-is-tried-before-{nb}", "len(result) == 2 and result[0] is lo and result[1] is hi")],
                    ghost_pre=(lambda lo, hi: (lambda ex, st, env: env.update({"lo": lo, "hi": hi})))(a, b),
                    raises={}, properties=["C05"],
                ))
