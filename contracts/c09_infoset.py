from pyvc.contracts import Contract, Loop
from . import collab

NSMAP = "dict[str|None,str]"
H = "xsdata.formats.dataclass.parsers.handlers.native:XmlEventHandler"


def register(db):
    collab.declare(db)
    register_nodes(db)
    register_any_attribute(db)
    register_wrapper_scope(db)
    register_find_by_namespace(db)
    register_wrapper_child(db)
    register_wildcard_child(db)
    register_generic_value(db)
    P = ["C09"]
    db.add(Contract(
        "xsdata.formats.dataclass.parsers.utils:ParserUtils.normalize_content",
        params={"value": "str|None"},
        ensures=[
            ("kept-unchanged", "implies(result is not None, result == value)"),
            ("dropped-iff-blank", "(result is None) == (value is None or py_strip(value) == '')"),
        ],
        raises={}, returns="str|None", properties=P + ["C10", "C11"],
    ))
    db.add(Contract(
        "xsdata.formats.dataclass.parsers.utils:ParserUtils.normalize_content", variant="xml-whitespace-only",
        params={"value": "str"},
        requires=["matches(value, '[ \\\\t\\\\n\\\\r]*')"],
        hints=["strip_blank(value)"],
        ensures=[("inter-element-whitespace-dropped", "result is None")],
        raises={}, returns="str|None", properties=P,
    ))

    def handler(with_parent):
        def mk_(mk, base):
            q = []
            if with_parent:
                node = mk.obj("xsdata.formats.dataclass.parsers.mixins:XmlNode", {"ns_map": NSMAP})
                q = [node]
            return mk.obj(H, {"queue": mk.plist(q)})
        return mk_

    MERGED = [
        ("keys-are-union", "forall('str|None', lambda k: (k in result) == ((k in ns_map) or PARENT_HAS))"),
        ("local-wins", "forall('str|None', lambda k: implies(k in ns_map, result[k] == ns_map[k]))"),
        ("inherited", "forall('str|None', lambda k: implies(PARENT_HAS and not (k in ns_map), result[k] == PARENT_VAL))"),
        ("local-map-untouched", "same_dict(ns_map, old(ns_map))"),
    ]

    def sub(clauses, has, val):
        return [(n, c.replace("PARENT_HAS", has).replace("PARENT_VAL", val)) for n, c in clauses]

    INV = [
        "forall('str|None', lambda k: (k in result) == (PARENT_HAS or (k in ns_map and pos_of(ns_map, k) < _i)))",
        "forall('str|None', lambda k: implies(k in ns_map and pos_of(ns_map, k) < _i, result[k] == ns_map[k]))",
        "forall('str|None', lambda k: implies(PARENT_HAS and not (k in ns_map and pos_of(ns_map, k) < _i), result[k] == PARENT_VAL))",
        "same_dict(ns_map, old(ns_map))",
    ]
    db.add(Contract(
        f"{H}.merge_parent_namespaces", variant="root-element",
        params={"self": handler(False), "ns_map": NSMAP},
        ensures=sub(MERGED, "False", "''"),
        raises={},
        loops=[Loop(invariants=[c.replace("PARENT_HAS", "False").replace("PARENT_VAL", "''") for c in INV],
                    header="ns_map.items()", modifies=["result"], vars={"result": f"{NSMAP}"})],
        properties=P + ["C08"],
    ))
    PH, PV = "(k in old(self.queue[-1].ns_map))", "old(self.queue[-1].ns_map)[k]"
    db.add(Contract(
        f"{H}.merge_parent_namespaces", variant="child-element",
        params={"self": handler(True), "ns_map": NSMAP},
        ensures=sub(MERGED, PH, PV) + [("parent-map-untouched", "same_dict(self.queue[-1].ns_map, old(self.queue[-1].ns_map))")],
        raises={},
        loops=[Loop(invariants=[c.replace("PARENT_HAS", PH).replace("PARENT_VAL", PV) for c in INV]
                    + ["same_dict(self.queue[-1].ns_map, old(self.queue[-1].ns_map))", "not (result is self.queue[-1].ns_map)"],
                    header="ns_map.items()", modifies=["result"], vars={"result": f"{NSMAP}"})],
        properties=P + ["C08"],
    ))

    # ------------------------------------------------------------------ QName resolution through the in-scope map
    CONV = "xsdata.formats.converter"
    NS = "xsdata.utils.namespaces"
    db.add(Contract(f"{NS}:is_ncname", trusted=True, params={}, returns="bool", raises={},
                    call_ensures=["result == uf('is_ncname', 'bool', name)", "implies(name is None, result == False)"],
                    note="assumed here: is_ncname is a function of its argument (its NCName production is decided in c_scanners)"))
    db.add(Contract(f"{NS}:is_uri", trusted=True, params={}, returns="bool", raises={},
                    call_ensures=["result == uf('is_uri', 'bool', uri)", "implies(uri is None or uri == '', result == False)"],
                    note="assumed: is_uri is a function of its argument, False for empty"))
    # p, l: any texts such that "p:l" is already stripped, p has no ':' and does not start with '{'
    WS = "[ \\t\\n\\r]*"
    TOKENS = ["len(p) > 0", "len(l) > 0", "':' not in p", "p[0:1] != '{'", "py_strip(p + ':' + l) == p + ':' + l"]
    db.add(Contract(
        f"{CONV}:QNameConverter.resolve", variant="prefixed",
        params={"value": "str", "ns_map": NSMAP},
        ghost={"w1": "str", "p": "str", "l": "str", "w2": "str"},
        requires=[f"matches(w1, '{WS}')", f"matches(w2, '{WS}')", "value == w1 + p + ':' + l + w2"] + TOKENS,
        hints=[f"strip_core(value, w1, '{WS}', w2, p + ':' + l)", "cut_at(p, ':', l)", "head_of(p, ':' + l)"],
        ensures=[("prefix-bound", "p in ns_map and ns_map[p] != ''"),
                 ("expanded-name", "implies(p in ns_map, result == (ns_map[p], l))"),
                 ("local-is-ncname", "uf('is_ncname', 'bool', l) and ' ' not in l")],
        raises={"ConverterError": "not (p in ns_map and ns_map[p] != '') or not uf('is_ncname', 'bool', l) or ' ' in l"},
        returns="tuple[str|None,str]",
        properties=P + ["C05", "C15"],
    ))
    db.add(Contract(
        f"{CONV}:QNameConverter.resolve", variant="unprefixed",
        params={"value": "str", "ns_map": NSMAP},
        ghost={"w1": "str", "l": "str", "w2": "str"},
        requires=[f"matches(w1, '{WS}')", f"matches(w2, '{WS}')", "value == w1 + l + w2",
                  "len(l) > 0", "':' not in l", "l[0:1] != '{'", "py_strip(l) == l"],
        hints=[f"strip_core(value, w1, '{WS}', w2, l)"],
        ensures=[("default-namespace-applies", "result == (ite(None in ns_map, ns_map[None], None), l)"),
                 ("local-is-ncname", "uf('is_ncname', 'bool', l) and ' ' not in l")],
        raises={"ConverterError": "not uf('is_ncname', 'bool', l) or ' ' in l"},
        properties=P + ["C05", "C15"],
    ))
    db.add(Contract(
        f"{CONV}:QNameConverter.resolve", variant="any-str",
        params={"value": "str", "ns_map": NSMAP},
        ensures=[("a-non-blank-name-with-an-ncname-local-part-is-returned",
                  "py_strip(value) != '' and uf('is_ncname', 'bool', result[1]) and not (' ' in result[1])")],
        raises={"ConverterError": True},
        returns="tuple[str|None,str]", inline_calls=True, call_default=True,
        properties=["C15"],
    ))
    db.add(Contract(
        "verif_harness:resolve_under_prefix_renaming",
        params={"w1": "str", "p": "str", "p2": "str", "l": "str", "w2": "str", "m": NSMAP, "m2": NSMAP},
        requires=[f"matches(w1, '{WS}')", f"matches(w2, '{WS}')"] + TOKENS
        + ["len(p2) > 0", "':' not in p2", "p2[0:1] != '{'", "py_strip(p2 + ':' + l) == p2 + ':' + l",
           "p in m and p2 in m2 and m[p] == m2[p2]"],
        call_variants={f"{CONV}:QNameConverter.resolve": [
            ("prefixed", {"w1": "w1", "p": "p", "l": "l", "w2": "w2"}),
            ("prefixed", {"w1": "w1", "p": "p2", "l": "l", "w2": "w2"})]},
        ensures=[("same-expanded-name", "result[0] == result[1]")],
        raises={"ConverterError": True},
        properties=P,
        note="a lemma over the contract of QNameConverter.resolve (both calls are checked against its 'prefixed' variant)",
    ))

    PU = "xsdata.formats.dataclass.parsers.utils:ParserUtils"
    XSI_TYPE = "{http://www.w3.org/2001/XMLSchema-instance}type"
    db.add(Contract(
        f"{PU}.xsi_type", variant="prefixed",
        params={"attrs": "dict[str,str]", "ns_map": NSMAP},
        ghost={"w1": "str", "p": "str", "l": "str", "w2": "str"},
        requires=[f"'{XSI_TYPE}' in attrs", f"matches(w1, '{WS}')", f"matches(w2, '{WS}')",
                  f"attrs['{XSI_TYPE}'] == w1 + p + ':' + l + w2"] + TOKENS,
        call_variants={f"{CONV}:QNameConverter.resolve": [("prefixed", {"w1": "w1", "p": "p", "l": "l", "w2": "w2"})]},
        ensures=[("expanded-type-name", "implies(p in ns_map, result == clark_build(ns_map[p], l))")],
        raises={"ConverterError": True},
        properties=P + ["C15"],
    ))
    db.add(Contract(
        f"{PU}.xsi_type", variant="absent",
        params={"attrs": "dict[str,str]", "ns_map": NSMAP},
        requires=[f"'{XSI_TYPE}' not in attrs"],
        ensures=[("no-type", "result is None")],
        raises={},
        properties=P,
    ))
    db.add(Contract(
        f"{PU}.xsi_nil",
        params={"attrs": "dict[str,str]"},
        ensures=[("absent", "implies('{http://www.w3.org/2001/XMLSchema-instance}nil' not in attrs, result is None)"),
                 ("true-literal", "implies('{http://www.w3.org/2001/XMLSchema-instance}nil' in attrs and attrs['{http://www.w3.org/2001/XMLSchema-instance}nil'] == 'true', result == True)")],
        raises={}, returns="bool|None",
        properties=["C03", "C10"],
    ))


def register_nodes(db):
    """ElementNode.build_node: the child node and its xsi:type live in the CHILD element's namespace scope."""
    from pyvc.contracts import assume_method
    from .c10_strictness import element_node

    EL = "xsdata.formats.dataclass.parsers.nodes.element:ElementNode"
    PU = "xsdata.formats.dataclass.parsers.utils:ParserUtils"
    db.add(Contract(f"{PU}.xsi_type", variant="call-view", trusted=True, call_default=True, params={}, returns="str|None",
                    raises={"ConverterError": True},
                    call_ensures=["result == uf('xsi_type', 'str|None', attrs, ns_map)"],
                    note="call-site view of ParserUtils.xsi_type: a function of the attributes and the prefix map it is given"))
    db.add(Contract(f"{PU}.xsi_nil", variant="call-view", trusted=True, call_default=True, params={}, returns="bool|None", raises={},
                    call_ensures=["result == uf('xsi_nil', 'bool|None', attrs)"]))
    db.add(Contract("xsdata.models.enums:DataType.from_qname", trusted=True, params={}, returns="u:DataType|None", raises={},
                    call_ensures=["result == uf('DataType.from_qname', 'u:DataType|None', qname)"]))
    for f, srt in (("process_contents", "str"), ("any_type", "bool"), ("is_wildcard", "bool"), ("nillable", "bool"),
                   ("clazz", "u:type|None"), ("is_clazz_union", "bool")):
        collab.field(db, "XmlVar", f, srt)
    collab.field(db, "XmlMeta", "mixed_content", "bool")
    collab.field(db, "XmlMeta", "clazz", "u:type")
    NODES = "xsdata.formats.dataclass.parsers.nodes"
    db.inline.add(f"{EL}.build_element_node")
    db.inline.add(f"{EL}.__init__")

    def plain_ctor(fields):
        def ctor(ex, st, cref, args, kwargs):
            from pyvc.values import Obj
            o = Obj(f"{cref.module}:{cref.qualname}", dict(zip(fields, args)))
            o.fields.update(kwargs)
            yield st, st.alloc(o)
        return ctor

    db.ctors[(f"{NODES}.union", "UnionNode")] = plain_ctor([])
    db.ctors[(f"{NODES}.primitive", "PrimitiveNode")] = plain_ctor(["meta", "var", "ns_map", "config"])
    db.ctors[(f"{NODES}.standard", "StandardNode")] = plain_ctor(["meta", "var", "datatype", "ns_map", "config", "nillable", "derived_factory"])
    db.ctors[(f"{NODES}.wildcard", "WildcardNode")] = plain_ctor([])
    db.add(Contract(
        f"{EL}.build_node", variant="body", 
        params={"self": element_node, "qname": "str", "var": "opaque:XmlVar", "attrs": "opaque:PyDict", "ns_map": "opaque:PyDict", "position": "int"},
        ensures=[
            ("xsi-type-resolved-in-the-element-own-scope",
             "implies(not var.is_clazz_union, called('ParserUtils.xsi_type') == 1 and call_arg('ParserUtils.xsi_type', 2) is ns_map and call_arg('ParserUtils.xsi_type', 1) is attrs)"),
            ("created-node-keeps-the-element-own-scope", "implies(result is not None, result.ns_map is ns_map)"),
        ],
        raises={"ParserError": True, "ConverterError": True, "XmlContextError": True},
        properties=["C09", "C15"],
        note="node constructors are modelled as plain records of their arguments",
    ))


def register_any_attribute(db):
    """ParserUtils.parse_any_attribute: the value of a wildcard attribute is expanded to Clark notation only when it is
    a prefixed name whose prefix is bound in the element's scope; a value without a colon is never touched - in
    particular it is not qualified with the default namespace (C09: the parsed object does not depend on whether the
    document uses a default namespace or prefixes)."""
    PU = "xsdata.formats.dataclass.parsers.utils:ParserUtils"
    db.add(Contract(
        f"{PU}.parse_any_attribute", variant="no-prefix",
        params={"cls": "opaque:type", "value": "str", "ns_map": NSMAP},
        requires=["':' not in value"],
        ensures=[("kept-as-given-whatever-the-default-namespace-is", "result == value")],
        raises={}, returns="str", properties=["C09"],
    ))
    db.add(Contract(
        f"{PU}.parse_any_attribute", variant="bound-prefix",
        params={"cls": "opaque:type", "value": "str", "ns_map": NSMAP}, ghost={"p": "str", "l": "str"},
        requires=["value == p + ':' + l", "':' not in p", "len(p) > 0", "len(l) > 0", "p in ns_map", "len(ns_map[p]) > 0", "l[0:2] != '//'"],
        hints=["cut_at(p, ':', l)"],
        ensures=[("expanded-with-the-uri-the-prefix-is-bound-to", "result == clark_build(ns_map[p], l)")],
        raises={}, returns="str", properties=["C09"],
    ))
    db.add(Contract(
        f"{PU}.parse_any_attribute", variant="unbound-prefix",
        params={"cls": "opaque:type", "value": "str", "ns_map": NSMAP}, ghost={"p": "str", "l": "str"},
        requires=["value == p + ':' + l", "':' not in p", "len(p) > 0", "len(l) > 0", "p not in ns_map"],
        hints=["cut_at(p, ':', l)"],
        ensures=[("kept-as-given", "result == value")],
        raises={}, returns="str", properties=["C09"],
    ))


def register_wrapper_scope(db):
    """NodeParser.start, wrapper element: every node on the parser's queue carries the in-scope namespace map of *its*
    element - the pure-Python handler computes a child's map from `queue[-1].ns_map` (merge_parent_namespaces), so a
    node that carries another element's map makes the declarations written on its own element invisible to its
    children (the lxml handler, which gets complete maps from libxml2, would then disagree with the native one)."""
    from .c10_strictness import element_node

    NP = "xsdata.formats.dataclass.parsers.bases:NodeParser"
    WN = "xsdata.formats.dataclass.parsers.nodes.wrapper:WrapperNode"
    db.inline.add(f"{WN}.__init__")
    collab.field(db, "XmlMeta", "wrappers", "u:WrapperIndex")

    def contains(ex, st, v, item):
        from pyvc.contracts import pure_result
        yield st, pure_result(ex, st, "WrapperIndex.has", "bool", [v, item])

    db.opaque_ops[("WrapperIndex", "contains")] = contains  # a dict keyed by wrapper qname: membership is a function of (index, key)

    def parser(mk, base):
        return mk.obj(NP, {"config": "opaque:ParserConfig", "context": "opaque:XmlContext", "handler": "opaque:type"})

    def queue_of_one_element(mk, base):
        from pyvc.values import PList
        item = element_node(mk, "item")
        mk.exports["item"] = item
        return mk.st.alloc(PList([item]))

    db.add(Contract(
        f"{NP}.start", variant="wrapper-element",
        params={"self": parser, "clazz": "u:type|None", "queue": queue_of_one_element, "objects": "opaque:PyList", "qname": "str",
                "attrs": "opaque:PyDict", "ns_map": "dict[str|None,str]"},
        requires=["qname in item.meta.wrappers"],
        ensures=[("one-node-queued", "len(queue) == 2 and queue[0] is item"),
                 ("queued-node-carries-the-scope-of-its-own-element", "same_dict(queue[1].ns_map, ns_map)"),
                 ("children-are-delegated-to-the-parent-under-the-wrapper-name", "queue[1].parent is item and queue[1].qname == qname")],
        raises={}, modifies=["queue"], properties=["C09"],
        note="the wrapper branch of start(); the other branch delegates to ElementNode.child / build_node (own contracts)",
    ))


def register_find_by_namespace(db):
    """find_by_namespace (wildcard / anyAttribute lookup): the first declared wildcard whose namespace constraint admits
    the expanded name, None iff none does - a function of the declared order and the expanded name only."""
    from pyvc.contracts import Loop, assume_method
    E = "xsdata.formats.dataclass.models.elements"
    assume_method(db, "XmlVar", "match_namespace", returns="bool", pure=True)
    M = "uf('XmlVar.match_namespace', 'bool', vars[{j}], qname)"
    NONE_BEFORE = "forall('int', lambda j: implies(0 <= j and j < {n}, not " + M.format(j="j") + "))"
    db.add(Contract(
        f"{E}:find_by_namespace", params={"vars": "seq[u:XmlVar]", "qname": "str"}, ghost={"i": "int"},
        ensures=[("the-first-wildcard-that-admits-the-name",
                  "implies(0 <= i and i < len(vars) and " + M.format(j="i") + " and " + NONE_BEFORE.format(n="i") + ", result is vars[i])"),
                 ("none-iff-no-wildcard-admits-the-name", "(result is None) == " + NONE_BEFORE.format(n="len(vars)"))],
        raises={}, returns="u:XmlVar|None",
        loops=[Loop(invariants=[NONE_BEFORE.format(n="_i")], header="vars")],
        properties=["C09", "C10"],
    ))


def register_wrapper_child(db):
    """WrapperNode.child: the children of a wrapper element are bound by the parent model element - with *their own*
    attributes, prefix map and position, under the wrapper's name (so that the item field of that wrapper is chosen)."""
    from .c10_strictness import element_node, NODES
    WN = f"{NODES}.wrapper:WrapperNode"
    db.add(Contract(f"{NODES}.element:ElementNode.child", variant="call-view", trusted=True, call_default=True, params={},
                    returns="u:XmlNode", raises={"ParserError": True, "ConverterError": True, "XmlContextError": True},
                    note="call-site view (the function itself is verified under C10 / C15)"))

    def wrapper_node(mk, base):
        parent = element_node(mk, "parent")
        mk.exports["the_parent"] = parent
        return mk.obj(WN, {"parent": lambda m, b: parent, "qname": "str", "ns_map": "dict[str|None,str]"}) if False else \
            mk.st.alloc(__import__("pyvc.values", fromlist=["Obj"]).Obj(WN, {"parent": parent, "qname": mk.value("str", "wrapper_qname"),
                                                                            "ns_map": mk.value("dict[str|None,str]", "wrapper_map")}))

    CH = "ElementNode.child"
    db.add(Contract(
        f"{WN}.child", params={"self": wrapper_node, "qname": "str", "attrs": "opaque:PyDict", "ns_map": "opaque:PyDict", "position": "int"},
        ensures=[("delegated-once-to-the-parent-under-the-wrapper-name",
                  f"called('{CH}') == 1 and call_arg('{CH}', 0) is the_parent and call_arg('{CH}', 1) == qname and call_arg('{CH}', 2) is attrs and "
                  f"call_arg('{CH}', 3) is ns_map and call_arg('{CH}', 4) == position and call_arg('{CH}', 5) == self.qname"),
                 ("the-node-the-parent-built-is-returned", f"result is call_result('{CH}')")],
        raises={"ParserError": True, "ConverterError": True, "XmlContextError": True}, properties=["C09", "C10"],
    ))


def register_wildcard_child(db):
    """WildcardNode.child: a child of a generic (xs:any) element is again a generic node - built with the CHILD's own
    attributes, prefix map and position, and the wildcard field / factory of its parent."""
    from .c10_strictness import NODES
    WN = f"{NODES}.wildcard:WildcardNode"

    def wildcard(mk, base):
        return mk.obj(WN, {"var": "opaque:XmlVar", "attrs": "opaque:PyDict", "ns_map": "opaque:PyDict", "position": "int", "factory": "opaque:Any"})

    db.add(Contract(
        f"{WN}.child", params={"self": wildcard, "qname": "str", "attrs": "opaque:PyDict", "ns_map": "opaque:PyDict", "position": "int"},
        ensures=[("the-child-node-carries-the-child-element-own-scope-and-attributes",
                  "result.ns_map is ns_map and result.attrs is attrs and result.position == position"),
                 ("same-wildcard-field-and-factory", "result.var is self.var and result.factory is self.factory")],
        raises={}, properties=["C09"],
    ))


def register_generic_value(db):
    """ElementNode.prepare_generic_value: a primitive child of a mixed-content / wildcard field is wrapped in a generic
    element whose text is the value's canonical lexical form - serialized WITHOUT the document's prefix map, so that a
    QName value reads `{uri}local` whatever prefixes the document used (C09: the object does not depend on prefixes)."""
    from .c10_strictness import element_node, NODES
    EL = f"{NODES}.element:ElementNode"
    SER = "ConverterFactory.serialize"
    db.add(Contract(
        f"{EL}.prepare_generic_value", variant="canonical-text", params={"self": element_node, "qname": "str|None", "value": "opaque:Any"},
        requires=["not uf('isinstance_Any_list', 'bool', value)"],
        ensures=[("a-model-or-an-unnamed-value-is-kept",
                  "implies(qname is None or len(qname) == 0 or uf('ClassType.is_model', 'bool', self.context.class_type, value), result is value)"),
                 ("a-named-primitive-is-serialized-without-the-document-prefixes",
                  f"implies(qname is not None and len(qname) > 0 and not uf('ClassType.is_model', 'bool', self.context.class_type, value), "
                  f"called('{SER}') == 1 and call_arg('{SER}', 1) is value and call_kwarg_names('{SER}') == ())")],
        raises={"ConverterError": True}, properties=["C09"],
    ))
