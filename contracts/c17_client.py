from pyvc.contracts import Contract, Loop, assume_method
from . import collab

CL = "xsdata.formats.dataclass.client:Client"
HDR = "dict[str,str]"


def register(db):
    collab.declare(db)
    register_wsdl_parts(db)
    register_map_binding(db)
    register_operation_messages(db)
    register_envelope_class(db)
    register_parts_attributes(db)
    register_operation_namespace(db)
    register_port_type_message(db)
    register_lookup_and_port(db)
    register_lazy_namespace(db)
    register_inner_class(db)
    P = ["C17"]
    assume_method(db, "Transport", "post", returns="u:Bytes", pure=True, raises=["ConnectionError"] if False else [])
    assume_method(db, "XmlParserObj", "from_bytes", returns="u:Any", pure=True, raises=["ParserError"])
    assume_method(db, "XmlSerializerObj", "render", returns="str", pure=True, raises=["SerializerError"] if False else [])
    collab.field(db, "XmlSerializerObj", "context", "u:XmlContext")
    db.opaque_isinst[("Any", "dict")] = "uf"
    collab.field(db, "type", "__name__", "str")

    def client(mk, base):
        cfg = mk.obj("xsdata.formats.dataclass.client:Config", {
            "style": "str", "location": "str", "transport": "str", "soap_action": "str",
            "input": "opaque:type", "output": "opaque:type", "encoding": "str|None"})
        return mk.obj(CL, {"config": cfg, "transport": "opaque:Transport", "parser": "opaque:XmlParserObj",
                           "serializer": "opaque:XmlSerializerObj"})

    OTHER = ("forall('str', lambda k: implies(k != 'content-type' and k != 'SOAPAction', "
             "(k in result) == (k in headers) and implies(k in headers, result[k] == headers[k])))")
    db.add(Contract(
        f"{CL}.prepare_headers",
        params={"self": client, "headers": HDR},
        ensures=[
            ("content-type-text-xml", "'content-type' in result and result['content-type'] == 'text/xml'"),
            ("soap-action-header", "implies(self.config.soap_action != '', 'SOAPAction' in result and result['SOAPAction'] == self.config.soap_action)"),
            ("no-soap-action-invented", "implies(self.config.soap_action == '', ('SOAPAction' in result) == ('SOAPAction' in headers) and implies('SOAPAction' in headers, result['SOAPAction'] == headers['SOAPAction']))"),
            ("caller-headers-kept", OTHER),
            ("argument-not-mutated", "same_dict(headers, old(headers))"),
            ("soap-over-http-only", "self.config.transport == SOAP_HTTP_TRANSPORT"),
        ],
        raises={"ClientValueError": "self.config.transport != SOAP_HTTP_TRANSPORT"},
        returns=HDR,
        properties=P,
    ))
    db.add(Contract("xsdata.formats.dataclass.parsers.dict:DictDecoder.decode", trusted=True, params={}, returns="u:Any",
                    raises={"ParserError": True, "ConverterError": True, "XmlContextError": True}))
    RENDER = "uf('XmlSerializerObj.render', 'str', self.serializer, obj)"
    db.add(Contract(
        f"{CL}.prepare_payload", variant="model-instance",
        params={"self": client, "obj": "opaque:Any"},
        requires=["not uf('isinstance_Any_dict', 'bool', obj)"],
        ensures=[
            ("is-instance-of-input-class", "uf('isinstance_dyn_Any_type', 'bool', obj, self.config.input)"),
            ("payload-is-the-serialized-request", f"implies(not self.config.encoding, result == {RENDER})"),
            ("encoded-with-configured-encoding", f"implies(self.config.encoding, result == uf('str.encode', 'u:Bytes', {RENDER}, self.config.encoding))"),
        ],
        raises={"ClientValueError": "not uf('isinstance_dyn_Any_type', 'bool', obj, self.config.input)"},
        call_ensures=["result == uf('payload', 'u:Any', self, obj)"] if False else None,
        properties=P,
    ))
    db.add(Contract(f"{CL}.prepare_payload", variant="call-view", trusted=True, call_default=True, params={},
                    returns="u:Payload", raises={"ClientValueError": True, "ParserError": True, "ConverterError": True, "XmlContextError": True},
                    call_ensures=["result == uf('Client.prepare_payload', 'u:Payload', self.serializer, self.config.input, self.config.encoding, obj)"],
                    note="call-site abstraction: the payload is a function of serializer, input class, encoding and the request object"))
    for variant, hdr in (("with-headers", HDR), ("without-headers", None)):
        db.add(Contract(
            f"{CL}.send", variant=variant,
            params={"self": client, "obj": "opaque:Any", "headers": hdr},
            ensures=[
                ("posts-exactly-once", "called('Transport.post') == 1"),
                ("to-the-endpoint-location", "call_arg('Transport.post', 0) == self.config.location"),
                ("posts-the-prepared-payload", "call_kwarg('Transport.post', 'data') == uf('Client.prepare_payload', 'u:Payload', self.serializer, self.config.input, self.config.encoding, obj)"),
                ("with-the-required-headers", "'content-type' in call_kwarg('Transport.post', 'headers') and call_kwarg('Transport.post', 'headers')['content-type'] == 'text/xml'"
                 " and implies(self.config.soap_action != '', call_kwarg('Transport.post', 'headers')['SOAPAction'] == self.config.soap_action)"),
                ("returns-the-parsed-output-envelope", "result == uf('XmlParserObj.from_bytes', 'u:Any', self.parser, "
                 "uf('Transport.post', 'u:Bytes', self.transport, self.config.location, 'data', call_kwarg('Transport.post', 'data'), 'headers', call_kwarg('Transport.post', 'headers')), self.config.output)"),
            ] + ([("caller-headers-forwarded", "forall('str', lambda k: implies(k in headers and k != 'content-type' and k != 'SOAPAction', "
                   "k in call_kwarg('Transport.post', 'headers') and call_kwarg('Transport.post', 'headers')[k] == headers[k]))")] if hdr else []),
            raises={"ClientValueError": True, "ParserError": True, "ConverterError": True, "XmlContextError": True},
            properties=P,
        ))

    # ------------------------------------------------------------------ service description -> client config
    CFG = "xsdata.formats.dataclass.client:Config"
    FIELDS = ["style", "location", "transport", "soap_action", "input", "output", "encoding"]
    for f in FIELDS:
        collab.field(db, "ServiceClass", f, "u:Any|None")
    db.add(Contract(
        f"{CFG}.from_service",
        params={"obj": "opaque:ServiceClass"}, kwargs={"sdict": "dict[str,u:Any|None]"},
        ensures=[(f"{f}-override-wins-else-service-value",
                  f"result.{f} == ite('{f}' in kwargs, kwargs['{f}'], uf('ServiceClass.{f}', 'u:Any|None', obj))") for f in FIELDS],
        raises={},
        properties=P,
        note="getattr(obj, name, None) on the generated service class: the class attribute (None when absent)",
    ))


def register_wsdl_parts(db):
    """DefinitionsMapper.map_binding_message_parts: which parts of the WSDL message end up in the envelope's header /
    body class - the parts the binding names with `part="..."`, compared by *equality* of the part name; all parts
    when the binding names none."""
    DM = "xsdata.codegen.mappers.definitions:DefinitionsMapper"
    assume_method(db, "Definitions", "find_message", returns="u:Message", pure=True, raises=["CodegenError"])
    collab.field(db, "Message", "parts", "seq[u:Part]")
    collab.field(db, "Part", "name", "str")
    db.add(Contract(f"{DM}.build_parts_attributes", variant="call-view", trusted=True, call_default=True, params={},
                    returns="seq[u:Attr]", raises={"CodegenError": True},
                    note="call-site view: one attr per part handed in (recorded on the ghost trace)"))

    def extended(mk, base):
        return mk.obj("xsdata.formats.dataclass.models.generics:AnyElement", {"attributes": "dict[str,str]"})

    def the_class(mk, base):
        from pyvc.values import ClassRef
        return ClassRef("xsdata.codegen.mappers.definitions", "DefinitionsMapper")

    MSG_OK = "implies('message' in extended.attributes, len(extended.attributes['message']) > 0)"

    db.add(Contract(
        f"{DM}.map_binding_message_parts", variant="one-part-selected",
        params={"cls": the_class, "definitions": "opaque:Definitions", "message": "str", "extended": extended, "ns_map": "opaque:PyDict"},
        requires=["'part' in extended.attributes", "len(message) > 0", MSG_OK],
        ensures=[("a-part-is-selected-iff-its-name-is-the-named-part",
                  "comp_filter_count() == 1 and comp_filter_condition() == (comp_filter_element().name == extended.attributes['part'])")],
        raises={"CodegenError": True}, properties=["C17"],
    ))
    db.add(Contract(
        f"{DM}.map_binding_message_parts", variant="parts-list",
        params={"cls": the_class, "definitions": "opaque:Definitions", "message": "str", "extended": extended, "ns_map": "opaque:PyDict"},
        requires=["not ('part' in extended.attributes)", "'parts' in extended.attributes", "len(message) > 0", MSG_OK],
        ensures=[("a-part-is-selected-iff-its-name-is-one-of-the-listed-tokens",
                  "implies(comp_filter_count() == 1, comp_filter_condition() == (comp_filter_element().name in extended.attributes['parts'].split()))"),
                 ("parts-handed-on-once", "called('DefinitionsMapper.build_parts_attributes') == 1")],
        raises={"CodegenError": True}, properties=["C17"],
    ))
    db.add(Contract(
        f"{DM}.map_binding_message_parts", variant="no-part-selected",
        params={"cls": the_class, "definitions": "opaque:Definitions", "message": "str", "extended": extended, "ns_map": "opaque:PyDict"},
        requires=["not ('part' in extended.attributes)", "not ('parts' in extended.attributes)", "len(message) > 0", MSG_OK],
        ensures=[("all-parts-of-the-message-unfiltered", "comp_filter_count() == 0 and called('DefinitionsMapper.build_parts_attributes') == 1")],
        raises={"CodegenError": True}, properties=["C17"],
    ))


def register_map_binding(db):
    """DefinitionsMapper.map_binding: every operation of a binding is mapped with *its own* settings - the binding /
    port level soap attributes (style, transport, location) overridden by the attributes of that operation's own
    extension elements (soapAction, style).  The dictionary handed in is the binding's: it must come out unchanged, and
    what one operation adds (its soapAction) must not reach the next operation."""
    DM = "xsdata.codegen.mappers.definitions:DefinitionsMapper"
    assume_method(db, "Binding", "unique_operations", returns="seq[u:BindingOperation]", pure=True)
    assume_method(db, "PortType", "find_operation", returns="u:PortTypeOperation", pure=True, raises=["CodegenError"])
    collab.field(db, "BindingOperation", "extended_elements", "seq[u:Any]")
    collab.field(db, "BindingOperation", "name", "str")
    collab.field(db, "PortType", "name", "str")
    db.add(Contract(f"{DM}.attributes", variant="call-view", trusted=True, call_default=True, params={}, returns="dict[str,str]",
                    note="call-site view: some fresh str -> str dictionary (the soap attributes of the extension elements)"))
    db.add(Contract(f"{DM}.map_binding_operation", variant="call-view", trusted=True, call_default=True, params={},
                    returns="seq[u:Class]", raises={"CodegenError": True, "AssertionError": True},
                    note="call-site view: reads its config argument (recorded on the ghost trace), changes nothing"))

    def the_class(mk, base):
        from pyvc.values import ClassRef
        return ClassRef("xsdata.codegen.mappers.definitions", "DefinitionsMapper")

    OP = "DefinitionsMapper.map_binding_operation"
    OWN = "call_result('DefinitionsMapper.attributes')"
    db.add(Contract(
        f"{DM}.map_binding", variant="settings-per-operation",
        params={"cls": the_class, "definitions": "opaque:Definitions", "binding": "opaque:Binding", "port_type": "opaque:PortType",
                "config": "dict[str,str]"},
        ghost={"k": "str"},
        ensures=[("binding-settings-unchanged", "same_dict(config, old(config))")],
        raises={"CodegenError": True, "AssertionError": True},
        loops=[Loop(invariants=["same_dict(config, old(config))"], header="binding.unique_operations()",
                    step=[("operation-mapped-once", f"called('{OP}') == 1 and called('DefinitionsMapper.attributes') == 1"),
                          ("own-attributes-override", f"implies(k in {OWN}, k in call_arg('{OP}', 4) and call_arg('{OP}', 4)[k] == {OWN}[k])"),
                          ("binding-settings-inherited", f"implies(k in old(config) and not (k in {OWN}), "
                                                         f"k in call_arg('{OP}', 4) and call_arg('{OP}', 4)[k] == old(config)[k])"),
                          ("nothing-else", f"implies(k in call_arg('{OP}', 4), k in old(config) or k in {OWN})"),
                          ("operation-matched-by-name", "call_arg('PortType.find_operation', 0) == operation.name "
                                                        f"and call_arg('{OP}', 2) is operation and call_arg('{OP}', 5) == port_type.name")])],
        properties=["C17"],
    ))


def register_operation_messages(db):
    """DefinitionsMapper.map_binding_operation_messages: which envelope classes an operation gets and how they are
    parameterised - the input envelope is named <name>_input and (for rpc) wraps its parts in an element named after the
    *operation*, the output envelope is named <name>_output, takes its wrapper name from the message, and is the only
    one that gets the Fault class; with rpc style the message class of each direction is emitted before its envelope."""
    DM = "xsdata.codegen.mappers.definitions:DefinitionsMapper"
    collab.field(db, "BindingOperation", "input", "u:BindingMessage|None")
    collab.field(db, "BindingOperation", "output", "u:BindingMessage|None")
    collab.field(db, "PortTypeOperation", "input", "u:PortTypeMessage")
    collab.field(db, "PortTypeOperation", "output", "u:PortTypeMessage")
    db.always_truthy.add("BindingMessage")  # dataclass instances without __bool__/__len__: always true
    for meth, ret in (("build_envelope_class", "u:Class"), ("build_message_class", "u:Class"), ("build_envelope_fault", None)):
        db.add(Contract(f"{DM}.{meth}", variant="call-view", trusted=True, call_default=True, params={}, returns=ret,
                        raises={"CodegenError": True, "StopIteration": True},
                        note=f"call-site view of {meth}: recorded on the ghost trace with its arguments"))

    def the_class(mk, base):
        from pyvc.values import ClassRef
        return ClassRef("xsdata.codegen.mappers.definitions", "DefinitionsMapper")

    EC, FC, MC = (f"DefinitionsMapper.{m}" for m in ("build_envelope_class", "build_envelope_fault", "build_message_class"))
    PARAMS = {"cls": the_class, "definitions": "opaque:Definitions", "binding_operation": "opaque:BindingOperation",
              "port_type_operation": "opaque:PortTypeOperation", "name": "str", "style": "str", "namespace": "str|None"}
    IN = (f"call_arg('{EC}', 2, 0) is binding_operation.input and call_arg('{EC}', 3, 0) is port_type_operation.input "
          f"and call_arg('{EC}', 4, 0) == name + '_input' and call_arg('{EC}', 5, 0) == style and call_arg('{EC}', 6, 0) == namespace "
          f"and call_arg('{EC}', 7, 0) == binding_operation.name")
    OUT = (f"call_arg('{EC}', 2, {{n}}) is binding_operation.output and call_arg('{EC}', 3, {{n}}) is port_type_operation.output "
           f"and call_arg('{EC}', 4, {{n}}) == name + '_output' and call_arg('{EC}', 5, {{n}}) == style and call_arg('{EC}', 6, {{n}}) == namespace "
           f"and call_arg('{EC}', 7, {{n}}) is None")
    for style_name, style_req in (("document", "style != 'rpc'"), ("rpc", "style == 'rpc'")):
        rpc = style_name == "rpc"
        db.add(Contract(
            f"{DM}.map_binding_operation_messages", variant=f"input-and-output-{style_name}", params=PARAMS,
            requires=["binding_operation.input is not None", "binding_operation.output is not None", style_req],
            ensures=[("two-envelopes", f"called('{EC}') == 2 and called('{MC}') == {2 if rpc else 0}"),
                     ("input-envelope-wraps-in-the-operation-name", IN),
                     ("output-envelope-takes-the-message-name", OUT.format(n=1)),
                     ("only-the-output-envelope-gets-the-fault", f"called('{FC}') == 1 and call_arg('{FC}', 3) is call_result('{EC}', 1) "
                                                                 f"and call_arg('{FC}', 2) is port_type_operation"),
                     ("emitted-in-order", (f"len(result) == 4 and result[0] is call_result('{MC}', 0) and result[1] is call_result('{EC}', 0) "
                                           f"and result[2] is call_result('{MC}', 1) and result[3] is call_result('{EC}', 1) "
                                           f"and call_arg('{MC}', 2, 0) is port_type_operation.input and call_arg('{MC}', 2, 1) is port_type_operation.output") if rpc else
                                          f"len(result) == 2 and result[0] is call_result('{EC}', 0) and result[1] is call_result('{EC}', 1)")],
            raises={"CodegenError": True, "StopIteration": True}, properties=["C17"],
        ))
    db.add(Contract(
        f"{DM}.map_binding_operation_messages", variant="one-way-input-only", params=PARAMS,
        requires=["binding_operation.input is not None", "binding_operation.output is None", "style != 'rpc'"],
        ensures=[("one-envelope-no-fault", f"called('{EC}') == 1 and called('{FC}') == 0 and len(result) == 1"),
                 ("input-envelope-wraps-in-the-operation-name", IN)],
        raises={"CodegenError": True, "StopIteration": True}, properties=["C17"],
    ))
    db.add(Contract(
        f"{DM}.map_binding_operation_messages", variant="output-only", params=PARAMS,
        requires=["binding_operation.input is None", "binding_operation.output is not None", "style != 'rpc'"],
        ensures=[("one-envelope-with-fault", f"called('{EC}') == 1 and called('{FC}') == 1 and len(result) == 1"),
                 ("output-envelope-takes-the-message-name", OUT.format(n=0))],
        raises={"CodegenError": True, "StopIteration": True}, properties=["C17"],
    ))


def register_envelope_class(db):
    """DefinitionsMapper.build_envelope_class: every soap extension of a binding message (soap:body, each soap:header,
    ...) contributes its parts to the inner class of its kind (Body, Header) - contributions of several extensions of the
    same kind accumulate, none replaces what an earlier one put there."""
    DM = "xsdata.codegen.mappers.definitions:DefinitionsMapper"
    MODELS = "xsdata.codegen.models"
    collab.field(db, "BindingMessage", "extended_elements", "seq[u:AnyElement]")
    collab.field(db, "BindingMessage", "location", "str|None")
    collab.field(db, "BindingMessage", "ns_map", "u:PyDict")
    collab.field(db, "PortTypeMessage", "message", "str")
    collab.field(db, "Definitions", "target_namespace", "str|None")
    collab.field(db, "AnyElement", "qname", "nonempty-str")  # asserted non-None by the function; assumed: parsed elements have a name
    collab.field(db, "AnyElement", "attributes", "u:PyDict")

    def plain(fields):
        def ctor(ex, st, cref, args, kwargs):
            from pyvc.values import Obj
            o = Obj(f"{cref.module}:{cref.qualname}", dict(kwargs))
            yield st, st.alloc(o)
        return ctor

    db.ctors[(MODELS, "Class")] = plain([])

    def inner_class(mk, base):
        return mk.obj(f"{MODELS}:Class", {"attrs": "opaque:PyList", "ns_map": "opaque:PyDict"})

    db.add(Contract(f"{DM}.build_inner_class", variant="call-view", trusted=True, call_default=True, params={}, returns=inner_class,
                    raises={}, note="call-site view: the (new or existing) inner class of that name, with its attribute list"))
    db.add(Contract(f"{DM}.map_port_type_message", variant="call-view", trusted=True, call_default=True, params={},
                    returns="seq[u:Attr]", raises={}))
    db.add(Contract(f"{DM}.map_binding_message_parts", variant="call-view", trusted=True, call_default=True, params={},
                    returns="seq[u:Attr]", raises={"CodegenError": True},
                    note="call-site view (the function itself is verified against its part-selection contracts)"))

    def the_class(mk, base):
        from pyvc.values import ClassRef
        return ClassRef("xsdata.codegen.mappers.definitions", "DefinitionsMapper")

    BIC, MP, MR = (f"DefinitionsMapper.{m}" for m in ("build_inner_class", "map_binding_message_parts", "map_port_type_message"))
    db.add(Contract(
        f"{DM}.build_envelope_class", variant="extensions-accumulate",
        params={"cls": the_class, "definitions": "opaque:Definitions", "binding_message": "opaque:BindingMessage",
                "port_type_message": "opaque:PortTypeMessage", "name": "str", "style": "str", "namespace": "str|None", "operation": "str|None"},
        requires=["len(name) > 0"],
        ensures=[("envelope-class-of-the-binding-message", "result.meta_name == 'Envelope' and result.ns_map is binding_message.ns_map")],
        raises={"CodegenError": True, "AssertionError": "binding_message.location is None"},
        loops=[Loop(invariants=[], header="binding_message.extended_elements", vars={"namespace": "str|None"},
                    step=[("one-inner-class-per-extension-named-after-it", f"called('{BIC}') == 1 and call_arg('{BIC}', 1) is target"),
                          ("parts-come-from-exactly-one-mapper", f"called('{MP}') + called('{MR}') == 1"),
                          ("the-parts-are-added-to-what-the-inner-class-already-holds",
                           f"called('PyList.extend') == 1 and call_recv('PyList.extend') is call_result('{BIC}').attrs"),
                          ("an-rpc-body-wraps-the-message-in-one-field-placed-in-the-namespace-the-soap-body-names",
                           f"implies(style == 'rpc' and call_arg('{BIC}', 2) == 'Body', called('{MR}') == 1 and called('{MP}') == 0 and "
                           f"call_arg('{MR}', 1) == operation and call_arg('{MR}', 2) is port_type_message and "
                           f"called('PyDict.get') == 1 and call_recv('PyDict.get') is ext.attributes and call_arg('PyDict.get', 0) == 'namespace' and "
                           f"call_arg('{MR}', 3) is call_result('PyDict.get'))"),
                          ("every-other-extension-lists-the-message-parts",
                           f"implies(not (style == 'rpc' and call_arg('{BIC}', 2) == 'Body'), called('{MP}') == 1 and called('{MR}') == 0)"),
                          ("message-parts-are-resolved-in-the-inner-class-scope",
                           f"implies(called('{MP}') == 1, call_arg('{MP}', 3) is ext and call_arg('{MP}', 4) is call_result('{BIC}').ns_map "
                           f"and call_arg('{MP}', 2) == port_type_message.message)")])],
        properties=["C17"],
    ))


def register_parts_attributes(db):
    """DefinitionsMapper.build_parts_attributes: the envelope field generated for a message part carries the name and
    namespace the WSDL prescribes - a part given by `element=` is named after that element and lives in the namespace
    the element's prefix is bound to *on the part*; a part given by `type=` keeps its own name, refers to that type, and
    its namespace is decided later (`##lazy`); a part with neither is skipped."""
    DM = "xsdata.codegen.mappers.definitions:DefinitionsMapper"
    collab.field(db, "Part", "element", "str|None")
    collab.field(db, "Part", "type", "str|None")
    collab.field(db, "Part", "ns_map", "u:NsMap")
    assume_method(db, "NsMap", "get", returns="str|None", pure=True)
    db.add(Contract(f"{DM}.build_attr", variant="call-view", trusted=True, call_default=True, params={}, returns="u:Attr", raises={},
                    note="call-site view: one attr built from the arguments (recorded on the ghost trace)"))

    def the_class(mk, base):
        from pyvc.values import ClassRef
        return ClassRef("xsdata.codegen.mappers.definitions", "DefinitionsMapper")

    BA = "DefinitionsMapper.build_attr"
    XS = "http://www.w3.org/2001/XMLSchema"
    NS_E = "uf('NsMap.get', 'str|None', part.ns_map, ref_prefix(part.element))"
    NS_T = "uf('NsMap.get', 'str|None', part.ns_map, ref_prefix(part.type))"
    db.add(Contract(
        f"{DM}.build_parts_attributes", variant="per-part",
        params={"cls": the_class, "parts": "seq[u:Part]", "ns_map": "opaque:PyDict"},
        ensures=[], raises={"ValueError": True},
        loops=[Loop(invariants=[], header="parts",
                    step=[("element-part-is-named-after-its-element",
                           f"implies(part.element is not None and len(part.element) > 0, called('{BA}') == 1 and "
                           f"call_arg('{BA}', 1) == ref_local(part.element))"),
                          ("element-part-lives-in-the-namespace-its-prefix-is-bound-to-on-the-part",
                           f"implies(part.element is not None and len(part.element) > 0 and (part.type is None or len(part.type) == 0) and {NS_E} != '{XS}', "
                           f"call_arg('{BA}', 5) == {NS_E})"),
                          ("element-part-native-iff-schema-namespace",
                           f"implies(part.element is not None and len(part.element) > 0, call_arg('{BA}', 3) == ({NS_E} == '{XS}'))"),
                          ("typed-part-keeps-its-name-and-gets-a-lazy-namespace",
                           f"implies((part.element is None or len(part.element) == 0) and part.type is not None and len(part.type) > 0, "
                           f"called('{BA}') == 1 and call_arg('{BA}', 1) == part.name and call_arg('{BA}', 5) == '##lazy' and "
                           f"call_arg('{BA}', 3) == ({NS_T} == '{XS}'))"),
                          ("untyped-part-is-skipped",
                           f"implies((part.element is None or len(part.element) == 0) and (part.type is None or len(part.type) == 0), called('{BA}') == 0)"),
                          ("the-part-prefixes-reach-the-class-map", f"implies(called('{BA}') == 1, called('PyDict.update') == 1 and call_arg('PyDict.update', 0) is part.ns_map)")])],
        properties=["C17"],
        note="ValueError: build_qname of an empty reference (no namespace and no local name)",
    ))


def register_operation_namespace(db):
    """DefinitionsMapper.operation_namespace: the envelope classes of an operation live in the SOAP 1.1 envelope namespace
    exactly when the binding's transport is SOAP over HTTP."""
    DM = "xsdata.codegen.mappers.definitions:DefinitionsMapper"

    def the_class(mk, base):
        from pyvc.values import ClassRef
        return ClassRef("xsdata.codegen.mappers.definitions", "DefinitionsMapper")

    HTTP = "http://schemas.xmlsoap.org/soap/http"
    db.add(Contract(
        f"{DM}.operation_namespace", params={"cls": the_class, "config": "dict[str,str]"},
        ensures=[("soap-envelope-namespace-iff-soap-http-transport",
                  f"ite('transport' in config and config['transport'] == '{HTTP}', result == 'http://schemas.xmlsoap.org/soap/envelope/', result is None)")],
        raises={}, returns="str|None", properties=["C17"],
    ))


def register_port_type_message(db):
    """DefinitionsMapper.map_port_type_message (rpc bodies): one field that wraps the message - named after the operation
    (input) or after the message itself (output, no operation name), typed by the message's qualified name in the
    namespace its prefix is bound to on the portType message, placed in the namespace the soap:body names."""
    DM = "xsdata.codegen.mappers.definitions:DefinitionsMapper"
    collab.field(db, "PortTypeMessage", "ns_map", "u:NsMap")

    def the_class(mk, base):
        from pyvc.values import ClassRef
        return ClassRef("xsdata.codegen.mappers.definitions", "DefinitionsMapper")

    BA = "DefinitionsMapper.build_attr"
    NS = "uf('NsMap.get', 'str|None', message.ns_map, ref_prefix(message.message))"
    db.add(Contract(
        f"{DM}.map_port_type_message",
        params={"cls": the_class, "operation": "str|None", "message": "opaque:PortTypeMessage", "namespace": "str|None"},
        requires=["len(message.message) > 0", "len(ref_local(message.message)) > 0"],
        ensures=[("one-wrapper-field", f"called('{BA}') == 1 and len(result) == 1 and result[0] is call_result('{BA}')"),
                 ("named-after-the-operation-or-the-message",
                  f"call_arg('{BA}', 1) == ite(operation is None, ref_local(message.message), operation)"),
                 ("typed-by-the-message-in-the-namespace-of-its-prefix",
                  f"call_arg('{BA}', 2) == ite({NS} is not None and len({NS}) > 0, clark_build({NS}, ref_local(message.message)), ref_local(message.message))"),
                 ("placed-in-the-namespace-of-the-soap-body", f"call_arg('{BA}', 5) == namespace and call_arg('{BA}', 3) == False")],
        raises={}, properties=["C17"],
    ))


def register_lookup_and_port(db):
    """find_or_die (message / binding / portType lookup by name) and DefinitionsMapper.map_port (which binding and
    portType a service port is mapped with, and where its settings come from)."""
    WSDL = "xsdata.models.wsdl"
    DM = "xsdata.codegen.mappers.definitions:DefinitionsMapper"
    collab.field(db, "WsdlItem", "name", "str")
    NO_EARLIER = "forall('int', lambda j: implies(0 <= j and j < {n}, items[j].name != name))"
    db.add(Contract(
        f"{WSDL}:find_or_die", params={"items": "seq[u:WsdlItem]", "name": "str", "type_name": "str"}, ghost={"i": "int"},
        ensures=[("the-result-has-that-name", "result.name == name"),
                 ("the-first-item-of-that-name-is-returned",
                  "implies(0 <= i and i < len(items) and items[i].name == name and " + NO_EARLIER.format(n="i") + ", result is items[i])")],
        raises={"CodegenError": NO_EARLIER.format(n="len(items)")},
        loops=[Loop(invariants=[NO_EARLIER.format(n="_i")], header="items")],
        properties=["C17"],
        note="a dangling reference (no item of that name) is the generator's own error, never a wrong item",
    ))
    from pyvc import builtins_calls as bc
    bc.FUNCS["itertools.chain"] = bc._traced("itertools.chain")  # the call and its arguments go to the ghost trace
    assume_method(db, "Definitions", "find_binding", returns="u:Binding", pure=True, raises=["CodegenError"])
    assume_method(db, "Definitions", "find_port_type", returns="u:PortType", pure=True, raises=["CodegenError"])
    collab.field(db, "ServicePort", "binding", "str")
    collab.field(db, "ServicePort", "extended_elements", "seq[u:AnyElement]")
    collab.field(db, "Binding", "type", "str")
    collab.field(db, "Binding", "extended_elements", "seq[u:AnyElement]")
    db.add(Contract(f"{DM}.map_binding", variant="call-view", trusted=True, call_default=True, params={}, returns="seq[u:Class]",
                    raises={"CodegenError": True, "AssertionError": True},
                    note="call-site view (the function itself is verified: settings per operation)"))

    def the_class(mk, base):
        from pyvc.values import ClassRef
        return ClassRef("xsdata.codegen.mappers.definitions", "DefinitionsMapper")

    MB, AT = "DefinitionsMapper.map_binding", "DefinitionsMapper.attributes"
    db.add(Contract(
        f"{DM}.map_port", params={"cls": the_class, "definitions": "opaque:Definitions", "port": "opaque:ServicePort"},
        requires=["len(port.binding) > 0"],
        ensures=[("the-binding-is-the-one-the-port-names",
                  "call_arg('Definitions.find_binding', 0) == ref_local(port.binding)"),
                 ("the-port-type-is-the-one-that-binding-names",
                  "call_arg('Definitions.find_port_type', 0) == ref_local(uf('Definitions.find_binding', 'u:Binding', definitions, ref_local(port.binding)).type)"),
                 ("settings-come-from-the-binding-then-the-port",
                  "called('itertools.chain') == 1 and call_arg('itertools.chain', 0) == uf('Definitions.find_binding', 'u:Binding', definitions, ref_local(port.binding)).extended_elements "
                  "and call_arg('itertools.chain', 1) == port.extended_elements"),
                 ("mapped-with-that-binding-port-type-and-settings",
                  f"called('{MB}') == 1 and call_arg('{MB}', 1) is definitions and call_arg('{MB}', 4) is call_result('{AT}')")],
        raises={"CodegenError": True, "AssertionError": True}, properties=["C17"],
    ))


def register_lazy_namespace(db):
    """ProcessAttributeTypes.detect_lazy_namespace: the namespace of a message part declared by `type=` is decided when
    the referenced class is known - it becomes that class's namespace; when the class has none, the field is
    unqualified ('' inside a qualified envelope class, None otherwise); a field that is not marked lazy is untouched."""
    H = "xsdata.codegen.handlers.process_attributes_types:ProcessAttributeTypes"

    def handler_class(mk, base):
        from pyvc.values import ClassRef
        return ClassRef("xsdata.codegen.handlers.process_attributes_types", "ProcessAttributeTypes")

    def klass(mk, base):
        return mk.obj("xsdata.codegen.models:Class", {"name": "str", "namespace": "str|None"})

    def attr(mk, base):
        return mk.obj("xsdata.codegen.models:Attr", {"name": "str", "namespace": "str|None"})

    db.add(Contract(
        f"{H}.detect_lazy_namespace", params={"cls": handler_class, "source": klass, "target": klass, "attr": attr},
        ensures=[("a-lazy-field-takes-the-namespace-of-the-referenced-class",
                  "implies(old(attr.namespace) == '##lazy' and source.namespace is not None and len(source.namespace) > 0, attr.namespace == source.namespace)"),
                 ("unqualified-when-the-referenced-class-has-no-namespace",
                  "implies(old(attr.namespace) == '##lazy' and (source.namespace is None or len(source.namespace) == 0), "
                  "ite(target.namespace is not None and len(target.namespace) > 0, attr.namespace == '', attr.namespace is None))"),
                 ("other-fields-untouched", "implies(old(attr.namespace) != '##lazy', attr.namespace == old(attr.namespace))"),
                 ("never-left-lazy", "attr.namespace != '##lazy' or source.namespace == '##lazy'")],
        raises={}, modifies=["attr.namespace"], properties=["C17"],
    ))


def register_inner_class(db):
    """DefinitionsMapper.build_inner_class (Header / Body / Fault / detail of an envelope): a new inner class is created
    once per name, registered on the envelope class together with a forward field of that name - and the field carries
    exactly the namespace the caller asked for: None (inherit the envelope's), the SOAP envelope namespace, or the empty
    string (unqualified, as SOAP 1.1 prescribes for the fault detail)."""
    DM = "xsdata.codegen.mappers.definitions:DefinitionsMapper"
    MODELS = "xsdata.codegen.models"
    db.inline.add(f"{MODELS}:Class.target_namespace")

    def the_class(mk, base):
        from pyvc.values import ClassRef
        return ClassRef("xsdata.codegen.mappers.definitions", "DefinitionsMapper")

    def envelope(mk, base):
        o = mk.obj(f"{MODELS}:Class", {"qname": "str", "location": "str", "ns_map": "opaque:PyDict", "attrs": "opaque:PyList"})
        mk.st.deref(o).fields["inner"] = mk.plist([])
        return o

    BA = "DefinitionsMapper.build_attr"
    db.add(Contract(
        f"{DM}.build_inner_class", variant="first-of-its-name",
        params={"cls": the_class, "target": envelope, "name": "str", "namespace": "str|None"},
        requires=["len(target.qname) > 0", "len(name) > 0"],
        ensures=[("the-new-class-is-registered-on-the-envelope", "len(target.inner) == 1 and target.inner[0] is result and result.parent is target"),
                 ("a-forward-field-of-that-name-is-added-with-exactly-the-requested-namespace",
                  f"called('{BA}') == 1 and call_arg('{BA}', 1) == name and call_arg('{BA}', 2) == result.qname and call_arg('{BA}', 4) == True and "
                  f"call_arg('{BA}', 5) == namespace and called('PyList.append') == 1 and call_arg('PyList.append', 0) is call_result('{BA}')"),
                 ("the-field-is-not-touched-after-it-was-built", "called('setattr') == 0")],
        raises={"ValueError": True}, modifies=["target.inner"], properties=["C17"],
    ))
