from pyvc.contracts import Contract, Loop, assume_method
from . import collab

CL = "xsdata.formats.dataclass.client:Client"
HDR = "dict[str,str]"


def register(db):
    collab.declare(db)
    register_wsdl_parts(db)
    P = ["C17"]
    assume_method(db, "Transport", "post", returns="u:Bytes", pure=True, raises=["ConnectionError"] if False else [])
    assume_method(db, "XmlParserObj", "from_bytes", returns="u:Any", pure=True, raises=["ParserError"])
    assume_method(db, "XmlSerializerObj", "render", returns="str", pure=True, raises=["SerializerError"] if False else [])
    collab.field(db, "XmlSerializerObj", "context", "u:XmlContext")
    db.opaque_isinst[("Any", "dict")] = "uf"
    collab.field(db, "type", "__name__", "str")

    def client(mk, base):
        cfg = mk.obj("xsdata.formats.dataclass.client:Config", {
            "style": "str", "location": "str", "transport": "str", "soap_action": "str",
            "input": "opaque:type", "output": "opaque:type", "encoding": "str|None"})
        return mk.obj(CL, {"config": cfg, "transport": "opaque:Transport", "parser": "opaque:XmlParserObj",
                           "serializer": "opaque:XmlSerializerObj"})

    OTHER = ("forall('str', lambda k: implies(k != 'content-type' and k != 'SOAPAction', "
             "(k in result) == (k in headers) and implies(k in headers, result[k] == headers[k])))")
    db.add(Contract(
        f"{CL}.prepare_headers",
        params={"self": client, "headers": HDR},
        ensures=[
            ("content-type-text-xml", "'content-type' in result and result['content-type'] == 'text/xml'"),
            ("soap-action-header", "implies(self.config.soap_action != '', 'SOAPAction' in result and result['SOAPAction'] == self.config.soap_action)"),
            ("no-soap-action-invented", "implies(self.config.soap_action == '', ('SOAPAction' in result) == ('SOAPAction' in headers) and implies('SOAPAction' in headers, result['SOAPAction'] == headers['SOAPAction']))"),
            ("caller-headers-kept", OTHER),
            ("argument-not-mutated", "same_dict(headers, old(headers))"),
            ("soap-over-http-only", "self.config.transport == SOAP_HTTP_TRANSPORT"),
        ],
        raises={"ClientValueError": "self.config.transport != SOAP_HTTP_TRANSPORT"},
        returns=HDR,
        properties=P,
    ))
    db.add(Contract("xsdata.formats.dataclass.parsers.dict:DictDecoder.decode", trusted=True, params={}, returns="u:Any",
                    raises={"ParserError": True, "ConverterError": True, "XmlContextError": True}))
    RENDER = "uf('XmlSerializerObj.render', 'str', self.serializer, obj)"
    db.add(Contract(
        f"{CL}.prepare_payload", variant="model-instance",
        params={"self": client, "obj": "opaque:Any"},
        requires=["not uf('isinstance_Any_dict', 'bool', obj)"],
        ensures=[
            ("is-instance-of-input-class", "uf('isinstance_dyn_Any_type', 'bool', obj, self.config.input)"),
            ("payload-is-the-serialized-request", f"implies(not self.config.encoding, result == {RENDER})"),
            ("encoded-with-configured-encoding", f"implies(self.config.encoding, result == uf('str.encode', 'u:Bytes', {RENDER}, self.config.encoding))"),
        ],
        raises={"ClientValueError": "not uf('isinstance_dyn_Any_type', 'bool', obj, self.config.input)"},
        call_ensures=["result == uf('payload', 'u:Any', self, obj)"] if False else None,
        properties=P,
    ))
    db.add(Contract(f"{CL}.prepare_payload", variant="call-view", trusted=True, call_default=True, params={},
                    returns="u:Payload", raises={"ClientValueError": True, "ParserError": True, "ConverterError": True, "XmlContextError": True},
                    call_ensures=["result == uf('Client.prepare_payload', 'u:Payload', self.serializer, self.config.input, self.config.encoding, obj)"],
                    note="call-site abstraction: the payload is a function of serializer, input class, encoding and the request object"))
    for variant, hdr in (("with-headers", HDR), ("without-headers", None)):
        db.add(Contract(
            f"{CL}.send", variant=variant,
            params={"self": client, "obj": "opaque:Any", "headers": hdr},
            ensures=[
                ("posts-exactly-once", "called('Transport.post') == 1"),
                ("to-the-endpoint-location", "call_arg('Transport.post', 0) == self.config.location"),
                ("posts-the-prepared-payload", "call_kwarg('Transport.post', 'data') == uf('Client.prepare_payload', 'u:Payload', self.serializer, self.config.input, self.config.encoding, obj)"),
                ("with-the-required-headers", "'content-type' in call_kwarg('Transport.post', 'headers') and call_kwarg('Transport.post', 'headers')['content-type'] == 'text/xml'"
                 " and implies(self.config.soap_action != '', call_kwarg('Transport.post', 'headers')['SOAPAction'] == self.config.soap_action)"),
                ("returns-the-parsed-output-envelope", "result == uf('XmlParserObj.from_bytes', 'u:Any', self.parser, "
                 "uf('Transport.post', 'u:Bytes', self.transport, self.config.location, 'data', call_kwarg('Transport.post', 'data'), 'headers', call_kwarg('Transport.post', 'headers')), self.config.output)"),
            ] + ([("caller-headers-forwarded", "forall('str', lambda k: implies(k in headers and k != 'content-type' and k != 'SOAPAction', "
                   "k in call_kwarg('Transport.post', 'headers') and call_kwarg('Transport.post', 'headers')[k] == headers[k]))")] if hdr else []),
            raises={"ClientValueError": True, "ParserError": True, "ConverterError": True, "XmlContextError": True},
            properties=P,
        ))

    # ------------------------------------------------------------------ service description -> client config
    CFG = "xsdata.formats.dataclass.client:Config"
    FIELDS = ["style", "location", "transport", "soap_action", "input", "output", "encoding"]
    for f in FIELDS:
        collab.field(db, "ServiceClass", f, "u:Any|None")
    db.add(Contract(
        f"{CFG}.from_service",
        params={"obj": "opaque:ServiceClass"}, kwargs={"sdict": "dict[str,u:Any|None]"},
        ensures=[(f"{f}-override-wins-else-service-value",
                  f"result.{f} == ite('{f}' in kwargs, kwargs['{f}'], uf('ServiceClass.{f}', 'u:Any|None', obj))") for f in FIELDS],
        raises={},
        properties=P,
        note="getattr(obj, name, None) on the generated service class: the class attribute (None when absent)",
    ))


def register_wsdl_parts(db):
    """DefinitionsMapper.map_binding_message_parts: which parts of the WSDL message end up in the envelope's header /
    body class - the parts the binding names with `part="..."`, compared by *equality* of the part name; all parts
    when the binding names none."""
    DM = "xsdata.codegen.mappers.definitions:DefinitionsMapper"
    assume_method(db, "Definitions", "find_message", returns="u:Message", pure=True, raises=["CodegenError"])
    collab.field(db, "Message", "parts", "seq[u:Part]")
    collab.field(db, "Part", "name", "str")
    db.add(Contract(f"{DM}.build_parts_attributes", variant="call-view", trusted=True, call_default=True, params={},
                    returns="seq[u:Attr]", raises={"CodegenError": True},
                    note="call-site view: one attr per part handed in (recorded on the ghost trace)"))

    def extended(mk, base):
        return mk.obj("xsdata.formats.dataclass.models.generics:AnyElement", {"attributes": "dict[str,str]"})

    def the_class(mk, base):
        from pyvc.values import ClassRef
        return ClassRef("xsdata.codegen.mappers.definitions", "DefinitionsMapper")

    MSG_OK = "implies('message' in extended.attributes, len(extended.attributes['message']) > 0)"

    db.add(Contract(
        f"{DM}.map_binding_message_parts", variant="one-part-selected",
        params={"cls": the_class, "definitions": "opaque:Definitions", "message": "str", "extended": extended, "ns_map": "opaque:PyDict"},
        requires=["'part' in extended.attributes", "len(message) > 0", MSG_OK],
        ensures=[("a-part-is-selected-iff-its-name-is-the-named-part",
                  "comp_filter_count() == 1 and comp_filter_condition() == (comp_filter_element().name == extended.attributes['part'])")],
        raises={"CodegenError": True}, properties=["C17"],
    ))
    db.add(Contract(
        f"{DM}.map_binding_message_parts", variant="no-part-selected",
        params={"cls": the_class, "definitions": "opaque:Definitions", "message": "str", "extended": extended, "ns_map": "opaque:PyDict"},
        requires=["not ('part' in extended.attributes)", "not ('parts' in extended.attributes)", "len(message) > 0", MSG_OK],
        ensures=[("all-parts-of-the-message-unfiltered", "comp_filter_count() == 0 and called('DefinitionsMapper.build_parts_attributes') == 1")],
        raises={"CodegenError": True}, properties=["C17"],
    ))
