"""Replay for the cache-key adequacy obligations of memoised functions (C14, pyvc/memo.py).

The refuted obligation says: two *equal* arguments of different types give different results.  Natively that is a history
dependence: in one fresh interpreter the function is called with a then b, in another with b then a; if the answer for
the same argument differs between the two histories the violation is REPRODUCED (exit 1)."""
import os
import subprocess
import sys

PROBE = r'''
import importlib, sys
sys.path.insert(0, {repo!r})
mod = importlib.import_module({module!r})
f = mod
for part in {qualname!r}.split("."):
    f = getattr(f, part)
vals = {vals!r}
out = []
for v in vals:
    out.append(repr(f(v)))
print("|".join(out))
'''


def run(key, args, kind, clause, raises, ensures, RAISED):
    # verif_memo:memo_key__<Qual_Name>__<param>__<t1>_<t2>: the function is found again by scanning the source
    name = key.split(":")[1]
    repo = os.environ.get("VERIF_REPO", "/repo")
    target = None
    import ast
    from pathlib import Path
    for path in sorted(Path(repo, "xsdata").rglob("*.py")):
        try:
            tree = ast.parse(path.read_text())
        except SyntaxError:
            continue
        modname = ".".join(path.relative_to(repo).with_suffix("").parts)

        def visit(body, prefix):
            nonlocal target
            for node in body:
                if isinstance(node, ast.ClassDef):
                    visit(node.body, prefix + node.name + ".")
                elif isinstance(node, ast.FunctionDef):
                    q = prefix + node.name
                    if name.startswith("memo_key__" + q.replace(".", "_") + "__"):
                        target = (modname, q)
        visit(tree.body, "")
    if target is None:
        print("memoised function not found in the source")
        print("NOT-REPRODUCED")
        return 0
    a, b = args.get("a"), args.get("b")
    t1, t2 = name.rsplit("__", 1)[1].split("_")
    cast = {"int": int, "float": float, "bool": bool}
    a, b = cast[t1](a), cast[t2](b)
    if a != b:
        b = cast[t2](a)

    def history(vals):
        code = PROBE.format(repo=repo, module=target[0], qualname=target[1], vals=vals)
        r = subprocess.run([sys.executable, "-c", code], capture_output=True, text=True, timeout=60)
        return r.stdout.strip().split("|"), r.stderr[-300:]

    (ra, rb), e1 = history([a, b])
    (rb2, ra2), e2 = history([b, a])
    print(f"{target[0]}:{target[1]}  fresh interpreter, {a!r} then {b!r}: {ra} , {rb}")
    print(f"{target[0]}:{target[1]}  fresh interpreter, {b!r} then {a!r}: {rb2} , {ra2}")
    if ra != ra2 or rb != rb2:
        print(f"the answer for {a!r} / {b!r} depends on which of the two equal values the process saw first")
        print("REPRODUCED")
        return 1
    print(e1 or e2 or "same answers in both histories")
    print("NOT-REPRODUCED")
    return 0
