#!/bin/sh
# re-run every seeded change (or the ones named on the command line) against the check of its property; one line per seed
cd "$(dirname "$0")/.." || exit 3
for pair in C03a:C05 C03b:C03 C03c:C03 C04a:C04 C05a:C05 C05b:C05 C06a:C06 C06b:C06 C06c:C06 C07a:C07 C09a:C09 C09b:C09 C10a:C10 C10b:C10 \
            C14a:C14 C14b:C14 C15a:C15 C15b:C15 C15c:C15 C17a:C17 C18a:C18 C18b:C18 \
            C03d:C03 C04b:C04 C05c:C05 C06d:C06 C06e:C06 C07b:C07 C09c:C09 C10c:C10 C14c:C14 C15d:C15 C17b:C17 C18c:C18 \
            C03e:C03 C04c:C04 C05d:C05 C06f:C06 C06g:C06 C07c:C07 C09d:C09 C10d:C10 C14d:C14 C15e:C15 C17c:C17 C18d:C18 \
            C03f:C03 C04d:C04 C05e:C05 C06h:C06 C07d:C07 C09e:C09 C10e:C10 C14e:C14 C15f:C15 C17d:C17 C18e:C18 \
            C03g:C03 C04e:C04 C05f:C05 C06i:C06 C07e:C07 C09f:C09 C10f:C10 C14f:C14 C15g:C15 C17e:C17 C18f:C18; do
  case "$1" in ""|all) ;; *) case " $* " in *" ${pair%%:*} "*) ;; *) continue ;; esac ;; esac
  id=${pair%%:*}; prop=${pair##*:}
  tools/try_seed.sh "$id" "$prop" 2>&1 | grep "^seed=\|^VIOLATION" | cut -c1-200
done
