#!/bin/sh
# re-run every seeded change against the check(s) of its property; prints one line per seed
cd "$(dirname "$0")/.." || exit 3
for pair in C03a:C05 C03b:C03 C03c:C03 C04a:C04 C05a:C05 C05b:C05 C06a:C06 C06b:C06 C06c:C06 C07a:C07 C09a:C09 C09b:C09 C10a:C10 C10b:C10 \
            C14a:C14 C14b:C14 C15a:C15 C15b:C15 C15c:C15 C17a:C17 C18a:C18 C18b:C18 \
            C03d:C03 C04b:C04 C05c:C05 C06d:C06 C06e:C06 C07b:C07 C09c:C09 C10c:C10 C14c:C14 C15d:C15 C17b:C17 C18c:C18; do
  id=${pair%%:*}; prop=${pair##*:}
  tools/try_seed.sh "$id" "$prop" 2>&1 | grep "^seed=\|^VIOLATION" | cut -c1-200
done
