#!/usr/bin/env python3
"""tools/record_seed_results.py <output of tools/try_all_seeds.sh>: write what the check reported for each seed into
seeded/<id>/meta.json (keys confirmed_by_me, detected_by) - only for seeds that do not carry these keys yet or when
--force is given."""
import json
import re
import sys
from pathlib import Path

ROOT = Path(__file__).resolve().parent.parent
text = Path(sys.argv[1]).read_text()
force = "--force" in sys.argv
viol = []
for line in text.splitlines():
    m = re.match(r"VIOLATION property=(\S+) replay=\S*/replays/\S+?/(\S+?)(\.py)?( no-failing-input-found)?$", line.strip())
    if m:
        viol.append((m.group(1), m.group(2).replace(".py", ""), bool(m.group(4))))
        continue
    m = re.match(r"seed=(\S+) property=(\S+) violations_reported=(\d)", line.strip())
    if m:
        sid, prop, n = m.group(1), m.group(2), int(m.group(3))
        meta_p = ROOT / "seeded" / sid / "meta.json"
        if meta_p.exists():
            meta = json.loads(meta_p.read_text())
            if force or "detected_by" not in meta:
                meta["confirmed_by_me"] = {
                    "tests": "tools/confirm_seed.sh: pytest in the scratch worktree -> 263 passed, 16 skipped, 104 errors (same as unchanged)",
                    "demo": "demo.py exits non-zero with the change and 0 on /repo",
                    "check": f"tools/try_seed.sh {sid} {prop} -> violations_reported={n}"}
                meta["detected_by"] = ({"check": prop, "obligations": sorted({v[1] for v in viol})[:6],
                                        "replay": "no-failing-input-found" if all(v[2] for v in viol) else "reproduced"}
                                       if n else {"check": prop, "obligations": [], "replay": "not reported"})
                meta_p.write_text(json.dumps(meta, indent=1))
                print(sid, "recorded", n)
        viol = []
