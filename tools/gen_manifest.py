#!/usr/bin/env python3
"""Regenerate MANIFEST.json from contracts/__init__.py (claimed properties) + the fixed N/A list."""
import json
import sys
from pathlib import Path

ROOT = Path(__file__).resolve().parent.parent
sys.path.insert(0, str(ROOT))
import contracts  # noqa: E402

NA = {
    "C01": "whole-pipeline equation parse(render(x))==x over all models/back ends; no single-function contract expresses a clause of it (value layer decided under C05/C06, prefix layer under C03, strictness under C10); DESIGN.md section 5",
    "C02": "XSD->code->bind faithfulness runs through ~10k lines of mappers/handlers plus jinja2 templates; jinja2/toposort/click are absent so the pipeline cannot even be replayed here; DESIGN.md section 5",
    "C08": "agreement of two external back ends (libxml2/expat, lxml SAX/XMLGenerator); repository-owned logic is shared by both and its only back-end specific part (merge_parent_namespaces) is proved under C09; DESIGN.md section 5",
    "C11": "generic-tree round trip is a composition of WildcardNode/ElementNode state machines with external XML layers; no per-function contract decides it; DESIGN.md section 5",
    "C12": "hyper-property over interpreter hash seeds and invocation routes (CLI needs absent click/toposort); a contract speaks about one execution; DESIGN.md section 5",
    "C13": "sample-driven inference+merge+generation+binding pipeline; outside the reach of function contracts; DESIGN.md section 5",
    "C16": "DTD->code->bind faithfulness; same obstacle as C02; DESIGN.md section 5",
    "C19": "quantifier is over thread schedules; sequential pre/post-conditions are silent on interleavings and no concurrency-aware deductive tool for Python is present; DESIGN.md section 5",
}

PENDING = {p: "claim planned (DESIGN.md section 4) but its contracts are not yet written/discharging in the committed tree; not claimed until the check exists" for p in
           []}
NA.update(PENDING)

checks = []
for pid, meta in sorted(contracts.PROPERTIES.items()):
    checks.append({
        "property_id": pid,
        "quick_cmd": f"./check {pid} quick",
        "thorough_cmd": f"./check {pid} thorough",
        "evidence_file": f"/verif/evidence/{pid}.json",
        "replay_cmd_template": "/venv/bin/python {path}",
        "engine": "pyvc",
        "level_claimed": {
            "category": "proof",
            "text": ("Deductive proof, for all inputs, of the named function-level obligations generated from /repo's current source "
                     "(every obligation unsat in z3 or cvc5). Decided clauses: " + " | ".join(meta.get("decided", []))
                     + ". A change that breaks one fails that obligation; counter-models are replayed on the real code."),
            "design_ref": "DESIGN.md sections 0, 2.10 and 4",
        },
        "level_note": ("NOT decided by this check: " + " | ".join(meta.get("not_decided", [])) + ". Trusted base: pyvc engine and builtin models "
                       "(facts about CPython builtins sampled against the interpreter on every run), z3 5.1, cvc5 1.0.3, python ints as "
                       "mathematical integers; " + " | ".join(meta.get("trusted_base", []) + meta.get("assumptions", []))),
        "technique": ("contract-based deductive verification: VCs generated from the real Python source (ast, re-read every run) against "
                      "sidecar contracts (pre/post/raises/modifies, loop invariants, ghost parameters, lemma-schema hints), discharged function "
                      "by function by a portfolio: string-free EUF+LIA abstraction (z3) -> z3 5.1 -> cvc5 1.0.3; refutations replayed on the real code"
                      + ("; plus labelled BOUNDED stand-ins, never counted as proved: " + ", ".join(b["name"] for b in meta["bounded"]) if meta.get("bounded") else "")),
    })
    NA.pop(pid, None)

manifest = {
    "version": 1,
    "setup_cmd": "./setup.sh",
    "hooks": {
        "guard": "TEFRA_XSDATA_VERIF",
        "enable": "none needed: contracts live in /verif/contracts as a sidecar keyed by module:QualName; /repo source is read with ast on every run (no instrumentation in /repo)",
        "baseline_off_cmd": "cd /repo && /venv/bin/python -m pytest -ra -q -p no:cacheprovider --timeout=900 --continue-on-collection-errors",
        "source_commits": [],
        "add_only": True,
    },
    "engines": [{
        "name": "pyvc", "path": "/verif/pyvc", "serves_properties": sorted(contracts.PROPERTIES),
        "kind_free_text": "own VC generator: Python ast of /repo re-read every run -> typed symbolic execution against sidecar contracts (pre/post/raises/modifies, loop invariants, ghost parameters, lemmas) -> string-free EUF+LIA abstraction, z3 5.1 (python API) and cvc5 1.0.3 CLI portfolio; refutations replayed on the real code with /venv/bin/python (model replay, contract-guided witness search, or a family replay for abstract collaborators)",
    }],
    "checks": checks,
    "notes": "contract-based deductive verification of the real code; see DESIGN.md. fix: commits in /repo are listed in known_findings.json",
    "not_applicable": [{"property_id": k, "reason": v} for k, v in sorted(NA.items())],
}
(ROOT / "MANIFEST.json").write_text(json.dumps(manifest, indent=1) + "\n")
print("wrote MANIFEST.json with", len(checks), "checks and", len(NA), "not_applicable")
