#!/bin/sh
# run every claimed check (quick by default) on /repo's working tree; rewrites evidence/*.json
cd "$(dirname "$0")/.." || exit 3
tier="${1:-quick}"
rc=0
for p in $(python3 -c "import json;print(' '.join(c['property_id'] for c in json.load(open('MANIFEST.json'))['checks']))"); do
  ./check "$p" "$tier" | tail -8
  r=$?
  [ $r -ne 0 ] && rc=$r
done
exit $rc
