#!/usr/bin/env python3
"""Mutation campaign (not part of the checks): how strong are the contracts?

For every function under a (non-trusted) contract, first-order mutants of its source are generated on the AST
(comparison / boolean / arithmetic operator swaps, integer constants +-1, True<->False, `if c` -> `if not c`,
statement deletion) and installed in memory exactly like the canary guard does; the function's contracts are
re-verified.  A mutant is KILLED when some obligation of some contract of the function is not discharged (or the
function becomes undecided), SURVIVED when every contract still verifies.  Survivors are either equivalent
mutants or behaviour the contracts do not pin down - the list is the to-do list for stronger post-conditions.

usage: python3-vt tools/mutate.py [PROPERTY ...] [--per-function N] [--max-variants M] [--seed S] [--out FILE]
       [--functions substr,substr] [--procs N]
"""
import ast
import copy
import json
import multiprocessing as mp
import random
import sys
import time
from pathlib import Path

ROOT = Path(__file__).resolve().parent.parent
sys.path.insert(0, str(ROOT))

CMP = {ast.Lt: ast.LtE, ast.LtE: ast.Lt, ast.Gt: ast.GtE, ast.GtE: ast.Gt, ast.Eq: ast.NotEq, ast.NotEq: ast.Eq,
       ast.Is: ast.IsNot, ast.IsNot: ast.Is, ast.In: ast.NotIn, ast.NotIn: ast.In}
BIN = {ast.Add: ast.Sub, ast.Sub: ast.Add, ast.Mult: ast.FloorDiv, ast.FloorDiv: ast.Mult, ast.Mod: ast.FloorDiv}


def mutants(fn_node):
    """Yield (description, mutated copy of the function def)."""
    nodes = [n for n in ast.walk(fn_node)]
    for idx, n in enumerate(nodes):
        def variant(edit, what):
            c = copy.deepcopy(fn_node)
            target = [m for m in ast.walk(c)][idx]
            edit(target)
            ast.fix_missing_locations(c)
            return f"line {getattr(n, 'lineno', '?')}: {what}", c

        if isinstance(n, ast.Compare) and len(n.ops) == 1 and type(n.ops[0]) in CMP:
            new = CMP[type(n.ops[0])]
            yield variant(lambda t, new=new: t.ops.__setitem__(0, new()), f"{type(n.ops[0]).__name__} -> {new.__name__}")
        elif isinstance(n, ast.BoolOp):
            new = ast.Or if isinstance(n.op, ast.And) else ast.And
            yield variant(lambda t, new=new: setattr(t, "op", new()), f"{type(n.op).__name__} -> {new.__name__}")
        elif isinstance(n, ast.BinOp) and type(n.op) in BIN:
            new = BIN[type(n.op)]
            yield variant(lambda t, new=new: setattr(t, "op", new()), f"{type(n.op).__name__} -> {new.__name__}")
        elif isinstance(n, ast.AugAssign) and type(n.op) in BIN:
            new = BIN[type(n.op)]
            yield variant(lambda t, new=new: setattr(t, "op", new()), f"aug {type(n.op).__name__} -> {new.__name__}")
        elif isinstance(n, ast.Constant) and isinstance(n.value, bool):
            yield variant(lambda t: setattr(t, "value", not t.value), f"{n.value} -> {not n.value}")
        elif isinstance(n, ast.Constant) and isinstance(n.value, int) and not isinstance(n.value, bool):
            yield variant(lambda t: setattr(t, "value", t.value + 1), f"{n.value} -> {n.value + 1}")
            if n.value > 0:
                yield variant(lambda t: setattr(t, "value", t.value - 1), f"{n.value} -> {n.value - 1}")
        elif isinstance(n, (ast.If, ast.While)) and not isinstance(n.test, ast.Constant):
            yield variant(lambda t: setattr(t, "test", ast.UnaryOp(ast.Not(), t.test)), "condition negated")
        elif isinstance(n, ast.UnaryOp) and isinstance(n.op, ast.Not):
            def drop(t):
                t.op = ast.UAdd() if False else t.op
            c = copy.deepcopy(fn_node)
            tgt = [m for m in ast.walk(c)][idx]
            # replace `not x` by `x`: rewrite parent reference
            for parent in ast.walk(c):
                for field, value in ast.iter_fields(parent):
                    if value is tgt:
                        setattr(parent, field, tgt.operand)
                    elif isinstance(value, list) and tgt in value:
                        value[value.index(tgt)] = tgt.operand
            ast.fix_missing_locations(c)
            yield f"line {n.lineno}: `not` removed", c
    # statement deletion (replaced by pass), top-level and nested blocks, not the docstring
    stmts = [(p, f, i) for p in ast.walk(fn_node) for f in ("body", "orelse", "finalbody") if isinstance(getattr(p, f, None), list)
             for i, s in enumerate(getattr(p, f)) if isinstance(s, (ast.Expr, ast.Assign, ast.AugAssign, ast.AnnAssign, ast.Raise))
             and not (isinstance(s, ast.Expr) and isinstance(s.value, ast.Constant))]
    order = list(ast.walk(fn_node))
    for p, f, i in stmts:
        c = copy.deepcopy(fn_node)
        cp = list(ast.walk(c))[order.index(p)]
        s = getattr(cp, f)[i]
        getattr(cp, f)[i] = ast.copy_location(ast.Pass(), s)
        ast.fix_missing_locations(c)
        yield f"line {s.lineno}: statement deleted ({ast.unparse(s)[:40]})", c


def run_one(task):
    key, modname, qualname, src = task
    from pyvc import check

    out = check.worker((key, "quick", 6.0, ("ast", modname, qualname, src), None))
    obs = out["obligations"]
    bad = [o["name"] for o in obs if o["status"] != "unsat"]
    return key, bool(out["error"]) or bool(bad), (out["error"][0] if out["error"] else (bad[0] if bad else None))


def main():
    from pyvc.check import build_db
    from pyvc import source
    import contracts as pkg

    args = sys.argv[1:]
    per_fn = int(args[args.index("--per-function") + 1]) if "--per-function" in args else 6
    max_var = int(args[args.index("--max-variants") + 1]) if "--max-variants" in args else 6
    seed = int(args[args.index("--seed") + 1]) if "--seed" in args else 0
    outf = args[args.index("--out") + 1] if "--out" in args else str(ROOT / "mutation_report.json")
    only = args[args.index("--functions") + 1].split(",") if "--functions" in args else None
    procs = int(args[args.index("--procs") + 1]) if "--procs" in args else 16
    props = [a for a in args if a.startswith("C") and len(a) == 3] or sorted(pkg.PROPERTIES)
    rnd = random.Random(seed)
    db = build_db()
    by_fn = {}
    for key, c in db.contracts.items():
        if c.trusted or c.inline or not (set(c.properties) & set(props)):
            continue
        if only and not any(o in key for o in only):
            continue
        by_fn.setdefault((c.module, c.qualname), []).append(key)
    tasks, meta = [], {}
    for (modname, qualname), keys in sorted(by_fn.items()):
        mod = source.load_module(modname)
        node = mod.defs.get(qualname) if mod else None
        if node is None or not isinstance(node, ast.FunctionDef):
            continue
        ms = list(mutants(node))
        rnd.shuffle(ms)
        keys = rnd.sample(keys, max_var) if len(keys) > max_var else keys
        for mi, (desc, mnode) in enumerate(ms[:per_fn]):
            try:
                src = ast.unparse(mnode)
            except Exception:
                continue
            for key in keys:
                tasks.append((key, modname, qualname, src))
            meta[(modname, qualname, src)] = desc
    print(f"{len(by_fn)} functions, {len(meta)} mutants, {len(tasks)} verification runs", flush=True)
    t0 = time.time()
    results = []
    with mp.Pool(procs, maxtasksperchild=1) as pool:
        for task, (key, dead, why) in zip(tasks, pool.imap(run_one, tasks, chunksize=1)):
            results.append((task, dead, why))
    per_mut = {}
    for (key, modname, qualname, src), dead, why in results:
        k = (modname, qualname, src)
        e = per_mut.setdefault(k, {"function": f"{modname}:{qualname}", "mutant": meta[k], "killed_by": [], "survived": []})
        (e["killed_by"] if dead else e["survived"]).append(f"{key.split('#')[1] if '#' in key else '-'}: {why}" if dead else key)
    report = sorted(per_mut.values(), key=lambda e: (bool(e["killed_by"]), e["function"]))
    n_killed = sum(1 for e in report if e["killed_by"])
    summary = {"properties": props, "mutants": len(report), "killed": n_killed, "survived": len(report) - n_killed,
               "seconds": round(time.time() - t0, 1), "survivors": [e for e in report if not e["killed_by"]], "killed_list": [e for e in report if e["killed_by"]]}
    Path(outf).write_text(json.dumps(summary, indent=1))
    print(f"mutants={len(report)} killed={n_killed} survived={len(report) - n_killed}  -> {outf}")
    for e in summary["survivors"]:
        print("  SURVIVED", e["function"], "|", e["mutant"])


if __name__ == "__main__":
    main()
