#!/bin/sh
# tools/try_seed.sh <seed-id> <PROPERTY> [tier]: apply a seeded change to /repo, run the check, undo the change
id="$1"; prop="$2"; tier="${3:-quick}"
cd /repo || exit 3
git diff --quiet || { echo "/repo has uncommitted changes"; exit 3; }
git apply "/verif/seeded/$id/patch.diff" || exit 3
cd /verif && ./check "$prop" "$tier"; rc=$?
git -C /repo checkout -- .
echo "seed=$id property=$prop exit=$rc"
