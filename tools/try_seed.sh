#!/bin/sh
# tools/try_seed.sh <seed-id> <PROPERTY> [tier]: run the check of PROPERTY against a scratch worktree of /repo
# with the seeded change applied (VERIF_REPO points the check at it, VERIF_OUT keeps evidence/replays of the
# trial out of /verif); the worktree is removed afterwards.  /repo itself is never touched.
id="$1"; prop="$2"; tier="${3:-quick}"
wt="/tmp/seedwt_${id}_$$"; out="/tmp/seedout_${id}_$$"
git -C /repo worktree add --detach "$wt" HEAD >/dev/null 2>&1 || exit 3
git -C "$wt" apply "/verif/seeded/$id/patch.diff" || { git -C /repo worktree remove --force "$wt"; exit 3; }
cd /verif && VERIF_REPO="$wt" VERIF_OUT="$out" ./check "$prop" "$tier" | grep -v "guard: ok" | cut -c1-300; 
rc=$(python3 -c "import json;print(1 if json.load(open('$out/evidence/$prop.json'))['violations'] else 0)" 2>/dev/null)
git -C /repo worktree remove --force "$wt"; rm -rf "$out"
echo "seed=$id property=$prop violations_reported=$rc"
