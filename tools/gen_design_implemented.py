#!/usr/bin/env python3
"""Regenerate the "Implemented (from contracts/__init__.py ...)" paragraphs of DESIGN.md section 4 from the
per-property metadata (decided / not_decided / trusted_base / canaries), so the document cannot drift from what
the checks claim.  usage: python3 tools/gen_design_implemented.py"""
import re
import sys
from pathlib import Path

ROOT = Path(__file__).resolve().parent.parent
sys.path.insert(0, str(ROOT))
import contracts  # noqa: E402

P = contracts.PROPERTIES
p = ROOT / "DESIGN.md"
s = p.read_text()
s = re.sub(r"\*\*Implemented \(from `contracts/__init__\.py`.*?(?=^### 4\.|^## 5\. )", "", s, flags=re.S | re.M)
heads = list(re.finditer(r"^### 4\.(\d+) (C\d\d) ", s, flags=re.M))
end_all = s.index("## 5. Not applicable")
out = s
for i, m in reversed(list(enumerate(heads))):
    pid = m.group(2)
    if pid == "C06":
        continue  # written by hand
    stop = heads[i + 1].start() if i + 1 < len(heads) else end_all
    meta = P[pid]
    para = [f"**Implemented (from `contracts/__init__.py`, repeated in `evidence/{pid}.json`).** Decided by discharged obligations:\n"]
    para += [f"* {d}\n" for d in meta.get("decided", [])]
    if meta.get("not_decided"):
        para.append("\nNot decided (no obligation claims them):\n")
        para += [f"* {d}\n" for d in meta["not_decided"]]
    tb = meta.get("trusted_base", []) + meta.get("assumptions", [])
    if tb:
        para.append("\nAssumed / trusted for this property: " + "; ".join(tb) + ".\n")
    if meta.get("canaries"):
        para.append("\nCanary mutants that must not verify: " + ", ".join(f"`{c['name']}`" for c in meta["canaries"]) + ".\n")
    out = out[:stop] + "".join(para) + "\n" + out[stop:]
p.write_text(out)
