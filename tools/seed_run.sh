#!/bin/sh
# tools/seed_run.sh <seed-id> <contract-key-substring>...: development helper - verify only the matching contracts
# against a scratch worktree of /repo with the seeded change applied (prints the obligations not discharged)
id="$1"; shift
wt="/tmp/seedwt_${id}_$$"
git -C /repo worktree add --detach "$wt" HEAD >/dev/null 2>&1 || exit 3
git -C "$wt" apply "/verif/seeded/$id/patch.diff" || { git -C /repo worktree remove --force "$wt"; exit 3; }
cd /verif && VERIF_REPO="$wt" timeout 900 python3-vt -m pyvc.run "$@" 2>&1 | cut -c1-400
git -C /repo worktree remove --force "$wt"
