#!/bin/sh
# tools/confirm_seed.sh <seed-id>: confirm a sub-agent's seeded change myself in its scratch worktree (/tmp/wt_<id>,
# output in /tmp/seed_<id>): the 263 tests still pass, the demonstration fails with and passes without the change;
# then keep it under /verif/seeded/<id>/ and remove the worktree.
id="$1"; wt="/tmp/wt_$id"; out="/tmp/seed_$id"
[ -f "$out/patch.diff" ] || { echo "$id: no patch.diff"; exit 3; }
if [ ! -d "$wt" ]; then
  git -C /repo worktree add --detach "$wt" HEAD >/dev/null 2>&1 && git -C "$wt" apply "$out/patch.diff" || { echo "$id: cannot recreate worktree"; exit 3; }
fi
git -C "$wt" diff > "/tmp/seed_$id/patch.check.diff"
cmp -s "$out/patch.diff" "/tmp/seed_$id/patch.check.diff" || { echo "$id: patch.diff differs from the worktree diff (using the worktree diff)"; cp "/tmp/seed_$id/patch.check.diff" "$out/patch.diff"; }
tests=$(cd "$wt" && /venv/bin/python -m pytest -q -p no:cacheprovider --timeout=900 --continue-on-collection-errors 2>&1 | tail -1 | sed 's/\x1b\[[0-9;]*m//g')
(cd "$wt" && PYTHONPATH="$wt" /venv/bin/python "$out/demo.py" >/dev/null 2>&1); with=$?
(cd /repo && PYTHONPATH=/repo /venv/bin/python "$out/demo.py" >/dev/null 2>&1); without=$?
echo "$id: tests='$tests' demo_with_change=$with demo_unchanged=$without lines_changed=$(grep -c '^[+-][^+-]' "$out/patch.diff")"
case "$tests" in *"263 passed"*"16 skipped"*"104 errors"*) ok=1;; *) ok=0;; esac
if [ "$ok" = 1 ] && [ "$with" != 0 ] && [ "$without" = 0 ]; then
  mkdir -p "/verif/seeded/$id"; cp "$out/patch.diff" "$out/demo.py" "$out/meta.json" "/verif/seeded/$id/"
  echo "$id: CONFIRMED and kept"
else
  echo "$id: NOT confirmed"
fi
git -C /repo worktree remove --force "$wt" 2>/dev/null; rm -f "/tmp/seed_$id/patch.check.diff"
