#!/usr/bin/env python3
"""Sample the trusted facts about CPython builtins that contracts use as hints / that the builtin
models rely on, against the running interpreter.  Tested, not proved (labelled so in the evidence).

usage: crosscheck.py [samples]   (seed from VERIF_SEED)   exit 0 = all instances hold
"""
import json
import os
import random
import re
import sys
from pathlib import Path

sys.path.insert(0, str(Path(__file__).resolve().parent.parent / "contracts"))
import specs  # noqa: E402

WS_XSD = " \t\n\r"
WS_PY = specs._PY_WS
ALPHA = "abzAZ09_-.:{}+ \t\n Kİéx"


def rnd_str(r, alphabet, lo=0, hi=6):
    return "".join(r.choice(alphabet) for _ in range(r.randint(lo, hi)))


def main():
    n = int(sys.argv[1]) if len(sys.argv) > 1 else 400
    r = random.Random(int(os.environ.get("VERIF_SEED", "0")))
    count = 0
    fails = []

    def check(name, ok, witness):
        nonlocal count
        count += 1
        if not ok:
            fails.append((name, witness))

    for _ in range(n):
        w1, w2 = rnd_str(r, WS_XSD, 0, 3), rnd_str(r, WS_PY, 0, 3)
        tok = rnd_str(r, "abz09:-", 1, 5)
        # strip_padded / strip_blank / py_strip model (decomposition + uniqueness)
        s = w1 + tok + w2
        check("strip_padded", specs.strip_padded(s, w1, "[" + WS_PY + "]*", w2, tok, "[abz09:-]+"), s)
        check("strip_unique", specs.strip_unique(s, w1, tok, w2), s)
        blank = rnd_str(r, WS_PY, 0, 5)
        check("strip_blank", specs.strip_blank(blank), blank)
        anys = rnd_str(r, ALPHA, 0, 8)
        st = anys.strip()
        i = anys.find(st) if st else len(anys)
        check("strip_decomposition", anys == anys[:i] + st + anys[i + len(st):] and all(c in WS_PY for c in anys[:i] + anys[i + len(st):])
              and (st == "" or (st[0] not in WS_PY and st[-1] not in WS_PY)), anys)
        check("py_ws_set_is_isspace", all(c.isspace() for c in WS_PY), WS_PY)
        # index_at
        a, b = rnd_str(r, "abz09-", 0, 4), rnd_str(r, ALPHA, 0, 4)
        check("index_at", specs.index_at(a, "[abz09-]*", ":", b), (a, b))
        # int(): signed ascii numerals, padding
        d = rnd_str(r, "0123456789", 1, 12)
        sg = r.choice(["", "+", "-"])
        check("int_of_signed", specs.int_of_signed(sg + d, sg, d), sg + d)
        iblank = rnd_str(r, specs._INT_WS, 0, 4)
        check("int_ws", int(w1 + sg + d + iblank) == (-int(d) if sg == "-" else int(d)), w1 + sg + d + iblank)
        check("int_padded", specs.int_padded(w1 + sg + d + iblank, w1, "[" + specs._INT_WS + "]*", iblank, sg + d, "[+-]?[0-9]+"), (w1, sg, d, iblank))
        junk = rnd_str(r, ALPHA + "\x1c\x1e", 0, 6)
        try:
            v = int(junk)
            ok = True
        except ValueError:
            ok = False
        core = specs.py_int_strip(junk)
        # the model: a signed ASCII numeral after int-whitespace stripping always parses (other accepted texts are unconstrained)
        check("int_model", (re.fullmatch(r"[+-]?[0-9]+", core) is None) or ok, junk)
        # pad / str(int) / str.from_int facts
        k, w = r.randint(0, 10 ** r.randint(0, 12)), r.randint(1, 9)
        p = specs.pad(k, w)
        check("pad_facts", len(p) >= w and p.isdigit() and int(p) == k and (k >= 10 ** w or len(p) == w) and (k < 10 ** w or p == str(k)), (k, w))
        check("pad_plus", format(k, "+03d") == "+" + specs.pad(k, 2) and (k == 0 or format(-k, "+03d") == "-" + specs.pad(k, 2)), k)
        check("neg_pad", format(-k - 1, "04d") == "-" + specs.pad(k + 1, 3), k)
        check("str_int", str(-k) == ("-" + str(k) if k else "0") and re.fullmatch(r"-?[0-9]+", str(-k)) is not None, k)
        # floor division / modulo by constants, divmod
        x, c = r.randint(-10 ** 12, 10 ** 12), r.choice([60, 1000, 400, 100, 4, -7])
        q, m = divmod(x, c)
        check("floordiv", q * c + m == x and (0 <= m < c if c > 0 else c < m <= 0) and (x // 1000) // 1000 == x // 1000000, (x, c))
        # partition / find / split
        check("partition", anys.partition(":") == ((anys[:anys.find(":")], ":", anys[anys.find(":") + 1:]) if ":" in anys else (anys, "", "")), anys)
        check("split0", anys.split(".")[0] == (anys[:anys.find(".")] if "." in anys else anys) and (len(anys.split(".")) == 1) == ("." not in anys), anys)
        # repr round trips (language guarantee the C18 literals rely on)
        fl = r.uniform(-1e6, 1e6) * 10 ** r.randint(-20, 20)
        check("repr_float", eval(repr(fl)) == fl and str(fl) == repr(fl), fl)
        check("repr_str", eval(repr(anys)) == anys, anys)
        # lemma schemas of the scanner acceptance contracts
        n9 = r.randint(1, 9)
        kk = r.randint(0, 10 ** n9 - 1)
        tokd = specs.pad(kk, n9)
        hd, rs = rnd_str(r, ALPHA, 0, 4), rnd_str(r, ALPHA, 0, 4)
        check("digit_chars", specs.digit_chars(tokd, n9) and specs.digit_chars(anys, len(anys) or 1), tokd)
        check("chars_at", specs.chars_at(hd + tokd + rs, hd, tokd, n9, rs), (hd, tokd, rs))
        check("leading_zeros", specs.leading_zeros(tokd, n9), tokd)
        check("digits_only", specs.digits_only(tokd, "-") and specs.digits_only(tokd, "."), tokd)
        check("nat_shift", int(tokd + "0" * (9 - n9)) == kk * 10 ** (9 - n9), tokd)
        check("split_first", specs.split_first(anys) and specs.split_first(tokd), anys)
        check("last_of", specs.last_of(hd, tokd) and specs.last_of(anys, rs), (hd, tokd))
        check("strip_noop", specs.strip_noop(anys) and specs.strip_noop(tokd + rs), anys)
        check("substr_at", (hd + tokd + rs)[len(hd):len(hd) + len(tokd)] == tokd, (hd, tokd, rs))
        check("head_of", (not tokd) or (tokd + rs)[0] == tokd[0], tokd)
        check("ljust", tokd.ljust(9, "0") == tokd + "0" * (9 - n9), tokd)
        pcs = [rnd_str(r, "09-:Z+", 0, 3) for _ in range(r.randint(1, 5))]
        check("find_in", specs.find_in(":", *pcs) and specs.find_in("-", *pcs), pcs)
        check("rfind_in", specs.rfind_in(":", *pcs) and specs.rfind_in("-", *pcs), pcs)
        lo_, n_ = r.randint(0, 4), r.randint(1, 3)
        check("char_of_slice", all(specs.char_of_slice(anys + tokd, lo_, n_, j_) for j_ in range(n_)), (anys + tokd, lo_, n_))
        ii = r.randint(-1, len(tokd))
        check("digit_at", specs.digit_at(tokd, ii) and specs.digit_at(anys, ii), (tokd, ii))
        check("char_in_token", specs.char_in_token(hd + tokd + rs, hd, tokd, rs, ii), (hd, tokd, rs, ii))
        check("lstrip_noop", specs.lstrip_noop(tokd, "0") and specs.lstrip_noop(anys, "0"), tokd)
        # character classes used by the char models
        ch = chr(r.choice([r.randint(0, 127), r.randint(128, 0x2FFF)]))
        if ord(ch) < 128:
            check("ascii_isdigit", ch.isdigit() == ("0" <= ch <= "9") and ch.isalpha() == ("a" <= ch <= "z" or "A" <= ch <= "Z"), ch)
            check("ascii_lower", ch.lower() == (chr(ord(ch) + 32) if "A" <= ch <= "Z" else ch), ch)
    print(json.dumps({"instances": count, "failed": len(fails), "first_failures": [list(map(repr, f)) for f in fails[:5]]}))
    return 1 if fails else 0


if __name__ == "__main__":
    sys.exit(main())
