#!/bin/sh
# nothing to build: verify the tools the checks need are present
set -e
python3-vt -c "import z3; assert z3.get_version_string().startswith('5.')"
/usr/bin/cvc5 --version >/dev/null
/venv/bin/python -c "import xsdata, lxml"
mkdir -p /verif/evidence
echo setup-ok
