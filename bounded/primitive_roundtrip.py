#!/venv/bin/python
"""BOUNDED stand-in (not a proof) for the C05 clauses about float, Decimal and bytes.

float / Decimal formatting and parsing and base16 / base64 coding are C code behind str(), format() and binascii:
no contract within reach of the VC generator says anything about them.  This script serializes a stated, finite
family of values with the real converter, checks the text against the XSD lexical space of the datatype and
converts it back with the same type (and format), comparing with the original.

bound: Decimal - sign x 40 coefficient shapes (1..60 digits, leading / trailing zeros) x exponents -40..40 step 5,
               plus specials 0, -0, 0E-10, 1E+30;  float - +-0.0, subnormal, DBL_MIN/MAX, 1e22-1e23 boundary,
               2000 values m * 10**e (m in 25 mantissas, e in -30..30), inf, -inf, nan;
       bytes - every length 0..33 with three byte patterns, formats base16 and base64
       spellings - every serialized text again with 5 paddings of XSD white space (#x20 #x9 #xA #xD), base64 also with
               5 separators between groups of four characters and MIME line breaks: must be accepted with the same value
usage: primitive_roundtrip.py -> JSON summary, exit 1 if a case fails;  --case <repr> replays one case
"""
import json
import math
import os
import re
import sys
from decimal import Decimal

sys.path.insert(0, os.environ.get("VERIF_REPO", "/repo"))
from xsdata.formats.converter import converter  # noqa: E402

DEC = re.compile(r"[+-]?([0-9]+(\.[0-9]*)?|\.[0-9]+)")
FLT = re.compile(r"([+-]?([0-9]+(\.[0-9]*)?|\.[0-9]+)([Ee][+-]?[0-9]+)?)|[+-]?INF|NaN")
B16 = re.compile(r"([0-9a-fA-F]{2})*")
B64 = re.compile(r"[A-Za-z0-9+/]*={0,2}")


def cases():
    coeffs = ["0", "1", "7", "10", "100", "123", "1000", "120", "9" * 27, "9" * 28, "1" + "0" * 28, "123456789012345678901234567890",
              "123456789012345678901234567890" + "5", "1" * 40, "12345678901234567890123456789012345678901234567890123456789", "5" * 60]
    for sign in ("", "-"):
        for c in coeffs:
            for e in range(-40, 41, 5):
                yield "decimal", Decimal(f"{sign}{c}E{e}"), {}
    for s in ("0", "-0", "0E-10", "1E+30", "1.50", "0.000000000000000000000000000001", "123456789012345678901234567890.5"):
        yield "decimal", Decimal(s), {}
    mant = [1.0, 1.5, 2.0, 3.14159, 9.999999999999998, 0.1, 0.3, 1 / 3, 123456.789, 5e-324, 2.2250738585072014e-308, 1.7976931348623157e308,
            9.999999999999999e22, 1e22, 1e23, 4.35, 0.5, 255.0, 65536.0, 1e16, 9007199254740993.0, 1.0000000000000002, 123456789.12345679, 7e-05, 6e20]
    for m in mant:
        for e in range(-30, 31, 3):
            v = m * 10.0 ** e
            if math.isfinite(v):
                yield "float", v, {}
                yield "float", -v, {}
    for v in (0.0, -0.0, float("inf"), float("-inf"), float("nan")):
        yield "float", v, {}
    for n in range(0, 34):
        for pat in (bytes(range(n)), bytes([255] * n), bytes((i * 37 + 11) % 256 for i in range(n))):
            yield "bytes", pat, {"format": "base16"}
            yield "bytes", pat, {"format": "base64"}


def check(kind, value, kw):
    try:
        text = converter.serialize(value, **kw)
    except Exception as e:  # noqa
        return f"serialize raised {type(e).__name__}: {e}"
    rx = {"decimal": DEC, "float": FLT}.get(kind) or (B16 if kw.get("format") == "base16" else B64)
    if not isinstance(text, str) or not rx.fullmatch(text):
        return f"{text!r} is not in the XSD lexical space"
    try:
        back = converter.deserialize(text, [type(value)], **kw)
    except Exception as e:  # noqa
        return f"deserialize({text!r}) raised {type(e).__name__}: {e}"
    same = (math.isnan(back) if isinstance(value, float) and math.isnan(value) else
            (back == value and (not isinstance(value, float) or math.copysign(1, back) == math.copysign(1, value))))
    if type(back) is not type(value) or not same:
        return f"{text!r} converts back to {back!r}"
    # acceptance of the other spellings XSD allows for the same value: whiteSpace=collapse on all four datatypes
    # (leading / trailing #x20 #x9 #xA #xD), and for base64Binary white space between the characters (line breaks)
    spellings = [ws + text + ws2 for ws, ws2 in ((" ", ""), ("", " "), ("\t", "\n"), ("\r", "\r\n"), (" \r\n\t ", "\r"))]
    if kw.get("format") == "base64" and len(text) > 4:
        for sep in (" ", "\n", "\r\n", "\r", "\t"):
            spellings.append(sep.join(text[i:i + 4] for i in range(0, len(text), 4)))
        spellings.append("\r\n".join(text[i:i + 76] for i in range(0, len(text), 76)) + "\r\n")
    for sp in spellings:
        try:
            again = converter.deserialize(sp, [type(value)], **kw)
        except Exception as e:  # noqa
            return f"the valid lexical form {sp!r} is rejected: {type(e).__name__}: {e}"
        ok = (math.isnan(again) if isinstance(value, float) and math.isnan(value) else again == value)
        if type(again) is not type(value) or not ok:
            return f"the valid lexical form {sp!r} converts to {again!r}"
    return None


def main():
    if len(sys.argv) > 2 and sys.argv[1] == "--case":
        want = sys.argv[2].encode().decode("unicode_escape")
        for kind, value, kw in cases():
            if repr((kind, value, kw)) == want:
                r = check(kind, value, kw)
                print(sys.argv[2], "->", r or "ok")
                print("REPRODUCED" if r else "NOT-REPRODUCED")
                return 1 if r else 0
        print("not a case of the family")
        return 3
    n, fails = 0, []
    for kind, value, kw in cases():
        n += 1
        r = check(kind, value, kw)
        if r and len(fails) < 20:
            fails.append({"text": repr((kind, value, kw)), "why": r})
    print(json.dumps({"cases": n, "failed": len(fails), "failures": fails}))
    return 1 if fails else 0


if __name__ == "__main__":
    sys.exit(main())
