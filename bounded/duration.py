#!/venv/bin/python
"""BOUNDED stand-in (not a proof) for the XmlDuration clauses of C06.

Every combination of duration components (present / absent) x representative values x an optional fractional
seconds field x sign x XSD whitespace padding is parsed by the real XmlDuration and compared with the components
XSD assigns.  The acceptance / components direction of XmlDuration._parse_interval reads its fields from regex
groups; relating the groups to the text needs word equations over several string variables that neither z3 nor
cvc5 decides (tried: 45 s timeouts), hence this exhaustive check over a stated, finite family.

bound: components in {absent, 0, 7, 123456789012}, seconds in {absent, 0, 7, 7.5, 0.000000001, 12.000000001},
       sign in {'', '-'}, padding in {'', ' ', '\\n\\t'} on either side  (= 2 * 9 * 4^5 * 6 - degenerate forms)
usage: duration.py            -> JSON summary on stdout, exit 1 if a case fails
       duration.py --case T   -> replay one text (exit 1 if it fails)
"""
import itertools
import json
import os
import sys

sys.path.insert(0, os.environ.get("VERIF_REPO", "/repo"))
from xsdata.models.datatype import XmlDuration  # noqa: E402

INTS = [None, 0, 7, 123456789012]
SECS = [None, "0", "7", "7.5", "0.000000001", "12.000000001"]
PADS = ["", " ", "\n\t"]


def expected(sign, y, mo, d, h, mi, s):
    return {"negative": sign == "-", "years": y, "months": mo, "days": d, "hours": h, "minutes": mi,
            "seconds": float(s) if s is not None else None}


def text(sign, y, mo, d, h, mi, s):
    date = "".join(f"{v}{u}" for v, u in ((y, "Y"), (mo, "M"), (d, "D")) if v is not None)
    time = "".join(f"{v}{u}" for v, u in ((h, "H"), (mi, "M"), (s, "S")) if v is not None)
    return f"{sign}P{date}" + (f"T{time}" if time else "")


def check(txt, exp):
    try:
        v = XmlDuration(txt)
    except Exception as e:  # noqa
        return f"rejected: {type(e).__name__}: {e}"
    got = {k: getattr(v, k) for k in exp}
    if got != exp:
        return f"components {got} != {exp}"
    return None


def cases():
    for i, (sign, y, mo, d, h, mi, s) in enumerate(itertools.product(["", "-"], INTS, INTS, INTS, INTS, INTS, SECS)):
        if all(v is None for v in (y, mo, d, h, mi, s)):
            continue  # 'P' alone is not a duration
        core, exp = text(sign, y, mo, d, h, mi, s), expected(sign, y, mo, d, h, mi, s)
        yield core, exp
        # whitespace padding on a thinned subset (every 97th core) to keep the run short
        if i % 97 == 0 or (y, mo, d, h, mi, s) == (None, None, 7, None, None, None):
            for w1, w2 in itertools.product(PADS, PADS):
                if w1 or w2:
                    yield w1 + core + w2, exp


def main():
    if len(sys.argv) > 2 and sys.argv[1] == "--case":
        txt = sys.argv[2].encode().decode("unicode_escape")
        for core, exp in cases():
            if core == txt:
                r = check(core, exp)
                print(repr(txt), "->", r or "ok")
                print("REPRODUCED" if r else "NOT-REPRODUCED")
                return 1 if r else 0
        print("not a case of the family")
        return 3
    n, fails = 0, []
    for txt, exp in cases():
        n += 1
        r = check(txt, exp)
        if r and len(fails) < 20:
            fails.append({"text": txt, "why": r})
    print(json.dumps({"cases": n, "failed": len(fails), "failures": fails}))
    return 1 if fails else 0


if __name__ == "__main__":
    sys.exit(main())
