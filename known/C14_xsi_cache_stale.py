#!/venv/bin/python
"""Known finding C14: XmlContext rebuilds its xsi:type -> classes index only when len(sys.modules) changed.

A context that already answered a lookup does not see a model class defined afterwards in an already imported
module (same module count); a fresh context does.  exit 1 = still reproduces.
"""
import os
import sys
from dataclasses import dataclass, field
from typing import Optional

sys.path.insert(0, os.environ.get("VERIF_REPO", "/repo"))
from xsdata.formats.dataclass.context import XmlContext

used = XmlContext()
print("before the class exists :", used.find_type("{urn:late}Late"))


@dataclass
class Late:
    class Meta:
        namespace = "urn:late"

    x: Optional[str] = field(default=None, metadata={"type": "Element"})


with_history = used.find_type("{urn:late}Late")
fresh = XmlContext().find_type("{urn:late}Late")
print("context with history    :", with_history)
print("fresh context           :", fresh)
if with_history is not fresh:
    print("REPRODUCED: the used context answers from an index built before the class was defined")
    sys.exit(1)
print("NOT-REPRODUCED")
sys.exit(0)
