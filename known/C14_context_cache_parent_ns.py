#!/venv/bin/python
"""Known finding C14: XmlContext.cache is keyed by class only, although the metadata of a class without
its own namespace depends on the inherited parent namespace.

A shared context that first binds Child under a parent in urn:a and then under a parent in urn:b renders
Child's field in urn:a the second time; fresh objects render it in urn:b.  exit 1 = still reproduces.
"""
import os
import sys
from dataclasses import dataclass, field
from typing import Optional

sys.path.insert(0, os.environ.get("VERIF_REPO", "/repo"))
from xsdata.formats.dataclass.context import XmlContext
from xsdata.formats.dataclass.serializers import XmlSerializer


@dataclass
class Child:
    x: Optional[str] = field(default=None, metadata={"type": "Element"})


@dataclass
class PA:
    class Meta:
        namespace = "urn:a"

    child: Optional[Child] = field(default=None, metadata={"type": "Element"})


@dataclass
class PB:
    class Meta:
        namespace = "urn:b"

    child: Optional[Child] = field(default=None, metadata={"type": "Element"})


shared = XmlSerializer(context=XmlContext())
shared.render(PA(child=Child(x="1")))
with_history = shared.render(PB(child=Child(x="1")))
fresh = XmlSerializer(context=XmlContext()).render(PB(child=Child(x="1")))
print("with history:", with_history)
print("fresh       :", fresh)
if with_history != fresh:
    print("REPRODUCED: cached metadata carried the namespace urn:a into an unrelated document")
    sys.exit(1)
print("NOT-REPRODUCED")
sys.exit(0)
